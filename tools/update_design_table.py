#!/usr/bin/env python3
"""Regenerates the seeded-changes table inside DESIGN.md (between the seeded-table markers)."""
import subprocess, os
root=os.path.dirname(os.path.dirname(os.path.abspath(__file__)))
tab=subprocess.run(['python3',os.path.join(root,'tools/gen_seeded_meta.py')],capture_output=True,text=True).stdout.strip()
p=os.path.join(root,'DESIGN.md'); s=open(p).read()
a=s.index('<!-- seeded-table-begin -->'); b=s.index('<!-- seeded-table-end -->')
open(p,'w').write(s[:a]+'<!-- seeded-table-begin -->\n'+tab+'\n'+s[b:])
