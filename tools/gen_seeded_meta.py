#!/usr/bin/env python3
"""Writes seeded/<id>/meta.json for every kept seeded change and prints the DESIGN.md table.

The table below is maintained by hand from the runs recorded in scratch/mut/*.log (tools/mutws.sh:
the registered check run against a worktree of /repo HEAD + patch.diff) and seeded/<id>/confirm.log
(tools/confirm_mutant.sh: demonstration passes on HEAD, fails with the patch, existing tests of the
touched modules still pass with the patch).
"""
import json, os, re, sys

ROOT = os.path.dirname(os.path.dirname(os.path.abspath(__file__)))

# id -> (property, needs, check result, signature(s) that fired / why missed, strengthened?)
T = {
 "C01-m01": ("C01", "a filter whose AND contains an AndNot term next to an indexed term of a particular selectivity; only the indexed plan differs from the full scan",
             "caught", "quick seed 1", "c01 lookup-vs-scan differential signatures", None),
 "C02-q02": ("C02", "the full optimiser (index metadata present) and a group whose only term is a same-kind group of two or more terms, at any nesting level", "caught", "quick seed 1", "c02/optimise-changes-match, c02/duplicate-padding-changes-match, c02/optimise-not-idempotent-in-meaning", None),
 "C15-q15": ("C15", "an administrator-defined class with a non-system must attribute (dynamic schema, domain level <= 14), then a create omitting it or a modify purging it",
             "caught", "quick seed 1", "c15/missing-required-attribute/after-ill_formed",
             "missed at first (the administrator-defined classes of the workload only allowed their attribute); one of the two custom classes now requires it, and two new ill-formed request kinds take the class without the attribute / drop the attribute"),
 "C20-q20": ("C20", "an access profile granting present+removed on uuid and a modlist mixing the uuid writes with a change of another attribute that also changes the entry's unique attributes",
             "caught", "quick seed 1", "c20/uuid-changed/set/afterrename",
             "missed at first (the benign companion modification was a mail value, so the uniqueness plugin refused the renumbered entry for clashing with its old self); added shapes that rename the target in the same modify list and a purge+present replacement kind"),
 "C31-q31": ("C31", "a badlist entry with a non-ASCII cased letter, submitted with that letter in upper case, strong enough to reach the badlist step, through a credential update session", "caught", "quick seed 1", "c31/session-primary-badlisted-password-stored", None),
 "C40-q40": ("C40", "an LDAP compare whose DN names an entry that exists but is invisible to the bound identity",
             "caught", "quick seed 1", "c40/compare-answers-for-entry-the-bind-cannot-find",
             "missed at first (compares were driven and counted but only judged in the same-answers battery); a compare that answers true/false for a DN the same session's search cannot find is now a violation, and compares also name groups, applications and builtin entries, by name and by uuid"),
 "C03-n03": ("C03", "an entry with a sync external id is deleted or its external id is changed; only the externalid2uuid lookup index keeps the stale mapping",
             "caught", "quick seed 1", "c03/externalid-of-dead-entry-still-resolves, c03/externalid-of-no-entry-still-resolves",
             "missed at first (no entry carried an external id); added Op::ExtId (sync objects with external ids) and the external-id lookup-vs-scan comparison"),
 "C04-n04": ("C04", "a transaction that changes access controls or key material AND a storage error inside the backend commit",
             "caught", "quick seed 1", "c04 published-state-without-stored-state signatures (fault enumeration over every storage point)", None),
 "C05-n05": ("C05", "a crash (process kill) between two particular storage steps of a commit",
             "caught", "quick seed 1", "c05 crash-point enumeration", None),
 "C06-m06": ("C06", "a reader that repeats a read while a writer commits between cache layers; needs the pause-point interleavings or stress",
             "caught", "quick seed 1", "c06 repeat-read-differs", None),
 "C07-p07": ("C07", "a commit whose clock did not advance (lamport bump), then a restart, then a clock still not beyond the pre-restart maximum",
             "caught", "quick seed 1", "c07/change-id-not-greater/after-Restart/..., c07/change-id-not-greater/after-Commit/...",
             "first run was inconclusive: with the change a restart can fail, and the harness panicked on the next step instead of ending that worker's history; fixed (and a shadowed variable in the signature)"),
 "C08-m08": ("C08", "three replicas: write on A, later purge of the same attribute on B, C refreshed from B before A's write reached B, then A's write reaches C",
             "caught", "quick seed 1", "c08/bounded/live-entry-attributes-differ/{description,member,directmemberof+memberof}/replicated",
             "missed twice (random 3-replica histories, then a random late-joiner sub-profile); added the bounded exhaustive part c08_bounded (every sequence over write/purge/refresh/replicate symbols on three real replicas)"),
 "C09-n09": ("C09", "delete on A, recycle-bin purge + changelog trim timing, and an edit of the same entry on B arriving afterwards",
             "caught", "quick seed 1", "c09 bounded sequences: deleted-entry-live-at-quiescence",
             "missed at first by the random histories; added c09_bounded (every sequence up to length 3/4 over 9 symbols on two real replicas)"),
 "C12-p12": ("C12", "an OAuth2 session value set that was decoded from its stored form (restart, cache eviction, restore, replication) and is then queried by resource-server uuid",
             "caught", "quick seed 1", "c12/valueset-behaviour-changed/Oauth2Session",
             "strengthened before the first run, from the change description alone: equality, re-encoding and the type-specific probes do not see derived state, so every value set is now also queried through the generic interface (display strings, index keys, membership, membership and removal by referenced uuid) before and after the round trip"),
 "C13-m13": ("C13", "a backup taken after purge_tombstones recorded an anchor change id with an empty id list",
             "caught", "quick seed 1", "c13 RUV differs after restore", None),
 "C16-n16": ("C16", "an OAuth2 client whose claim map maps the same group under two claim names, then the group is deleted",
             "caught", "quick seed 1", "c16/dangling-reference/oauth2_rs_claim_map/target-recycled/after-delete",
             "missed at first (no claim maps in the workload); added Op::ClaimMap (one or both of two claim names)"),
 "C17-m17": ("C17", "a leaf entry gains or loses a direct link to a group it also reaches through another path (memberof unchanged, directmemberof must change)",
             "caught", "quick seed 1", "c17/directmemberof-misses-group/after-add_member, c17/directmemberof-has-extra-group/after-rem_member",
             "missed at first (shortcut edges too rare; cyclic-graph classification also covered directmemberof); added the dense sub-profile and narrowed the classification to memberof"),
 "C18-q18": ("C18", "a dynamic group's filter is edited, then a later operation creates or edits a candidate whose match differs between the old and the new filter (no schema reload in between)",
             "caught", "quick seed 1", "c18/dynmember-misses-matching-entry/after-create, c18/dynmember-has-non-matching-entry/after-set_desc", None),
 "C25-q25": ("C25", "a freshly bootstrapped database, an acting user whose only admin role is idm_unix_admins (added directly), a high-privilege target and one of the unix attributes",
             "caught", "quick seed 1", "c25/hp-person-modified/unix_password, c25/hp-person-modified/ssh_publickey", None),
 "C34-q34": ("C34", "in one write transaction a key is revoked and the same key object is modified again (rotate / revoke / any change) before commit, the key's previous status change being from an earlier transaction",
             "caught", "quick seed 1", "c34/revoked-key-accepted/{jwe-refresh,es256-uat}/{local,replicated}",
             "missed at first (every key action was its own transaction); a third of the revocations are now followed by a rotation or a repeated revocation of the same key object inside the same write transaction"),
 "C19-n19": ("C19", "two entries in one incoming replication change set end up with the same name while no third entry holds it",
             "caught", "quick seed 1", "c19/duplicate-unique-value/{name,spn}/replicated", None),
 "C22-p22": ("C22", "an entry is deleted, the domain is renamed, then the entry is revived",
             "caught", "quick seed 1", "c22/spn-domain-part-stale/after-revive", None),
 "C23-n23": ("C23", "an entry-manager search access profile and a target entry without entry_managed_by",
             "caught", "quick seed 1", "c23/attribute-returned-without-grant/searchext, c23/entry-released-through-unreadable-filter-attr/searchext", None),
 "C24-m24": ("C24", "a Modify::Set on an attribute for which the matching profiles grant presence but not removal",
             "caught", "quick seed 1", "c24/modify-removed-values-without-remove-grant", None),
 "C26-n26": ("C26", "one revive request brings back two or more entries that were direct members of the same still-live group",
             "caught", "quick seed 1", "c26/direct-membership-not-restored-on-revive/scripted",
             "missed three times (every revive named one entry; then two-entry revives and a revive-dense sub-profile reached a shared live group only once or twice per run); added c26_scripted: every assignment of two persons and a dependent certificate to two groups x delete order x group deleted or not x four revive requests, and the oracle now judges every entry the request made live"),
 "C27-m27": ("C27", "the client chooses a mechanism the session did not offer (refused), then continues on the same session with an offered mechanism",
             "caught", "quick seed 1", "c27/step-accepted-after-refused-mechanism-choice/continue",
             "missed at first (the refused choice is an error answer to the client, which the monitor did not treat as the end of the session); a refused mechanism choice is now terminal for the monitor"),
 "C32-m32": ("C32", "account_valid_from moved into the future while account_expire is absent, token presented before the new start",
             "caught", "quick seed 1", "c32/accepted-before-valid-from/api", None),
 "C33-p33": ("C33", "an OAuth2-trust (external IdP) login that asks for privileges at init",
             "caught", "quick seed 1", "c33/write-scope-for-readonly-login-type/oauth2-trust",
             "missed at first (logins through an external provider were not driven); idmsim now sets up a trusted provider, links persons to it and scripts the front end's provider round trips, with and without the privileged flag"),
 "C36-p36": ("C36", "a login's session record is written AFTER the credential that issued it was removed in its own write", "caught", "quick seed 1", "c36/live-session-references-missing-credential", None),
 "C37-n37": ("C37", "a reset link exchanged once before its expiry (not committed), time advanced past the expiry, exchanged again", "caught", "quick seed 1", "c37/exchange-accepted-after-expiry", None),
 "C38-m38": ("C38", "a client with a supplementary scope map holding a scope no ordinary scope map gives the user, and a request naming that scope", "caught", "quick seed 1", "c38/scope-unmapped-granted, c38/scope-not-held-granted", None),
 "C39-p39": ("C39", "a client with PKCE made optional, an authorisation request that still sent a challenge, a token request without verifier", "caught", "quick seed 1", "c39/code-redeemed-without-verifier", None),
 "C47-p47": ("C47", "a supervisor tree of depth >= 2, parent stop already consumed by the subordinate, an actor below still busy, and an explicit stop() on the subordinate in that window",
             "caught", "quick seed 1", "c47/stop-returned-before-cleanup-done", None),
 "C49-q49": ("C49", "the anonymous account: a token issued while it was valid, then account_expire / valid_from set on anonymous, then the old token presented outside the window",
             "caught", "quick seed 1", "c49/issued-token-accepted-outside-validity/asker=anonymous",
             "missed at first (the builtin anonymous account never got a validity window); added anonymous_case: token issued, window written on anonymous, token and new anonymous logins probed on both sides of every edge, window reopened afterwards"),
 "C50-p50": ("C50", "a sync request from agreement B naming, without externalId, a live sync object owned by agreement A, together with another entry that has an externalId", "caught", "quick seed 1", "c50/sync-changed-other-agreement-entry", None),
}

def confirm(d):
    p = os.path.join(ROOT, "seeded", d, "confirm.log")
    if not os.path.exists(p):
        return None
    m = re.search(r"^RESULT without=(\d+) with=(\d+) existing=(\d+)", open(p).read(), re.M)
    return {"demo_without_patch_exit": int(m.group(1)), "demo_with_patch_exit": int(m.group(2)), "existing_tests_with_patch_exit": int(m.group(3))} if m else None

def main():
    rows = []
    for d, (prop, needs, res, where, sig, strengthened) in sorted(T.items()):
        dd = os.path.join(ROOT, "seeded", d)
        if not os.path.isdir(dd):
            continue
        c = confirm(d)
        meta = {
            "id": d,
            "breaks_property": prop,
            "needs_to_manifest": needs,
            "source": "fresh sub-agent given only the property text and a scratch worktree of /repo",
            "confirmed": c,
            "confirmed_how": "tools/confirm_mutant.sh in a scratch worktree: demo.diff test passes on HEAD, fails with patch.diff, existing tests of the touched modules (existing_filter.txt) still pass with patch.diff",
            "check_run": f"tools/mutws.sh <name> seeded/{d}/patch.diff quick {prop} (the registered check built against a worktree of /repo HEAD + patch.diff)",
            "check_result": res,
            "check_result_where": where,
            "signatures": sig,
            "strengthened": strengthened,
            "files": sorted(os.listdir(dd)),
        }
        json.dump(meta, open(os.path.join(dd, "meta.json"), "w"), indent=1)
        ok = c and c["demo_without_patch_exit"] == 0 and c["demo_with_patch_exit"] != 0 and c["existing_tests_with_patch_exit"] == 0
        rows.append(f"| {d} | {prop} | {needs} | {'yes' if ok else ('pending' if c is None else 'NO ' + str(c))} | {res or 'pending'} ({where or '-'}) | {sig or '-'} | {strengthened or '-'} |")
    print("| seeded change | property | needs to manifest | confirmed | check | signatures | strengthening |")
    print("|---|---|---|---|---|---|---|")
    print("\n".join(rows))

if __name__ == "__main__":
    main()
