#!/usr/bin/env python3
"""Regenerates /verif/MANIFEST.json from tools/checks.json (one record per claimed property).
Every property in properties.jsonl that has no record is listed under not_applicable with the reason
given in tools/unclaimed.json (or a default)."""
import json, os, subprocess
ROOT = os.path.dirname(os.path.dirname(os.path.abspath(__file__)))
props = [json.loads(l)["id"] for l in open(os.path.join(ROOT, "properties.jsonl"))]
checks = json.load(open(os.path.join(ROOT, "tools/checks.json")))
unclaimed = json.load(open(os.path.join(ROOT, "tools/unclaimed.json")))
engines = {
 "puresim": "enumeration / random differential testing of pure components against independent reference models",
 "filtersim": "entry populations x filter trees x index layouts x cache temperature; three-way differential search oracle",
 "dirsim": "random directory write histories on 1-3 real replicas with simulated time; invariant monitors over full dumps after every commit",
 "accessmodel": "random access-control configurations and identities against an independent grant model",
 "idmsim": "histories of logins, tokens, sessions, credential updates, OAuth2, LDAP, RADIUS, SCIM sync at simulated times; necessary-condition monitors over the event log",
 "faultsim": "storage fault injection, crash injection in forked children, pause-point interleaving scheduler",
 "clientsim": "scripted fake resolver daemon / fake identity server for PAM, resolver and RADIUS module",
 "actorsim": "random supervisor trees on the native runtime and under Miri many-seeds",
 "migsim": "backup/restore and domain-level upgrade of random content",
}
try:
    hooks = subprocess.check_output(["git", "-C", "/repo", "log", "--format=%H %s", "--grep=^verif-hooks:"], text=True).strip().splitlines()
    hooks = [h.split()[0] for h in hooks][::-1]
except Exception:
    hooks = []
m = {
 "version": 1,
 "setup_cmd": "cd /verif/harness && CARGO_NET_OFFLINE=true cargo build --offline --workspace",
 "hooks": {
  "guard": "cargo feature verif-hooks (crates kanidmd_lib and pam_sparkle_common), off by default",
  "enable": "the harness workspace /verif/harness depends on /repo crates by path with features = [\"verif-hooks\"]; every ./check run starts with cargo build --offline there, which recompiles whatever changed under /repo",
  "baseline_off_cmd": "cd /repo && RUSTUP_TOOLCHAIN=1.96.0 cargo nextest run --workspace --no-fail-fast --tool-config-file pb:/w/lib/nextest.toml --profile pb --test-threads 8 --offline",
  "source_commits": hooks,
  "add_only": True,
 },
 "engines": [],
 "checks": [],
 "notes": "Runtime monitoring: every check runs the real kanidm code (built from /repo's working tree, hooks on) under generated workloads and lets a deterministic oracle judge recorded behaviour. Exit 0 held / 1 VIOLATION / 2 inconclusive (never printed as VIOLATION). Known findings live in /verif/known_findings.json.",
 "not_applicable": [],
}
used = {}
for pid in props:
    if pid in checks:
        c = checks[pid]
        used.setdefault(c["engine"], []).append(pid)
        m["checks"].append({
         "property_id": pid,
         "quick_cmd": f"./check {pid} quick",
         "thorough_cmd": f"./check {pid} thorough",
         "evidence_file": f"/verif/evidence/{pid}.json",
         "replay_cmd_template": f"./check {pid} quick --replay {{path}}",
         "engine": c["engine"],
         "level_claimed": {"category": c["level"], "text": c["text"], "design_ref": c.get("design_ref", f"DESIGN.md section 5 {pid}")},
         "level_note": c["note"],
         "technique": c["technique"],
        })
    else:
        m["not_applicable"].append({"property_id": pid, "reason": unclaimed.get(pid, unclaimed["_default"])})
for e, ps in used.items():
    m["engines"].append({"name": e, "path": f"/verif/harness/{e}", "serves_properties": ps, "kind_free_text": engines.get(e, "")})
json.dump(m, open(os.path.join(ROOT, "MANIFEST.json"), "w"), indent=1)
print("claimed", len(m["checks"]), "unclaimed", len(m["not_applicable"]))
