#!/bin/bash
# tools/mutws.sh <name> <patch.diff> <tier> <prop> [<prop>...]
# Runs checks against a MUTATED copy of kanidm without touching /repo: a git worktree of /repo HEAD
# at the fixed path /tmp/mutws/repo gets the patch applied, the harness sources are copied to
# /tmp/mutws/harness with their path dependencies pointed at that worktree, and the engines are
# built in the persistent target dir /tmp/mutws-target (same paths every time, so only what the
# patch touches is recompiled). VERIF_ROOT=/tmp/mutws/root (copy of known_findings.json + pyref).
# Sequential use only (flock). Prints the verdict lines; removes the worktree afterwards.
set -u
name="$1"; patch="$2"; tier="$3"; shift 3
exec 9>/tmp/mutws.lock; flock 9
W=/tmp/mutws
git -C /repo worktree remove --force "$W/repo" 2>/dev/null; rm -rf "$W"; mkdir -p "$W/root/evidence" /tmp/mutws-target
git -C /repo worktree prune
git -C /repo worktree add -q --detach "$W/repo" HEAD || exit 2
if ! git -C "$W/repo" apply "$patch"; then echo "[$name] MUTWS patch does not apply"; git -C /repo worktree remove --force "$W/repo"; exit 2; fi
mkdir -p "$W/harness"
( cd /verif/harness && tar cf - --exclude='./target*' --exclude='./miri' . ) | ( cd "$W/harness" && tar xf - )
for f in $(grep -rl '"/repo/' "$W/harness" --include=*.rs --include=Cargo.toml 2>/dev/null | sort -u); do sed -i "s#\"/repo/#\"$W/repo/#g" "$f"; done
cp /verif/known_findings.json "$W/root/"; cp -r /verif/pyref "$W/root/" 2>/dev/null
engine_of() { grep -E "^\s+[C0-9|]*\b$1\b[C0-9|]*\) echo" /verif/check | sed -E 's/.*echo ([a-z0-9]+);;.*/\1/' | head -1; }
rc=0
for p in "$@"; do
  e=$(engine_of "$p")
  if ! ( cd "$W/harness" && CARGO_TARGET_DIR=/tmp/mutws-target cargo build --offline -p "$e" >"$W/build.log" 2>&1 ); then echo "[$name $p] MUTWS BUILD FAILED"; tail -15 "$W/build.log"; rc=2; continue; fi
  VERIF_ROOT="$W/root" VERIF_SCRATCH="$W/scratch" KANIDM_DEV_YOLO=1 RUST_LOG=off timeout 3000 "/tmp/mutws-target/debug/$e" "$p" --tier "$tier" --seed "${VERIF_SEED:-1}" 2>/dev/null | grep -E "^(SUMMARY|VIOLATION|INCONCLUSIVE|KNOWN-FINDING)" | cut -c1-260 | sed "s/^/[$name $p] /"
done
git -C /repo worktree remove --force "$W/repo"
exit $rc
