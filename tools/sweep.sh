#!/bin/bash
# tools/sweep.sh <tier> "<props>" "<seeds>"  -> prints verdict lines only
tier="$1"; props="$2"; seeds="$3"
for p in $props; do for s in $seeds; do
  VERIF_SEED=$s ./check $p $tier 2>&1 | grep -E "^(SUMMARY|VIOLATION|INCONCLUSIVE|KNOWN-FINDING)" | sed "s/^/[$p s=$s] /"
done; done
