#!/bin/bash
# tools/confirm_mutant.sh <seeded-dir> : confirm in a scratch worktree that (1) demo passes on HEAD,
# (2) with patch the tree compiles and the demo fails, (3) the existing tests of the touched crate's
# related modules still pass (filter taken from existing_filter.txt in the seeded dir, default none).
# Writes <seeded-dir>/confirm.log ; prints one summary line. Sequential use (flock), shared target dir.
set -u
D="$(cd "$1" && pwd)"; S="${CONFIRM_SLOT:-}"; exec 9>/tmp/confirm$S.lock; flock 9
# already confirmed by another slot while we waited for the lock
if [ -z "${CONFIRM_FORCE:-}" ] && grep -q "^RESULT" "$D/confirm.log" 2>/dev/null; then echo "CONFIRM $(basename $D) already done"; exit 0; fi
W=/tmp/confirm$S/repo; export RUSTUP_TOOLCHAIN=1.96.0 CARGO_NET_OFFLINE=true CARGO_TARGET_DIR=/tmp/confirm$S-target
git -C /repo worktree remove --force $W 2>/dev/null; git -C /repo worktree prune; mkdir -p /tmp/confirm$S
git -C /repo worktree add -q --detach $W HEAD || exit 2
cd $W
cmd=$(grep -E "cargo test" "$D/demo_cmd.txt" | tail -1 | sed -E 's/.*(cargo test.*)$/\1/' | sed -E 's/&&.*//')
[ -z "$cmd" ] && { echo "CONFIRM $D no demo command"; exit 2; }
{
echo "== demo command: $cmd"
git apply "$D/demo.diff" || echo "DEMO DIFF DOES NOT APPLY"
echo "== without patch"; timeout 5400 $cmd 2>&1 | tail -8; r1=${PIPESTATUS[0]}
git apply "$D/patch.diff" || echo "PATCH DOES NOT APPLY"
echo "== with patch"; timeout 5400 $cmd 2>&1 | tail -12; r2=${PIPESTATUS[0]}
filt=$(cat "$D/existing_filter.txt" 2>/dev/null)
crate=$(echo "$cmd" | sed -E 's/.*-p ([a-z_]+).*/\1/')
git apply -R "$D/demo.diff" 2>/dev/null
echo "== existing tests with patch (crate $crate filter '$filt')"; timeout 5400 cargo test -p $crate --lib --offline -- $filt 2>&1 | grep -E "^test result|FAILED|failed" | tail -5; r3=${PIPESTATUS[0]}
echo "RESULT without=$r1 with=$r2 existing=$r3"
} > "$D/confirm.log" 2>&1
tail -1 "$D/confirm.log" | sed "s#^#CONFIRM $(basename $D) #"
cd /; git -C /repo worktree remove --force $W
