//! Minimal in-process HTTP/1.1 server playing the kanidm identity server for `kanidm_client`.
//!
//! One `Stub` = one listening port. Requests are parsed (request line, headers, Content-Length body),
//! handed to a synchronous handler closure and answered with the headers `kanidm_client` expects
//! (`X-KANIDM-VERSION`, `X-KANIDM-OPID`). Keep-alive is supported. While the stub is "down" every
//! accepted connection and every request on a pooled connection is closed without an answer, which
//! the client reports as a transport error (= identity server unreachable).

use serde_json::Value;
use std::sync::atomic::{AtomicBool, AtomicU64, Ordering};
use std::sync::Arc;
use tokio::io::{AsyncReadExt, AsyncWriteExt};
use tokio::net::{TcpListener, TcpStream};

#[derive(Debug, Clone)]
pub struct Req {
    pub method: String,
    pub path: String,
    pub headers: Vec<(String, String)>,
    pub body: Vec<u8>,
}

impl Req {
    pub fn header(&self, name: &str) -> Option<&str> {
        self.headers
            .iter()
            .find(|(k, _)| k.eq_ignore_ascii_case(name))
            .map(|(_, v)| v.as_str())
    }
    pub fn bearer(&self) -> Option<&str> {
        self.header("authorization")
            .and_then(|v| v.strip_prefix("Bearer "))
    }
}

#[derive(Debug, Clone)]
pub enum Reply {
    /// status + JSON body
    Json(u16, Value),
    /// status + raw body (declared as application/json)
    Raw(u16, Vec<u8>),
    /// close the connection without answering
    Close,
    /// announce a longer body than is sent, then close
    Truncated(u16, Vec<u8>),
}

pub type Handler = Arc<dyn Fn(&Req) -> Reply + Send + Sync>;

pub struct Stub {
    pub port: u16,
    up: Arc<AtomicBool>,
    #[allow(dead_code)]
    pub requests: Arc<AtomicU64>,
    task: tokio::task::JoinHandle<()>,
}

impl Drop for Stub {
    fn drop(&mut self) {
        self.task.abort();
    }
}

/// The version `kanidm_client` was compiled with (its CARGO_PKG_VERSION = the /repo workspace version).
pub fn kanidm_version() -> String {
    let txt = std::fs::read_to_string("/repo/Cargo.toml").unwrap_or_default();
    let mut in_pkg = false;
    for line in txt.lines() {
        let l = line.trim();
        if l.starts_with('[') {
            in_pkg = l == "[workspace.package]";
            continue;
        }
        if in_pkg {
            if let Some(rest) = l.strip_prefix("version") {
                let rest = rest.trim_start();
                if let Some(rest) = rest.strip_prefix('=') {
                    return rest.trim().trim_matches('"').to_string();
                }
            }
        }
    }
    String::new()
}

impl Stub {
    /// Must be called inside a tokio runtime; the accept loop is spawned on it.
    pub async fn start(handler: Handler) -> std::io::Result<Stub> {
        let listener = TcpListener::bind(("127.0.0.1", 0)).await?;
        let port = listener.local_addr()?.port();
        let up = Arc::new(AtomicBool::new(true));
        let requests = Arc::new(AtomicU64::new(0));
        let version = Arc::new(kanidm_version());
        let up2 = up.clone();
        let rq = requests.clone();
        let task = tokio::spawn(async move {
            loop {
                let Ok((sock, _)) = listener.accept().await else {
                    continue;
                };
                if !up2.load(Ordering::SeqCst) {
                    drop(sock);
                    continue;
                }
                let h = handler.clone();
                let up3 = up2.clone();
                let v = version.clone();
                let rq = rq.clone();
                tokio::spawn(async move {
                    let _ = serve(sock, h, up3, v, rq).await;
                });
            }
        });
        Ok(Stub {
            port,
            up,
            requests,
            task,
        })
    }

    pub fn url(&self) -> String {
        format!("http://127.0.0.1:{}", self.port)
    }

    pub fn set_up(&self, up: bool) {
        self.up.store(up, Ordering::SeqCst);
    }
}

fn find_header_end(buf: &[u8]) -> Option<usize> {
    buf.windows(4).position(|w| w == b"\r\n\r\n").map(|p| p + 4)
}

async fn serve(
    mut sock: TcpStream,
    handler: Handler,
    up: Arc<AtomicBool>,
    version: Arc<String>,
    requests: Arc<AtomicU64>,
) -> std::io::Result<()> {
    let _ = sock.set_nodelay(true);
    let mut buf: Vec<u8> = Vec::with_capacity(4096);
    let mut opid: u64 = 0;
    loop {
        // read one request head
        let head_end = loop {
            if let Some(e) = find_header_end(&buf) {
                break e;
            }
            let mut tmp = [0u8; 4096];
            let n = sock.read(&mut tmp).await?;
            if n == 0 {
                return Ok(());
            }
            buf.extend_from_slice(&tmp[..n]);
            if buf.len() > 1 << 20 {
                return Ok(());
            }
        };
        let head = String::from_utf8_lossy(&buf[..head_end]).to_string();
        let mut lines = head.split("\r\n");
        let reqline = lines.next().unwrap_or("");
        let mut parts = reqline.split(' ');
        let method = parts.next().unwrap_or("").to_string();
        let path = parts.next().unwrap_or("").to_string();
        let mut headers = Vec::new();
        for l in lines {
            if let Some((k, v)) = l.split_once(':') {
                headers.push((k.trim().to_string(), v.trim().to_string()));
            }
        }
        let clen: usize = headers
            .iter()
            .find(|(k, _)| k.eq_ignore_ascii_case("content-length"))
            .and_then(|(_, v)| v.parse().ok())
            .unwrap_or(0);
        while buf.len() < head_end + clen {
            let mut tmp = [0u8; 4096];
            let n = sock.read(&mut tmp).await?;
            if n == 0 {
                return Ok(());
            }
            buf.extend_from_slice(&tmp[..n]);
        }
        let body = buf[head_end..head_end + clen].to_vec();
        buf.drain(..head_end + clen);

        if !up.load(Ordering::SeqCst) {
            // unreachable server: drop the pooled connection without a byte
            return Ok(());
        }
        requests.fetch_add(1, Ordering::SeqCst);
        let req = Req {
            method,
            path,
            headers,
            body,
        };
        opid += 1;
        let (status, body, declared) = match handler(&req) {
            Reply::Json(s, v) => {
                let b = serde_json::to_vec(&v).unwrap_or_default();
                let l = b.len();
                (s, b, l)
            }
            Reply::Raw(s, b) => {
                let l = b.len();
                (s, b, l)
            }
            Reply::Truncated(s, b) => {
                let l = b.len() + 64;
                (s, b, l)
            }
            Reply::Close => return Ok(()),
        };
        let reason = match status {
            200 => "OK",
            400 => "Bad Request",
            401 => "Unauthorized",
            403 => "Forbidden",
            404 => "Not Found",
            500 => "Internal Server Error",
            502 => "Bad Gateway",
            _ => "Status",
        };
        let head = format!(
            "HTTP/1.1 {status} {reason}\r\ncontent-type: application/json\r\ncontent-length: {declared}\r\nx-kanidm-version: {version}\r\nx-kanidm-opid: 00000000-0000-0000-0000-{opid:012}\r\n\r\n"
        );
        sock.write_all(head.as_bytes()).await?;
        sock.write_all(&body).await?;
        sock.flush().await?;
        if declared != body.len() {
            return Ok(());
        }
    }
}
