//! clientsim engine. See /verif/DESIGN.md section 2 and /verif/harness/AGENT_GUIDE.md.
//!
//! Serves C43 (PAM fails closed), C44 (offline login accepts only the last password verified
//! online) and C46 (RADIUS secrets go only to members of required groups).

// The real RADIUS module logic, compiled from /repo on every build. logic.rs refers to
// `crate::error`, so both sit at this crate's root.
#[path = "/repo/rlm_kanidm/module/src/error.rs"]
#[allow(dead_code)]
mod error;
#[path = "/repo/rlm_kanidm/module/src/logic.rs"]
#[allow(dead_code, private_interfaces, unexpected_cfgs)]
mod logic;

mod c43;
mod c44;
mod c46;
mod httpstub;

fn main() {
    // kanidm_client (debug assertions) exits the process on a version-header mismatch unless set.
    // Set before any thread exists.
    std::env::set_var("KANIDM_DEV_YOLO", "1");
    let args = kvcore::parse_args();
    match args.prop.as_str() {
        "C43" => c43::run(args),
        "C44" => c44::run(args),
        "C46" => c46::run(args),
        // debugging aid: `clientsim probe-crypt <shadow field> <password>` -> what the real CryptPw says
        "probe-crypt" => {
            use std::str::FromStr;
            let field = args.rest.first().cloned().unwrap_or_default();
            let pw = args.rest.get(1).cloned().unwrap_or_default();
            let r = sparkle_unix_common::unix_passwd::CryptPw::from_str(&field).map(|c| c.check_pw(&pw));
            println!("check_pw({field:?}, {pw:?}) = {r:?}");
        }
        p => {
            println!("INCONCLUSIVE property={p} reason=clientsim does not serve this property");
            std::process::exit(2);
        }
    }
}
