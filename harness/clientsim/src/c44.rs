//! C44 Offline login accepts only the last password verified online.
//!
//! Two "machines" per worker. Each machine is the real client resolver stack: `Resolver` (cache DB on
//! disk, soft TPM) + the real `KanidmProvider` (own machine key, own TPM-bound HMAC key) + a real
//! `KanidmClient` pointed at an in-process HTTP stub that plays the identity server. Logins go through
//! `Resolver::pam_account_authenticate` (init + step, exactly as the daemon drives the provider's
//! `unix_user_online_auth_step` / `unix_user_offline_auth_step`).
//!
//! Model (independent, in the harness): per (user, machine) the password of the most recent login for
//! which the identity server itself answered "verified" to that machine, and which machine sealed the
//! credential blob that currently sits in the machine's cache (blobs are moved between the two cache
//! databases by the harness).
//!
//! Oracle (one direction, as the statement says "only if"): an accepted login during which the identity
//! server did not verify the password  =>  password == model.last_verified[user, machine]  and the cached
//! blob was sealed on this machine. Rejections are counted, never judged.

use crate::httpstub::{Reply, Req, Stub};
use kanidm_client::KanidmClientBuilder;
use kanidm_proto::internal::OperationError;
use kanidm_proto::v1::UnixUserToken;
use kvcore::{Acc, Args, Rng, Run, Scratch};
use serde_json::{json, Value};
use sparkle_resolver_common::db::{Cache, Db};
use sparkle_resolver_common::idprovider::interface::tpm::provider::{BoxedDynTpm, SoftTpm, Tpm};
use sparkle_resolver_common::idprovider::interface::tpm::AuthValue;
use sparkle_resolver_common::idprovider::interface::{Id, IdProvider, UserToken};
use sparkle_resolver_common::idprovider::kanidm::KanidmProvider;
use sparkle_resolver_common::idprovider::system::SystemProvider;
use sparkle_resolver_common::resolver::Resolver;
use sparkle_unix_common::constants::{
    DEFAULT_CACHE_TIMEOUT, DEFAULT_GID_ATTR_MAP, DEFAULT_HOME_ALIAS, DEFAULT_HOME_ATTR,
    DEFAULT_HOME_PREFIX, DEFAULT_SHELL, DEFAULT_UID_ATTR_MAP,
};
use sparkle_unix_common::unix_config::KanidmConfig;
use std::collections::BTreeMap;
use std::sync::{Arc, Mutex};
use std::time::SystemTime;
use time::OffsetDateTime;
use uuid::Uuid;

const PWV1_KEY: &str = "kanidm-pw-v1";

// ------------------------------------------------------------------------------------------------
// the identity server (stub state)

#[derive(Clone, Debug)]
struct SrvUser {
    uuid: Uuid,
    gid: u32,
    password: String,
}

#[derive(Clone, Debug)]
struct VerifyRec {
    machine: usize,
    user: String,
    cred: String,
    ok: bool,
}

#[derive(Default)]
struct Idm {
    users: BTreeMap<String, SrvUser>,
    log: Vec<VerifyRec>,
    whoami: u64,
    token_get: u64,
}

fn unix_token(name: &str, u: &SrvUser) -> Value {
    let t = UnixUserToken {
        name: name.to_string(),
        spn: format!("{name}@idm.example.com"),
        displayname: format!("User {name}"),
        gidnumber: u.gid,
        uuid: u.uuid,
        shell: None,
        groups: Vec::new(),
        sshkeys: Vec::new(),
        valid: true,
    };
    serde_json::to_value(t).unwrap_or(Value::Null)
}

fn operr(e: OperationError) -> Value {
    serde_json::to_value(e).unwrap_or(Value::Null)
}

fn handler(machine: usize, idm: Arc<Mutex<Idm>>) -> crate::httpstub::Handler {
    Arc::new(move |req: &Req| {
        let mut st = idm.lock().unwrap();
        if req.bearer().is_none() {
            return Reply::Json(401, operr(OperationError::NotAuthenticated));
        }
        if req.method == "GET" && req.path == "/v1/self" {
            st.whoami += 1;
            return Reply::Json(
                200,
                json!({"youare": {"attrs": {"name": ["unixd_service"], "uuid": ["00000000-0000-4000-8000-00000000aaaa"]}}}),
            );
        }
        if let Some(rest) = req.path.strip_prefix("/v1/account/") {
            if let Some(id) = rest.strip_suffix("/_unix/_token") {
                if req.method == "GET" {
                    st.token_get += 1;
                    return match st.users.get(id) {
                        Some(u) => Reply::Json(200, unix_token(id, u)),
                        None => Reply::Json(404, operr(OperationError::NoMatchingEntries)),
                    };
                }
            }
            if let Some(id) = rest.strip_suffix("/_unix/_auth") {
                if req.method == "POST" {
                    let cred = serde_json::from_slice::<Value>(&req.body)
                        .ok()
                        .and_then(|v| v.get("value").and_then(|s| s.as_str()).map(|s| s.to_string()));
                    let Some(cred) = cred else {
                        return Reply::Json(400, operr(OperationError::InvalidState));
                    };
                    return match st.users.get(id).cloned() {
                        Some(u) => {
                            let ok = u.password == cred;
                            st.log.push(VerifyRec { machine, user: id.to_string(), cred, ok });
                            if ok {
                                Reply::Json(200, unix_token(id, &u))
                            } else {
                                // the server's "wrong password / not valid" answer
                                Reply::Json(200, Value::Null)
                            }
                        }
                        None => Reply::Json(404, operr(OperationError::NoMatchingEntries)),
                    };
                }
            }
        }
        Reply::Json(404, operr(OperationError::NoMatchingEntries))
    })
}

// ------------------------------------------------------------------------------------------------
// a machine

struct Machine {
    resolver: Resolver,
    provider: Arc<KanidmProvider>,
    stub: Stub,
    /// second connection to the same cache database (the harness moves cached tokens with it)
    peek: Db,
    marked_offline: bool,
    stub_up: bool,
}

async fn mk_machine(idx: usize, idm: Arc<Mutex<Idm>>, scratch: &Scratch) -> Result<Machine, String> {
    let stub = Stub::start(handler(idx, idm)).await.map_err(|e| format!("stub: {e}"))?;
    let client = KanidmClientBuilder::new()
        .address(stub.url())
        .enable_native_ca_roots(false)
        .no_proxy()
        .connect_timeout(2)
        .request_timeout(5)
        .build()
        .map_err(|e| format!("client: {e:?}"))?;
    let path = scratch.path().join(format!("cache-{idx}.db"));
    let path_s = path.to_string_lossy().to_string();
    let db = Db::new(&path_s).map_err(|e| format!("db: {e:?}"))?;
    let mut hsm = BoxedDynTpm::new(SoftTpm::default());
    let provider = {
        let mut dbtxn = db.write().await;
        dbtxn.migrate().map_err(|e| format!("migrate: {e:?}"))?;
        let auth_value = AuthValue::ephemeral().map_err(|e| format!("authvalue: {e:?}"))?;
        let loadable = hsm.root_storage_key_create(&auth_value).map_err(|e| format!("machine key: {e:?}"))?;
        let machine_key = hsm.root_storage_key_load(&auth_value, &loadable).map_err(|e| format!("machine key load: {e:?}"))?;
        let provider = KanidmProvider::new(
            client,
            &KanidmConfig {
                conn_timeout: 2,
                request_timeout: 5,
                pam_allowed_login_groups: vec!["allowed".to_string()],
                map_group: vec![],
                service_account_token: Some(format!("service-token-machine-{idx}")),
            },
            SystemTime::now(),
            &mut (&mut dbtxn).into(),
            &mut hsm,
            &machine_key,
        )
        .await
        .map_err(|e| format!("provider: {e:?}"))?;
        dbtxn.commit().map_err(|e| format!("commit: {e:?}"))?;
        Arc::new(provider)
    };
    let system_provider = SystemProvider::new().map_err(|e| format!("system provider: {e:?}"))?;
    let (resolver, _rx) = Resolver::new(
        db,
        Arc::new(system_provider),
        vec![provider.clone()],
        hsm,
        DEFAULT_CACHE_TIMEOUT,
        DEFAULT_SHELL.to_string(),
        DEFAULT_HOME_PREFIX.into(),
        DEFAULT_HOME_ATTR,
        DEFAULT_HOME_ALIAS,
        DEFAULT_UID_ATTR_MAP,
        DEFAULT_GID_ATTR_MAP,
    )
    .await
    .map_err(|_| "resolver".to_string())?;
    let peek = Db::new(&path_s).map_err(|e| format!("peek db: {e:?}"))?;
    Ok(Machine { resolver, provider, stub, peek, marked_offline: false, stub_up: true })
}

async fn peek_get(m: &Machine, user: &str) -> Option<(UserToken, u64)> {
    let mut txn = m.peek.write().await;
    let r = txn.get_account(&Id::Name(user.to_string())).ok().flatten();
    let _ = txn.commit();
    r
}

async fn peek_put(m: &Machine, tok: &UserToken, expire: u64) -> bool {
    let mut txn = m.peek.write().await;
    let ok = txn.update_account(tok, expire).is_ok();
    txn.commit().is_ok() && ok
}

// ------------------------------------------------------------------------------------------------
// model

#[derive(Default, Clone, Debug)]
struct PerMachine {
    /// candidates for "the most recent password verified online on this machine" (one entry, unless a
    /// verification succeeded at the server but the login did not report success - then old and new)
    last_verified: Vec<String>,
    /// every password ever verified online here (for classifying a witness only)
    ever_verified: Vec<String>,
    /// the credential blob now cached here: (machine whose key sealed it, password it was made from)
    blob: Option<(usize, String)>,
}

#[derive(Clone, Debug)]
enum Op {
    Login { m: usize, pw: String, kind: &'static str },
    ServerPwChange { new: String },
    MarkOffline { m: usize },
    StubDownAndRefresh { m: usize },
    GoOnline { m: usize },
    SwapCached,
    CopyBlob { from: usize, to: usize },
    Invalidate { m: usize },
    ClearCache { m: usize },
}

/// Would `incoming` be a credential this very machine sealed earlier and has since superseded?
fn stale_for(pm: &PerMachine, m: usize, incoming: &Option<(usize, String)>) -> bool {
    match incoming {
        Some((origin, pw)) => *origin == m && !pm.last_verified.contains(pw),
        None => false,
    }
}

fn op_json(op: &Op) -> Value {
    match op {
        Op::Login { m, pw, kind } => json!({"op": "login", "machine": m, "password": pw, "choice": kind}),
        Op::ServerPwChange { new } => json!({"op": "server-password-change", "new": new}),
        Op::MarkOffline { m } => json!({"op": "mark-offline", "machine": m}),
        Op::StubDownAndRefresh { m } => json!({"op": "server-unreachable+refresh", "machine": m}),
        Op::GoOnline { m } => json!({"op": "server-reachable+go-online", "machine": m}),
        Op::SwapCached => json!({"op": "swap-cached-tokens-between-machines"}),
        Op::CopyBlob { from, to } => json!({"op": "copy-credential-blob", "from": from, "to": to}),
        Op::Invalidate { m } => json!({"op": "invalidate-cache", "machine": m}),
        Op::ClearCache { m } => json!({"op": "clear-cache", "machine": m}),
    }
}

fn new_password(rng: &mut Rng) -> String {
    let words = ["tulip", "Granite", "ocean7", "pässw", "zebra!", "x y", "Kiwi", "delta-", "ωmega", "plum"];
    let n = rng.range(2, 4);
    let mut s = String::new();
    for _ in 0..n {
        s.push_str(rng.pick(&words));
    }
    s.push_str(&format!("{}", rng.below(1000)));
    s
}

async fn history(acc: &mut Acc, rng: &mut Rng, ms: &mut [Machine], idm: &Arc<Mutex<Idm>>, user: &str, gid: u32, nops: usize) {
    let mut server_pw = new_password(rng);
    let mut server_history = vec![server_pw.clone()];
    idm.lock().unwrap().users.insert(user.to_string(), SrvUser { uuid: rng.uuid(), gid, password: server_pw.clone() });
    let mut model = [PerMachine::default(), PerMachine::default()];
    let mut trace: Vec<Value> = Vec::new();
    let mut nontrivial = false;
    let now_odt = OffsetDateTime::UNIX_EPOCH + time::Duration::days(20_000);

    for step in 0..nops {
        // ---- choose
        let off = [ms[0].marked_offline || !ms[0].stub_up, ms[1].marked_offline || !ms[1].stub_up];
        let op = if step < 2 && rng.chance(3, 4) {
            // most histories start by logging in online on both machines
            Op::Login { m: step % 2, pw: server_pw.clone(), kind: "server-current" }
        } else if step == 2 && rng.chance(1, 2) {
            Op::ServerPwChange { new: new_password(rng) }
        } else if step == 3 && rng.chance(1, 2) {
            Op::Login { m: rng.usize(2), pw: server_pw.clone(), kind: "server-current" }
        } else {
            let anyoff = off[0] || off[1];
            let w_go_online = if anyoff { 4 } else { 1 };
            let w_go_offline = if off[0] && off[1] { 1 } else { 9 };
            match rng.weighted(&[55, 7, w_go_offline, w_go_offline / 2 + 1, w_go_online, 7, 4, 3, 1]) {
                0 => {
                    let m = if anyoff && rng.chance(2, 3) { if off[0] { 0 } else { 1 } } else { rng.usize(2) };
                    let o = 1 - m;
                    let mine = model[m].last_verified.last().cloned();
                    let theirs = model[o].last_verified.last().cloned();
                    let weights: [u32; 8] = if off[m] { [8, 25, 14, 20, 10, 3, 8, 12] } else { [45, 8, 5, 14, 14, 3, 5, 6] };
                    let (pw, kind) = match rng.weighted(&weights) {
                        0 => (server_pw.clone(), "server-current"),
                        1 => (mine.clone().unwrap_or_else(|| server_pw.clone()), "last-verified-here"),
                        2 => (theirs.clone().unwrap_or_else(|| server_pw.clone()), "last-verified-on-other-machine"),
                        3 => {
                            let old: Vec<&String> = model[m].ever_verified.iter().filter(|p| Some(*p) != mine.as_ref()).collect();
                            match old.last() {
                                Some(p) => ((*p).clone(), "older-verified-here"),
                                None => (server_history[0].clone(), "older-server-password"),
                            }
                        }
                        4 => (new_password(rng), "never-used"),
                        5 => (String::new(), "empty"),
                        6 => (format!("{} ", mine.clone().unwrap_or_else(|| server_pw.clone())), "last-verified-plus-space"),
                        _ => {
                            let p = mine.clone().unwrap_or_else(|| server_pw.clone());
                            let q = if p.to_uppercase() != p { p.to_uppercase() } else { p.to_lowercase() };
                            (q, "last-verified-case-changed")
                        }
                    };
                    Op::Login { m, pw, kind }
                }
                1 => Op::ServerPwChange { new: new_password(rng) },
                2 => Op::MarkOffline { m: if off[0] { 1 } else if off[1] { 0 } else { rng.usize(2) } },
                3 => Op::StubDownAndRefresh { m: if off[0] { 1 } else if off[1] { 0 } else { rng.usize(2) } },
                4 => Op::GoOnline { m: if off[0] && !off[1] { 0 } else if off[1] && !off[0] { 1 } else { rng.usize(2) } },
                5 => Op::SwapCached,
                6 => {
                    let from = rng.usize(2);
                    Op::CopyBlob { from, to: 1 - from }
                }
                7 => Op::Invalidate { m: rng.usize(2) },
                _ => Op::ClearCache { m: rng.usize(2) },
            }
        };
        let mut rec = op_json(&op);
        // ---- execute
        match &op {
            Op::ServerPwChange { new } => {
                server_pw = new.clone();
                server_history.push(new.clone());
                if let Some(u) = idm.lock().unwrap().users.get_mut(user) {
                    u.password = new.clone();
                }
                acc.count("op.server_pw_change");
            }
            Op::MarkOffline { m } => {
                ms[*m].resolver.mark_offline().await;
                ms[*m].marked_offline = true;
                acc.count("op.mark_offline");
            }
            Op::StubDownAndRefresh { m } => {
                ms[*m].stub.set_up(false);
                ms[*m].stub_up = false;
                // the daemon's background refresh is what notices the outage
                let _ = ms[*m].resolver.refresh_usertoken(&Id::Name(user.to_string()), SystemTime::now()).await;
                rec["provider_online_after"] = json!(ms[*m].provider.is_online().await);
                acc.count("op.stub_down_refresh");
            }
            Op::GoOnline { m } => {
                ms[*m].stub.set_up(true);
                ms[*m].stub_up = true;
                ms[*m].resolver.mark_next_check_now(SystemTime::now()).await;
                let on = ms[*m].resolver.test_connection().await;
                ms[*m].marked_offline = false;
                rec["provider_online_after"] = json!(on);
                acc.count(if on { "op.go_online.ok" } else { "op.go_online.failed" });
            }
            Op::SwapCached => {
                let a = peek_get(&ms[0], user).await;
                let b = peek_get(&ms[1], user).await;
                // what each side would hold afterwards (a side without a row only receives)
                let new0 = if b.is_some() { model[1].blob.clone() } else { model[0].blob.clone() };
                let new1 = if a.is_some() { model[0].blob.clone() } else { model[1].blob.clone() };
                if stale_for(&model[0], 0, &new0) || stale_for(&model[1], 1, &new1) {
                    // would roll a machine's own cache back to a credential it sealed earlier: that is
                    // tampering the statement does not cover, not an offline login
                    rec["skipped"] = json!("would restore a machine's own superseded credential");
                    acc.count("op.swap.skipped_own_stale_blob");
                } else {
                    let mut moved = false;
                    if let Some((ta, ea)) = &a {
                        moved |= peek_put(&ms[1], ta, b.as_ref().map(|x| x.1).unwrap_or(*ea)).await;
                    }
                    if let Some((tb, eb)) = &b {
                        moved |= peek_put(&ms[0], tb, a.as_ref().map(|x| x.1).unwrap_or(*eb)).await;
                    }
                    model[0].blob = new0;
                    model[1].blob = new1;
                    rec["moved"] = json!(moved);
                    acc.count(if moved { "op.swap.moved" } else { "op.swap.nothing_cached" });
                }
            }
            Op::CopyBlob { from, to } => {
                let src = peek_get(&ms[*from], user).await;
                let dst = peek_get(&ms[*to], user).await;
                let mut done = false;
                let incoming = model[*from].blob.clone();
                if stale_for(&model[*to], *to, &incoming) {
                    rec["skipped"] = json!("would restore a machine's own superseded credential");
                    acc.count("op.copy_blob.skipped_own_stale_blob");
                } else if let (Some((ts, _)), Some((mut td, ed))) = (src, dst) {
                    if let Some(blob) = ts.extra_keys.get(PWV1_KEY) {
                        td.extra_keys.insert(PWV1_KEY.to_string(), blob.clone());
                        done = peek_put(&ms[*to], &td, ed).await;
                        if done {
                            model[*to].blob = incoming;
                        }
                    }
                }
                rec["copied"] = json!(done);
                acc.count(if done { "op.copy_blob.done" } else { "op.copy_blob.nothing" });
            }
            Op::Invalidate { m } => {
                let _ = ms[*m].resolver.invalidate().await;
                acc.count("op.invalidate");
            }
            Op::ClearCache { m } => {
                if ms[*m].resolver.clear_cache().await.is_ok() {
                    model[*m].blob = None;
                }
                acc.count("op.clear_cache");
            }
            Op::Login { m, pw, kind } => {
                let m = *m;
                let before = idm.lock().unwrap().log.len();
                let online_before = ms[m].provider.is_online().await;
                let r = ms[m].resolver.pam_account_authenticate(user, now_odt, pw).await;
                let recs: Vec<VerifyRec> = idm.lock().unwrap().log[before..]
                    .iter()
                    .filter(|r| r.machine == m && r.user == user)
                    .cloned()
                    .collect();
                let accepted = matches!(r, Ok(Some(true)));
                let server_verified = recs.iter().any(|r| r.ok && r.cred == *pw);
                let server_answered = !recs.is_empty();
                rec["provider_online_before"] = json!(online_before);
                rec["server_reachable"] = json!(ms[m].stub_up);
                rec["result"] = json!(format!("{r:?}"));
                rec["server_verify_requests"] = json!(recs.iter().map(|r| json!({"cred": r.cred, "verified": r.ok})).collect::<Vec<_>>());
                acc.eval();
                acc.count(&format!("login.choice.{kind}"));
                if server_verified {
                    // ---- an online verification happened: update the model
                    if accepted {
                        acc.count("online.accept");
                        model[m].last_verified = vec![pw.clone()];
                        model[m].blob = Some((m, pw.clone()));
                    } else {
                        // verified at the server, yet the login did not report success: either may be cached
                        acc.count("online.verified_but_login_not_successful");
                        model[m].last_verified.push(pw.clone());
                    }
                    model[m].ever_verified.push(pw.clone());
                } else if accepted {
                    if server_answered {
                        // the server was reachable and said no: outside this statement ("while unreachable")
                        acc.count("online.accept_after_server_denial_unjudged");
                        acc.sample(json!({"unjudged": "accepted although the reachable server denied", "history": trace, "this": rec}));
                    } else {
                        // ---- THE JUDGED CASE: accepted without the identity server
                        nontrivial = true;
                        acc.count("offline.accept");
                        acc.count(if ms[m].marked_offline { "offline.accept.marked_offline" } else if !ms[m].stub_up { "offline.accept.server_unreachable" } else { "offline.accept.other" });
                        let is_last = model[m].last_verified.contains(pw);
                        let sealed_here = model[m].blob.as_ref().map(|b| b.0) == Some(m);
                        let sig = if !is_last {
                            if model[m].ever_verified.contains(pw) {
                                Some("c44/offline-accept-of-older-verified-password")
                            } else if model[1 - m].ever_verified.contains(pw) {
                                Some("c44/offline-accept-of-password-verified-only-on-other-machine")
                            } else {
                                Some("c44/offline-accept-of-never-verified-password")
                            }
                        } else if model[m].blob.is_none() {
                            Some("c44/offline-accept-without-cached-credential")
                        } else if !sealed_here {
                            Some("c44/offline-accept-with-credential-sealed-on-other-machine")
                        } else {
                            None
                        };
                        match sig {
                            Some(sig) => {
                                let mut h = trace.clone();
                                h.push(rec.clone());
                                acc.violation(
                                    sig,
                                    json!({"user": user, "history": h,
                                           "model": {"machine": m, "last_verified_here": model[m].last_verified, "ever_verified_here": model[m].ever_verified,
                                                     "cached_blob_sealed_by_machine_for_password": model[m].blob},
                                           "why": "login accepted without any verification by the identity server, but the password is not the last one verified online on this machine / the cached credential was not sealed on this machine"}),
                                );
                            }
                            None => {
                                acc.count("offline.accept.legitimate");
                                if model[m].ever_verified.len() >= 2 {
                                    acc.count("offline.accept.legitimate.after_password_change");
                                }
                            }
                        }
                    }
                } else {
                    // rejected / unknown / error: counted only
                    let class = match &r {
                        Ok(Some(false)) => "denied",
                        Ok(Some(true)) => "accepted",
                        Ok(None) => "unknown",
                        Err(_) => "error",
                    };
                    if server_answered {
                        acc.count(&format!("online.{class}"));
                    } else {
                        nontrivial = true;
                        acc.count(&format!("offline.{class}"));
                        let is_last = model[m].last_verified.last() == Some(pw);
                        let sealed_here = model[m].blob.as_ref().map(|b| b.0) == Some(m);
                        if is_last && model[m].blob.is_some() && !sealed_here {
                            acc.count("offline.reject.right_password_but_blob_sealed_on_other_machine");
                        }
                        if !is_last && model[m].ever_verified.contains(pw) && sealed_here {
                            acc.count("offline.reject.older_verified_password");
                        }
                        if !is_last && sealed_here && model[1 - m].last_verified.contains(pw) {
                            acc.count("offline.reject.password_verified_on_other_machine_only");
                        }
                        if is_last && sealed_here && !online_before {
                            // liveness, not claimed by the statement
                            acc.count("offline.expected_accept_got_reject_unjudged");
                            if acc.samples.len() < 6 {
                                let mut h = trace.clone();
                                h.push(rec.clone());
                                acc.sample(json!({"unjudged": "right cached password rejected offline", "history": h}));
                            }
                        }
                    }
                }
            }
        }
        trace.push(rec);
    }
    if nontrivial {
        acc.nontrivial(&serde_json::to_string(&trace).unwrap_or_default().replace(user, "U"));
        acc.count("histories.with_offline_attempt");
        if acc.samples.len() < 2 {
            acc.sample(json!({"sample_history": trace}));
        }
    }
    acc.count("histories");
    // leave both machines usable for the next history
    for m in ms.iter_mut() {
        if !m.stub_up || m.marked_offline {
            m.stub.set_up(true);
            m.stub_up = true;
            m.resolver.mark_next_check_now(SystemTime::now()).await;
            let _ = m.resolver.test_connection().await;
            m.marked_offline = false;
        }
    }
    idm.lock().unwrap().users.remove(user);
}

pub fn run(args: Args) {
    let mut run = Run::new(
        args.clone(),
        "exploration",
        "random per-user histories on two machines (own soft-TPM machine key + HMAC key each) sharing one identity-server stub: online logins (server-current / last-verified / other machine's / older / never-used / empty / near-miss passwords), server-side password changes, going offline (provider marked offline, or server unreachable + refresh), coming back, offline logins, cached tokens swapped and credential blobs copied between the two cache databases, cache invalidate/clear; non-trivial = the history contains a login decided without the identity server; distinct by the full operation/result trace",
    );
    run.assume("the identity server is an HTTP stub: password verification = string equality with the server-side password; account validity windows and server-side lockout are not modelled");
    run.assume("Resolver::pam_account_authenticate (the daemon's init+step sequence in one call) is the driver; the unix socket front end of the daemon is not exercised");
    run.assume("cache expiry uses the wall clock inside the resolver (60 s minimum); histories finish well inside it, and Resolver::invalidate is used to force the expired-cache path");
    let histories: u64 = args.tier.pick(208, 4_000);
    // replay: the witness is self-contained (inputs, conversation, result, explanation); show it, then
    // re-derive the verdict by running the same seed/tier it was found under
    if let Some(p) = &args.replay {
        if let Some(w) = kvcore::run::load_replay(p) {
            println!("replay witness: {w}");
        }
    }
    let seed = args.seed;
    run.parallel(args.workers, |w, n| {
        let mut acc = Acc::new();
        let rt = kvcore::srv::rt();
        let scratch = Scratch::new("c44");
        rt.block_on(async {
            let idm = Arc::new(Mutex::new(Idm::default()));
            let mut ms: Vec<Machine> = Vec::new();
            for i in 0..2 {
                match mk_machine(i, idm.clone(), &scratch).await {
                    Ok(m) => ms.push(m),
                    Err(e) => {
                        acc.inconclusive(&format!("machine setup failed: {e}"));
                        return;
                    }
                }
            }
            for m in ms.iter() {
                if !m.resolver.test_connection().await {
                    acc.inconclusive("provider could not be brought online against the stub");
                    return;
                }
            }
            let mut rng = Rng::new(kvcore::rng::mix(seed, w as u64, 44));
            let mine = histories / n as u64 + 1;
            for h in 0..mine {
                let user = format!("u{w}h{h}");
                let nops = rng.range(9, 18) as usize;
                history(&mut acc, &mut rng, &mut ms, &idm, &user, 20_000 + h as u32, nops).await;
            }
            let st = idm.lock().unwrap();
            acc.count_n("stub.whoami_requests", st.whoami);
            acc.count_n("stub.token_get_requests", st.token_get);
            acc.count_n("stub.verify_requests", st.log.len() as u64);
            drop(st);
            drop(ms);
        });
        drop(rt);
        drop(scratch);
        acc
    });
    let a = &run.acc;
    let mut missing = Vec::new();
    let mut need = |k: &str, why: &str| {
        if a.get(k) == 0 {
            missing.push(format!("{why} (counter {k} = 0)"));
        }
    };
    need("online.accept", "no online login ever succeeded");
    need("online.denied", "no online login was ever denied by the server");
    need("offline.accept.legitimate", "no offline login with the cached password was ever accepted (positive control)");
    need("offline.accept.legitimate.after_password_change", "no offline accept after the verified password had changed");
    need("offline.denied", "no offline login was ever denied");
    need("offline.reject.right_password_but_blob_sealed_on_other_machine", "a credential sealed by the other machine's key was never presented with its right password");
    need("offline.reject.older_verified_password", "an older verified password was never tried offline");
    need("offline.reject.password_verified_on_other_machine_only", "a password verified only on the other machine was never tried offline");
    need("op.swap.moved", "cached tokens were never swapped");
    need("op.server_pw_change", "server-side password never changed");
    need("op.stub_down_refresh", "server never became unreachable");
    need("op.mark_offline", "provider never marked offline");
    for m in missing {
        run.require(false, &m);
    }
    let min_nt = args.tier.pick(80, 1_500);
    let nt = run.acc.nontrivial_total();
    run.require(nt >= min_nt, &format!("only {nt} distinct histories with an offline decision (< {min_nt})"));
    run.finish();
}
