//! C43 PAM fails closed.
//!
//! The real request core of `pam_sparkle_common` (`sm_authenticate`, `acct_mgmt`, re-exported by the
//! `verif-hooks` feature) is run with a harness `PamHandler` against
//!   (a) a fake resolver daemon: the other end of a `UnixStream::pair()`, a thread that speaks the
//!       length-prefixed JSON protocol and plays a reply *script* (explicit success / denial / unknown /
//!       error / wrong reply kinds / garbage / bundled frames / next-step prompts / disconnects / silence);
//!   (b) no daemon at all (socket None) and a generated /etc/shadow parsed by the real parser.
//!
//! Oracle (the statement, one direction only - "only when"):
//!   PAM_SUCCESS => the daemon delivered an explicit `PamAuthenticateStepResponse{Success}` frame in this
//!                  conversation and no error / unknown-user / unexpected reply had been delivered before it,
//!              or  socket None and the account's shadow field is non-empty, not `!`/`*` prefixed, verifies one
//!                  of the credentials the handler handed out (python `crypt.crypt(pw, field) == field`, run in
//!                  /verif/pyref/c43_crypt.py) and the expiry field is unset or in the future.
//! Level: fault_enumeration - every reply script up to a bounded length over the reply alphabet is played,
//! plus random longer ones.

use kvcore::{Acc, Args, Rng, Run, Tier};
use pam_sparkle_common::constants::PamResultCode;
use pam_sparkle_common::module::PamResult;
use pam_sparkle_common::verif_hooks::{acct_mgmt, sm_authenticate, PamHandler, RequestOptions};
use pam_sparkle_common::ModuleOptions;
use serde_json::{json, Value};
use sparkle_unix_common::unix_passwd::{parse_etc_shadow, EtcShadow, EtcUser};
use sparkle_unix_common::unix_proto::{
    ClientResponse, DeviceAuthorizationResponse, NssGroup, NssUser, PamAuthResponse,
    PamServiceInfo, ProviderStatus,
};
use std::cell::RefCell;
use std::collections::VecDeque;
use std::io::{BufRead, BufReader, Read, Write};
use std::os::unix::net::UnixStream;
use std::process::{Child, ChildStdin, ChildStdout, Command, Stdio};
use std::sync::mpsc;
use std::sync::{Arc, Condvar, Mutex};
use std::time::{Duration, Instant};
use time::OffsetDateTime;

// ------------------------------------------------------------------------------------------------
// reply alphabet

#[derive(Clone, Copy, Debug, PartialEq, Eq, Hash, PartialOrd, Ord)]
enum Sym {
    // decisions
    Success,
    Denied,
    Unknown,
    Error,
    // next-step prompts
    Password,
    MfaCode,
    MfaPoll0,
    MfaPollWait,
    SetupPin,
    Pin,
    DeviceGrant,
    BigMfaCode,
    // well-formed replies of the wrong kind
    WOk,
    WSshKeys,
    WNssAccounts,
    WNssAccountSome,
    WNssGroups,
    WNssGroupNone,
    WPamStatusTrue,
    WProviderStatus,
    // malformed frames
    GBadJson,
    GUnknownVariant,
    GSuccessMissingSession,
    GBareSuccessString,
    GZeroLen,
    // two frames in one write (the second is unsolicited)
    BPasswordThenSuccess,
    BDeniedThenSuccess,
    // faults: the connection is dead afterwards, so these end a script
    FCloseBeforeRead,
    FCloseAfterRead,
    FPartialThenClose,
    FSilent,
    FPartialThenSilent,
    FHugeLenThenSilent,
}

use Sym::*;

const NONFAULT: &[Sym] = &[
    Success, Denied, Unknown, Error, Password, MfaCode, MfaPoll0, MfaPollWait, SetupPin, Pin, DeviceGrant,
    BigMfaCode, WOk, WSshKeys, WNssAccounts, WNssAccountSome, WNssGroups, WNssGroupNone, WPamStatusTrue,
    WProviderStatus, GBadJson, GUnknownVariant, GSuccessMissingSession, GBareSuccessString, GZeroLen,
    BPasswordThenSuccess, BDeniedThenSuccess,
];
const FAULTS: &[Sym] = &[
    FCloseBeforeRead, FCloseAfterRead, FPartialThenClose, FSilent, FPartialThenSilent, FHugeLenThenSilent,
];
const CONTINUES: &[Sym] = &[
    Password, MfaCode, MfaPoll0, MfaPollWait, SetupPin, Pin, DeviceGrant, BigMfaCode, BPasswordThenSuccess,
];

#[derive(Clone, Copy, Debug, PartialEq, Eq)]
enum Class {
    ExplicitSuccess,
    Continue,
    Denied,
    Unknown,
    Error,
    WrongKind,
    Garbage,
}

impl Sym {
    fn is_fault(self) -> bool {
        FAULTS.contains(&self)
    }
    /// does a client that follows the protocol keep talking after this reply?
    fn is_continue(self) -> bool {
        CONTINUES.contains(&self)
    }
    /// the client busy-waits (CPU) for its whole timeout on these
    fn is_spin(self) -> bool {
        matches!(self, FCloseAfterRead | FPartialThenClose)
    }
}

fn frame_of(resp: &ClientResponse) -> Vec<u8> {
    let body = serde_json::to_vec(resp).unwrap_or_default();
    frame_raw(&body)
}

fn frame_raw(body: &[u8]) -> Vec<u8> {
    let mut v = (body.len() as u32).to_be_bytes().to_vec();
    v.extend_from_slice(body);
    v
}

fn step(response: PamAuthResponse) -> Vec<u8> {
    frame_of(&ClientResponse::PamAuthenticateStepResponse {
        response,
        session_id: 7,
    })
}

/// The frames one non-fault symbol writes (in a single write), with their classes.
fn frames(sym: Sym) -> Vec<(Class, Vec<u8>)> {
    let one = |c: Class, b: Vec<u8>| vec![(c, b)];
    match sym {
        Success => one(Class::ExplicitSuccess, step(PamAuthResponse::Success)),
        Denied => one(Class::Denied, step(PamAuthResponse::Denied)),
        Unknown => one(Class::Unknown, step(PamAuthResponse::Unknown)),
        Error => one(
            Class::Error,
            frame_of(&ClientResponse::Error(kanidm_proto::internal::OperationError::InvalidState)),
        ),
        Password => one(Class::Continue, step(PamAuthResponse::Password)),
        MfaCode => one(Class::Continue, step(PamAuthResponse::MFACode { msg: "code".into() })),
        MfaPoll0 => one(
            Class::Continue,
            step(PamAuthResponse::MFAPoll { msg: "approve on your phone".into(), polling_interval: 0 }),
        ),
        MfaPollWait => one(Class::Continue, step(PamAuthResponse::MFAPollWait)),
        SetupPin => one(Class::Continue, step(PamAuthResponse::SetupPin { msg: "set a pin".into() })),
        Pin => one(Class::Continue, step(PamAuthResponse::Pin)),
        DeviceGrant => one(
            Class::Continue,
            step(PamAuthResponse::DeviceAuthorizationGrant {
                data: DeviceAuthorizationResponse {
                    device_code: "dc".into(),
                    user_code: "uc".into(),
                    verification_uri: "https://idm.example.com/dev".into(),
                    verification_uri_complete: None,
                    expires_in: 1,
                    interval: Some(1),
                    message: Some("go there".into()),
                },
            }),
        ),
        // oversize but well formed: forces the multi-read path of the client
        BigMfaCode => one(Class::Continue, step(PamAuthResponse::MFACode { msg: "m".repeat(150_001) })),
        WOk => one(Class::WrongKind, frame_of(&ClientResponse::Ok)),
        WSshKeys => one(Class::WrongKind, frame_of(&ClientResponse::SshKeys(vec!["ssh-ed25519 AAAA".into()]))),
        WNssAccounts => one(Class::WrongKind, frame_of(&ClientResponse::NssAccounts(vec![]))),
        WNssAccountSome => one(
            Class::WrongKind,
            frame_of(&ClientResponse::NssAccount(Some(NssUser {
                name: "alice".into(),
                uid: 1000,
                gid: 1000,
                gecos: "Alice".into(),
                homedir: "/home/alice".into(),
                shell: "/bin/sh".into(),
            }))),
        ),
        WNssGroups => one(
            Class::WrongKind,
            frame_of(&ClientResponse::NssGroups(vec![NssGroup { name: "g".into(), gid: 1, members: vec![] }])),
        ),
        WNssGroupNone => one(Class::WrongKind, frame_of(&ClientResponse::NssGroup(None))),
        WPamStatusTrue => one(Class::WrongKind, frame_of(&ClientResponse::PamStatus(Some(true)))),
        WProviderStatus => one(
            Class::WrongKind,
            frame_of(&ClientResponse::ProviderStatus(vec![ProviderStatus { name: "kanidm".into(), online: true }])),
        ),
        GBadJson => one(Class::Garbage, frame_raw(b"{\"PamAuthenticateStepResponse\":{\"response\":\"Succ")),
        GUnknownVariant => one(Class::Garbage, frame_raw(b"{\"PamAuthenticateSuccess\":{\"session_id\":7}}")),
        GSuccessMissingSession => {
            one(Class::Garbage, frame_raw(b"{\"PamAuthenticateStepResponse\":{\"response\":\"Success\"}}"))
        }
        GBareSuccessString => one(Class::Garbage, frame_raw(b"\"Success\"")),
        GZeroLen => one(Class::Garbage, vec![0, 0, 0, 0]),
        BPasswordThenSuccess => vec![
            (Class::Continue, step(PamAuthResponse::Password)),
            (Class::ExplicitSuccess, step(PamAuthResponse::Success)),
        ],
        BDeniedThenSuccess => vec![
            (Class::Denied, step(PamAuthResponse::Denied)),
            (Class::ExplicitSuccess, step(PamAuthResponse::Success)),
        ],
        _ => Vec::new(),
    }
}

// ------------------------------------------------------------------------------------------------
// handler <-> daemon synchronisation (cost only: makes "close after the last reply" reach the client
// as a failed write instead of a 2 s busy wait; no verdict depends on it)

#[derive(Default)]
struct Sync {
    st: Mutex<u8>, // 0 waiting for a request, 1 busy answering, 2 closed
    cv: Condvar,
}

impl Sync {
    fn set(&self, v: u8) {
        if let Ok(mut g) = self.st.lock() {
            *g = v;
        }
        self.cv.notify_all();
    }
    fn wait_not_busy(&self) {
        let Ok(mut g) = self.st.lock() else { return };
        let end = Instant::now() + Duration::from_millis(500);
        while *g == 1 {
            let now = Instant::now();
            if now >= end {
                break;
            }
            match self.cv.wait_timeout(g, end - now) {
                Ok((ng, _)) => g = ng,
                Err(_) => return,
            }
        }
    }
}

// ------------------------------------------------------------------------------------------------
// the PAM conversation side

#[derive(Clone, Copy, Debug, PartialEq, Eq)]
enum Tri {
    Value,
    Nothing,
    Fail,
}

#[derive(Clone, Debug)]
struct Input {
    account: String,
    account_fails: bool,
    service_info_fails: bool,
    /// what the stacked authtok / the prompts hand out
    authtok: Tri,
    authtok_value: String,
    password: Tri,
    password_value: String,
    pin: Tri,
    mfa: Tri,
    message_ok: bool,
    grant_ok: bool,
    pin_mismatches: u8,
}

impl Input {
    fn cooperative(account: &str, pw: &str) -> Self {
        Input {
            account: account.to_string(),
            account_fails: false,
            service_info_fails: false,
            authtok: Tri::Value,
            authtok_value: pw.to_string(),
            password: Tri::Value,
            password_value: pw.to_string(),
            pin: Tri::Value,
            mfa: Tri::Value,
            message_ok: true,
            grant_ok: true,
            pin_mismatches: 0,
        }
    }
    fn random(rng: &mut Rng, account: &str, pw: &str, other: &str) -> Self {
        let tri = |rng: &mut Rng| match rng.below(8) {
            0 => Tri::Nothing,
            1 => Tri::Fail,
            _ => Tri::Value,
        };
        Input {
            account: account.to_string(),
            account_fails: rng.chance(1, 40),
            service_info_fails: rng.chance(1, 40),
            authtok: tri(rng),
            authtok_value: if rng.chance(1, 3) { other.to_string() } else { pw.to_string() },
            password: tri(rng),
            password_value: if rng.chance(1, 3) { other.to_string() } else { pw.to_string() },
            pin: tri(rng),
            mfa: tri(rng),
            message_ok: !rng.chance(1, 10),
            grant_ok: !rng.chance(1, 10),
            pin_mismatches: rng.below(3) as u8,
        }
    }
}

#[derive(Default, Debug, Clone)]
struct HLog {
    /// every credential string handed to the module (password / authtok)
    supplied: Vec<String>,
    events: Vec<&'static str>,
}

struct Handler {
    inp: Input,
    sync: Option<Arc<Sync>>,
    log: RefCell<HLog>,
    pins_asked: RefCell<u32>,
}

impl Handler {
    fn ev(&self, e: &'static str) {
        if let Some(s) = &self.sync {
            s.wait_not_busy();
        }
        self.log.borrow_mut().events.push(e);
    }
}

impl PamHandler for Handler {
    fn account_id(&self) -> PamResult<String> {
        self.ev("account_id");
        if self.inp.account_fails {
            Err(PamResultCode::PAM_SYSTEM_ERR)
        } else {
            Ok(self.inp.account.clone())
        }
    }
    fn service_info(&self) -> PamResult<PamServiceInfo> {
        self.ev("service_info");
        if self.inp.service_info_fails {
            Err(PamResultCode::PAM_SERVICE_ERR)
        } else {
            Ok(PamServiceInfo { service: "sshd".into(), tty: Some("/dev/pts/0".into()), rhost: None })
        }
    }
    fn envlist(&self) -> PamResult<Vec<String>> {
        Ok(Vec::new())
    }
    fn set_env(&self, _value: &str) -> PamResult<()> {
        Ok(())
    }
    fn authtok(&self) -> PamResult<Option<String>> {
        self.ev("authtok");
        match self.inp.authtok {
            Tri::Value => {
                self.log.borrow_mut().supplied.push(self.inp.authtok_value.clone());
                Ok(Some(self.inp.authtok_value.clone()))
            }
            Tri::Nothing => Ok(None),
            Tri::Fail => Err(PamResultCode::PAM_AUTHTOK_ERR),
        }
    }
    fn message(&self, _prompt: &str) -> PamResult<()> {
        self.ev("message");
        if self.inp.message_ok {
            Ok(())
        } else {
            Err(PamResultCode::PAM_CONV_ERR)
        }
    }
    fn message_device_grant(&self, _data: &DeviceAuthorizationResponse) -> PamResult<()> {
        self.ev("message_device_grant");
        if self.inp.grant_ok {
            Ok(())
        } else {
            Err(PamResultCode::PAM_CONV_ERR)
        }
    }
    fn prompt_for_password(&self) -> PamResult<Option<String>> {
        self.ev("prompt_password");
        match self.inp.password {
            Tri::Value => {
                self.log.borrow_mut().supplied.push(self.inp.password_value.clone());
                Ok(Some(self.inp.password_value.clone()))
            }
            Tri::Nothing => Ok(None),
            Tri::Fail => Err(PamResultCode::PAM_CONV_ERR),
        }
    }
    fn prompt_for_pin(&self, msg: Option<&str>) -> PamResult<Option<String>> {
        self.ev("prompt_pin");
        match self.inp.pin {
            Tri::Value => {
                if msg.is_none() {
                    return Ok(Some("1234".into()));
                }
                // SetupPin asks twice per round; the first `pin_mismatches` rounds disagree
                let mut n = self.pins_asked.borrow_mut();
                let round = *n / 2;
                let second = *n % 2 == 1;
                *n += 1;
                if second && round < self.inp.pin_mismatches as u32 {
                    Ok(Some("9999".into()))
                } else {
                    Ok(Some("1234".into()))
                }
            }
            Tri::Nothing => Ok(None),
            Tri::Fail => Err(PamResultCode::PAM_CONV_ERR),
        }
    }
    fn prompt_for_mfacode(&self) -> PamResult<Option<String>> {
        self.ev("prompt_mfacode");
        match self.inp.mfa {
            Tri::Value => Ok(Some("123456".into())),
            Tri::Nothing => Ok(None),
            Tri::Fail => Err(PamResultCode::PAM_CONV_ERR),
        }
    }
}

// ------------------------------------------------------------------------------------------------
// the fake daemon

#[derive(Default, Debug, Clone)]
struct DaemonLog {
    /// per answered request: the symbol and the classes of the frames written (all in one write)
    delivered: Vec<(Sym, Vec<Class>)>,
    requests: Vec<String>,
    fault: Option<Sym>,
}

fn read_frame(s: &mut UnixStream) -> Option<Vec<u8>> {
    let mut len = [0u8; 4];
    s.read_exact(&mut len).ok()?;
    let n = u32::from_be_bytes(len) as usize;
    if n > 8 << 20 {
        return None;
    }
    let mut body = vec![0u8; n];
    s.read_exact(&mut body).ok()?;
    Some(body)
}

fn request_kind(body: &[u8]) -> String {
    // The request is only classified for the evidence (never judged): the outer enum tag and, for a
    // step, the tag of the inner request. Credentials are not kept.
    let v: Value = serde_json::from_slice(body).unwrap_or(Value::Null);
    match &v {
        Value::String(s) => s.clone(),
        Value::Object(m) => {
            let (k, inner) = m.iter().next().map(|(k, v)| (k.clone(), v.clone())).unwrap_or_default();
            if k == "PamAuthenticateStep" {
                let r = &inner["request"];
                let t = match r {
                    Value::String(s) => s.clone(),
                    Value::Object(o) => o.keys().next().cloned().unwrap_or_default(),
                    _ => "?".into(),
                };
                format!("Step:{t}")
            } else {
                k
            }
        }
        _ => "?".into(),
    }
}

fn wait_for_peer_gone(s: &mut UnixStream) {
    let mut b = [0u8; 256];
    let end = Instant::now() + Duration::from_secs(8);
    while Instant::now() < end {
        match s.read(&mut b) {
            Ok(0) => return,
            Ok(_) => continue,
            Err(e) if matches!(e.kind(), std::io::ErrorKind::WouldBlock | std::io::ErrorKind::TimedOut) => continue,
            Err(_) => return,
        }
    }
}

fn daemon(mut s: UnixStream, script: Vec<Sym>, sync: Arc<Sync>) -> DaemonLog {
    let _ = s.set_read_timeout(Some(Duration::from_secs(8)));
    let _ = s.set_write_timeout(Some(Duration::from_secs(5)));
    let mut log = DaemonLog::default();
    let n = script.len();
    for (i, sym) in script.into_iter().enumerate() {
        if sym == FCloseBeforeRead {
            log.fault = Some(sym);
            break;
        }
        let Some(body) = read_frame(&mut s) else { break };
        log.requests.push(request_kind(&body));
        sync.set(1);
        let half_success = {
            let f = step(PamAuthResponse::Success);
            f[..f.len() / 2].to_vec()
        };
        match sym {
            FCloseAfterRead => {
                log.fault = Some(sym);
                break;
            }
            FPartialThenClose => {
                let _ = s.write_all(&half_success);
                log.fault = Some(sym);
                break;
            }
            FSilent => {
                log.fault = Some(sym);
                sync.set(0);
                wait_for_peer_gone(&mut s);
                break;
            }
            FPartialThenSilent => {
                let _ = s.write_all(&half_success);
                log.fault = Some(sym);
                sync.set(0);
                wait_for_peer_gone(&mut s);
                break;
            }
            FHugeLenThenSilent => {
                let mut b = 0xffff_fff0u32.to_be_bytes().to_vec();
                b.extend_from_slice(b"{\"PamAuthenticateStepResponse\":{\"response\":\"Success\",\"session_id\":7}}");
                let _ = s.write_all(&b);
                log.fault = Some(sym);
                sync.set(0);
                wait_for_peer_gone(&mut s);
                break;
            }
            _ => {
                let fr = frames(sym);
                let mut bytes = Vec::new();
                for (_, b) in &fr {
                    bytes.extend_from_slice(b);
                }
                if s.write_all(&bytes).is_err() {
                    break;
                }
                log.delivered.push((sym, fr.iter().map(|(c, _)| *c).collect()));
            }
        }
        if i + 1 == n {
            break;
        }
        sync.set(0);
    }
    drop(s);
    sync.set(2);
    log
}

// ------------------------------------------------------------------------------------------------
// scenarios

#[derive(Clone, Copy, Debug, PartialEq, Eq)]
enum Entry {
    Authenticate,
    AcctMgmt,
}

#[derive(Clone, Debug)]
struct Scenario {
    entry: Entry,
    script: Vec<Sym>,
    /// for AcctMgmt with a daemon: the single reply (None = use script[0])
    acct_reply: Option<&'static str>,
    use_first_pass: bool,
    ignore_unknown_user: bool,
    input: Input,
    enumerated: bool,
}

#[derive(Debug, Clone)]
struct Outcome {
    code: String,
    success: bool,
    dlog: DaemonLog,
    hlog: HLog,
    panic: Option<String>,
    ms: u128,
}

fn shadow_for(account: &str, hash: &str) -> (Vec<EtcUser>, Vec<EtcShadow>) {
    // A local entry that WOULD accept the password: a daemon denial / error must not fall back to it.
    let users = vec![EtcUser {
        name: account.to_string(),
        password: "x".into(),
        uid: 1000,
        gid: 1000,
        gecos: "".into(),
        homedir: format!("/home/{account}"),
        shell: "/bin/sh".into(),
    }];
    let shadow = parse_etc_shadow(format!("{account}:{hash}:19000:0:99999:7:::\n").as_bytes()).unwrap_or_default();
    (users, shadow)
}

fn acct_frame(kind: &str) -> Vec<u8> {
    match kind {
        "status-true" => frame_of(&ClientResponse::PamStatus(Some(true))),
        "status-false" => frame_of(&ClientResponse::PamStatus(Some(false))),
        "status-none" => frame_of(&ClientResponse::PamStatus(None)),
        _ => Vec::new(),
    }
}

/// Runs on a fresh thread (the module caches its daemon client in a thread-local).
fn play(sc: &Scenario, local_hash: &str) -> Outcome {
    let start = Instant::now();
    let Ok((client_end, server_end)) = UnixStream::pair() else {
        return Outcome {
            code: "harness-socketpair-failed".into(),
            success: false,
            dlog: DaemonLog::default(),
            hlog: HLog::default(),
            panic: Some("socketpair".into()),
            ms: 0,
        };
    };
    let sync = Arc::new(Sync::default());
    let script = sc.script.clone();
    let acct = sc.acct_reply;
    let dsync = sync.clone();
    let dthread = std::thread::Builder::new().stack_size(256 << 10).spawn(move || {
        if let Some(kind) = acct {
            // account phase: one request, one reply
            let mut s = server_end;
            let _ = s.set_read_timeout(Some(Duration::from_secs(8)));
            let mut log = DaemonLog::default();
            if let Some(body) = read_frame(&mut s) {
                log.requests.push(request_kind(&body));
                let _ = s.write_all(&acct_frame(kind));
                log.delivered.push((WOk, vec![]));
            }
            log
        } else {
            daemon(server_end, script, dsync)
        }
    });
    let handler = Handler {
        inp: sc.input.clone(),
        sync: Some(sync),
        log: RefCell::new(HLog::default()),
        pins_asked: RefCell::new(0),
    };
    let opts = ModuleOptions {
        debug: false,
        use_first_pass: sc.use_first_pass,
        ignore_unknown_user: sc.ignore_unknown_user,
    };
    let (users, shadow) = shadow_for(&sc.input.account, local_hash);
    let req = RequestOptions::Verif { socket: Some(client_end), users, shadow };
    let now = OffsetDateTime::UNIX_EPOCH + time::Duration::days(19_500);
    let entry = sc.entry;
    let r = std::panic::catch_unwind(std::panic::AssertUnwindSafe(|| match entry {
        Entry::Authenticate => sm_authenticate(&handler, &opts, req, now),
        Entry::AcctMgmt => acct_mgmt(&handler, &opts, req, now),
    }));
    // the module's cached client lives in this thread's TLS; drop it so the daemon sees EOF
    pam_sparkle_common::verif_hooks::CLIENT.with(|c| {
        c.replace(None);
    });
    let mut harness_fault = None;
    let dlog = match dthread {
        Ok(h) => match h.join() {
            Ok(l) => l,
            Err(_) => {
                harness_fault = Some("harness: fake daemon thread panicked");
                DaemonLog::default()
            }
        },
        Err(_) => {
            harness_fault = Some("harness: fake daemon thread could not be spawned");
            DaemonLog::default()
        }
    };
    let hlog = handler.log.borrow().clone();
    if let Some(f) = harness_fault {
        return Outcome { code: "harness-fault".into(), success: false, dlog, hlog, panic: Some(f.into()), ms: 0 };
    }
    match r {
        Ok(code) => Outcome {
            success: code == PamResultCode::PAM_SUCCESS,
            code: format!("{code:?}"),
            dlog,
            hlog,
            panic: None,
            ms: start.elapsed().as_millis(),
        },
        Err(e) => {
            let msg = e
                .downcast_ref::<String>()
                .cloned()
                .or_else(|| e.downcast_ref::<&str>().map(|s| s.to_string()))
                .unwrap_or_else(|| "panic".into());
            Outcome { code: "panic".into(), success: false, dlog, hlog, panic: Some(msg), ms: start.elapsed().as_millis() }
        }
    }
}

fn class_name(c: Class) -> &'static str {
    match c {
        Class::ExplicitSuccess => "explicit-success",
        Class::Continue => "prompt",
        Class::Denied => "denied",
        Class::Unknown => "unknown-user",
        Class::Error => "error",
        Class::WrongKind => "wrong-kind",
        Class::Garbage => "garbage",
    }
}

fn witness(sc: &Scenario, out: &Outcome, why: &str) -> Value {
    json!({
        "why": why,
        "entry": format!("{:?}", sc.entry),
        "script": sc.script.iter().map(|s| format!("{s:?}")).collect::<Vec<_>>(),
        "acct_reply": sc.acct_reply,
        "use_first_pass": sc.use_first_pass,
        "ignore_unknown_user": sc.ignore_unknown_user,
        "handler": {"authtok": format!("{:?}", sc.input.authtok), "password": format!("{:?}", sc.input.password),
                    "pin": format!("{:?}", sc.input.pin), "mfa": format!("{:?}", sc.input.mfa),
                    "message_ok": sc.input.message_ok, "grant_ok": sc.input.grant_ok, "pin_mismatches": sc.input.pin_mismatches},
        "result": out.code,
        "frames_delivered": out.dlog.delivered.iter().map(|(s, c)| json!({"reply": format!("{s:?}"), "classes": c.iter().map(|c| class_name(*c)).collect::<Vec<_>>()})).collect::<Vec<_>>(),
        "fault": out.dlog.fault.map(|f| format!("{f:?}")),
        "requests_seen": out.dlog.requests,
        "handler_events": out.hlog.events,
    })
}

fn judge_daemon(acc: &mut Acc, sc: &Scenario, out: &Outcome) {
    acc.eval();
    acc.count(&format!("daemon.result.{}", out.code));
    if let Some(p) = &out.panic {
        if p.starts_with("harness") || p == "socketpair" {
            acc.inconclusive(p);
            return;
        }
        acc.count("panic_in_kanidm");
        if acc.samples.len() < 6 {
            acc.sample(json!({"panic": p, "scenario": witness(sc, out, "panic inside the module")}));
        }
        return;
    }
    for r in &out.dlog.requests {
        acc.count(&format!("daemon.request.{r}"));
    }
    for (s, _) in &out.dlog.delivered {
        if sc.acct_reply.is_none() {
            acc.count(&format!("daemon.delivered.{s:?}"));
        }
    }
    if let Some(f) = out.dlog.fault {
        acc.count(&format!("daemon.fault.{f:?}"));
    }
    let talked = !out.dlog.requests.is_empty() || out.dlog.fault.is_some();
    if talked {
        if sc.enumerated {
            acc.nontrivial_distinct();
        } else {
            acc.nontrivial(&format!("{:?}|{:?}|{}{}|{:?}", sc.entry, sc.script, sc.use_first_pass, sc.ignore_unknown_user, sc.input));
        }
    }
    if sc.entry == Entry::AcctMgmt {
        let kind = sc.acct_reply.unwrap_or("script");
        acc.count(&format!("acct.daemon.{kind}.{}", if out.success { "success" } else { "nonsuccess" }));
        if out.success && kind != "status-true" {
            let cause = if sc.acct_reply.is_some() {
                kind.to_string()
            } else {
                match out.dlog.delivered.first() {
                    Some((s, _)) => format!("{s:?}"),
                    None => out.dlog.fault.map(|f| format!("{f:?}")).unwrap_or_else(|| "nothing".into()),
                }
            };
            acc.violation(
                &format!("c43/acct-mgmt-success-after-{cause}"),
                witness(sc, out, "account phase succeeded although the daemon did not reply PamStatus(Some(true))"),
            );
        }
        return;
    }
    // ---- authentication
    let flat: Vec<(usize, usize, Class, Sym)> = out
        .dlog
        .delivered
        .iter()
        .enumerate()
        .flat_map(|(i, (s, cs))| cs.iter().enumerate().map(move |(j, c)| (i, j, *c, *s)))
        .collect();
    let first_success = flat.iter().position(|(_, _, c, _)| *c == Class::ExplicitSuccess);
    if out.success {
        acc.count("daemon.success");
        match first_success {
            None => {
                // cause class: what the module had last been told
                let cause = match (out.dlog.fault, out.dlog.delivered.last()) {
                    // a decision-class reply the module had already been sent wins over a later fault
                    (_, Some((s, cs))) if cs[0] != Class::Continue => format!("{}-{s:?}", class_name(cs[0])),
                    (Some(f), _) => format!("fault-{f:?}"),
                    (None, Some((s, cs))) => format!("{}-{s:?}", class_name(cs[0])),
                    (None, None) => "nothing-delivered".to_string(),
                };
                acc.violation(
                    &format!("c43/success-without-explicit-success/{cause}"),
                    witness(sc, out, "PAM_SUCCESS although the daemon never sent PamAuthenticateStepResponse{Success} (a local shadow entry that accepts the password exists, but the daemon was reachable)"),
                );
            }
            Some(p) => {
                // a solicited (first frame of a write) error / unknown user / unexpected reply before it
                let bad = flat[..p].iter().find(|(_, j, c, _)| {
                    *j == 0 && matches!(c, Class::Unknown | Class::Error | Class::WrongKind | Class::Garbage)
                });
                if let Some((_, _, c, s)) = bad {
                    acc.violation(
                        &format!("c43/success-after-{}-reply/{s:?}", class_name(*c)),
                        witness(sc, out, "PAM_SUCCESS although an error / unknown-user / unexpected reply had been delivered earlier in the conversation"),
                    );
                } else if flat[..p].iter().any(|(_, j, c, _)| *j == 0 && *c == Class::Denied) {
                    // "denial is final" is not literally part of this statement
                    acc.count("daemon.success_after_denial_unjudged");
                } else {
                    acc.count("daemon.success.after_explicit_success");
                    let depth = flat[..p].iter().filter(|(_, j, _, _)| *j == 0).count();
                    acc.count(&format!("daemon.success.depth{}", depth.min(6)));
                    if acc.samples.len() < 2 && depth >= 2 {
                        acc.sample(witness(sc, out, "sample: success after prompts"));
                    }
                }
            }
        }
    } else {
        acc.count("daemon.nonsuccess");
        if let Some((_, cs)) = out.dlog.delivered.last() {
            acc.count(&format!("daemon.nonsuccess.last_reply_class.{}", class_name(cs[0])));
        }
        // unjudged cross-check: explicit success was the first decision the module was sent
        if let Some(p) = first_success {
            if flat[p].1 == 0 && flat[..p].iter().all(|(_, _, c, _)| *c == Class::Continue) {
                acc.count("daemon.explicit_success_delivered_but_nonsuccess_unjudged");
            }
        }
        if acc.samples.len() < 4 && out.dlog.delivered.len() >= 2 && sc.enumerated {
            acc.sample(witness(sc, out, "sample: non-success"));
        }
    }
    acc.count_n("daemon.wall_ms", out.ms as u64);
    if out.ms >= 900 {
        let k = match (out.dlog.fault, out.dlog.delivered.last()) {
            (Some(f), _) => format!("{f:?}"),
            (None, Some((s, _))) => format!("{s:?}"),
            _ => "nothing".into(),
        };
        acc.count(&format!("daemon.slow_ge_900ms.after.{k}"));
    }
}

// ------------------------------------------------------------------------------------------------
// windowed execution on fresh threads

struct Window {
    inflight: VecDeque<(Scenario, mpsc::Receiver<Outcome>)>,
    cap: usize,
    local_hash: Arc<String>,
}

impl Window {
    fn submit(&mut self, acc: &mut Acc, sc: Scenario) {
        while self.inflight.len() >= self.cap {
            self.reap_one(acc);
        }
        let (tx, rx) = mpsc::channel();
        let sc2 = sc.clone();
        let lh = self.local_hash.clone();
        let spawned = std::thread::Builder::new().stack_size(512 << 10).spawn(move || {
            let out = play(&sc2, &lh);
            let _ = tx.send(out);
        });
        if spawned.is_err() {
            acc.inconclusive("could not spawn a scenario thread");
            return;
        }
        self.inflight.push_back((sc, rx));
    }
    fn reap_one(&mut self, acc: &mut Acc) {
        if let Some((sc, rx)) = self.inflight.pop_front() {
            match rx.recv_timeout(Duration::from_secs(600)) {
                Ok(out) => judge_daemon(acc, &sc, &out),
                Err(_) => {
                    acc.count("daemon.scenario_hung_or_lost");
                    acc.inconclusive(&format!("a scenario did not finish within 600 s: {:?}", sc.script));
                }
            }
        }
    }
    fn drain(&mut self, acc: &mut Acc) {
        while !self.inflight.is_empty() {
            self.reap_one(acc);
        }
    }
}

/// All scripts: every sequence over the non-fault alphabet of length 1..=l, and every such sequence of
/// length 0..l followed by one fault symbol.
fn enumerate_scripts(l: usize) -> Vec<Vec<Sym>> {
    let mut out = Vec::new();
    let mut layer: Vec<Vec<Sym>> = vec![vec![]];
    for depth in 0..l {
        let mut next = Vec::new();
        for p in &layer {
            for f in FAULTS {
                let mut s = p.clone();
                s.push(*f);
                out.push(s);
            }
            for a in NONFAULT {
                let mut s = p.clone();
                s.push(*a);
                next.push(s);
            }
        }
        out.extend(next.iter().cloned());
        layer = next;
        let _ = depth;
    }
    out
}

/// How long a protocol-following client would sleep/spin on this script (scheduling only).
fn cost_class(script: &[Sym]) -> (bool, bool) {
    // (spins, sleeps)
    let mut polled = false;
    for s in script {
        if s.is_fault() {
            return (s.is_spin(), !s.is_spin() && *s != FCloseBeforeRead);
        }
        if *s == MfaPoll0 {
            polled = true;
        }
        if *s == MfaPollWait && !polled {
            return (false, true);
        }
        if !s.is_continue() {
            return (false, false);
        }
    }
    (false, false)
}

// ------------------------------------------------------------------------------------------------
// python reference

struct PyRef {
    child: Child,
    stdin: ChildStdin,
    stdout: BufReader<ChildStdout>,
}

impl PyRef {
    fn start() -> Option<PyRef> {
        let script = kvcore::run::verif_root().join("pyref").join("c43_crypt.py");
        let mut child = Command::new("python3")
            .arg("-W")
            .arg("ignore")
            .arg(script)
            .stdin(Stdio::piped())
            .stdout(Stdio::piped())
            .stderr(Stdio::null())
            .spawn()
            .ok()?;
        let stdin = child.stdin.take()?;
        let stdout = BufReader::new(child.stdout.take()?);
        Some(PyRef { child, stdin, stdout })
    }
    fn ask(&mut self, v: Value) -> Option<Value> {
        let mut line = serde_json::to_string(&v).ok()?;
        line.push('\n');
        self.stdin.write_all(line.as_bytes()).ok()?;
        self.stdin.flush().ok()?;
        let mut out = String::new();
        self.stdout.read_line(&mut out).ok()?;
        serde_json::from_str(&out).ok()
    }
    fn hash(&mut self, pw: &str, setting: &str) -> Option<String> {
        self.ask(json!({"op": "hash", "pw": pw, "setting": setting}))?
            .get("hash")?
            .as_str()
            .map(|s| s.to_string())
    }
    /// (crypt(pw, field) == field, crypt(pw, field))
    fn verify(&mut self, pw: &str, hash: &str) -> Option<(bool, Option<String>)> {
        let v = self.ask(json!({"op": "verify", "pw": pw, "hash": hash}))?;
        Some((v.get("ok")?.as_bool()?, v.get("out").and_then(|o| o.as_str()).map(|s| s.to_string())))
    }
}

impl Drop for PyRef {
    fn drop(&mut self) {
        let _ = self.child.kill();
        let _ = self.child.wait();
    }
}

// ------------------------------------------------------------------------------------------------
// fallback (no daemon) cases

#[derive(Clone, Debug)]
struct Hashed {
    pw: String,
    hash: String,
    scheme: &'static str,
    supported: bool,
}

const SALT_CHARS: &[u8] = b"./0123456789ABCDEFGHIJKLMNOPQRSTUVWXYZabcdefghijklmnopqrstuvwxyz";

fn salt(rng: &mut Rng, n: usize) -> String {
    (0..n).map(|_| *rng.pick(SALT_CHARS) as char).collect()
}

fn passwords(rng: &mut Rng) -> Vec<String> {
    let mut v = vec![
        "correct horse".to_string(),
        "a".to_string(),
        "pässwörd-ünïcode".to_string(),
        " leading and trailing ".to_string(),
        "x".repeat(100),
        "with:colon$and!bang*".to_string(),
    ];
    for _ in 0..4 {
        let n = rng.range(1, 20) as usize;
        v.push((0..n).map(|_| (b'!' + rng.below(90) as u8) as char).collect());
    }
    v
}

fn build_corpus(rng: &mut Rng, py: &mut PyRef, yes: usize) -> Vec<Hashed> {
    let pws = passwords(rng);
    let mut out = Vec::new();
    let mut add = |py: &mut PyRef, pw: &str, setting: String, scheme: &'static str, supported: bool| {
        if let Some(h) = py.hash(pw, &setting) {
            out.push(Hashed { pw: pw.to_string(), hash: h, scheme, supported });
        }
    };
    for pw in &pws {
        let sl = rng.range(1, 16) as usize;
        let s = salt(rng, sl);
        add(py, pw, format!("$6${s}$"), "sha512", true);
        let s = salt(rng, 16);
        add(py, pw, format!("$6$rounds={}${s}$", rng.range(1000, 8000)), "sha512-rounds", true);
        let sl = rng.range(1, 16) as usize;
        let s = salt(rng, sl);
        add(py, pw, format!("$5${s}$"), "sha256", true);
        let s = salt(rng, 8);
        add(py, pw, format!("$5$rounds={}${s}$", rng.range(1000, 8000)), "sha256-rounds", true);
        let s = salt(rng, 8);
        add(py, pw, format!("$1${s}$"), "md5", false);
        let s = salt(rng, 2);
        add(py, pw, s, "des", false);
        let s = salt(rng, 22);
        add(py, pw, format!("$2b$04${s}"), "bcrypt", false);
    }
    // the empty password hashed properly: a legitimate (if unwise) shadow entry
    let s = salt(rng, 8);
    add(py, "", format!("$6${s}$"), "sha512", true);
    for pw in pws.iter().take(yes) {
        let sl = *rng.pick(&[8usize, 16, 24]);
        let s = salt(rng, sl);
        add(py, pw, format!("$y$j9T${s}$"), "yescrypt", true);
    }
    out
}

#[derive(Clone, Debug)]
struct FbCase {
    account: String,
    in_passwd: bool,
    /// the account's shadow password field (None: no shadow line)
    field: Option<String>,
    field_kind: &'static str,
    scheme: &'static str,
    expire_days: Option<i64>,
    now_secs: i64,
    shadow_text: String,
    use_first_pass: bool,
    ignore_unknown_user: bool,
    input: Input,
    /// by construction: a credential that the hash was made from will be handed out
    right_pw: bool,
    entry: Entry,
}

fn mutate_hash(rng: &mut Rng, h: &str) -> (String, &'static str) {
    let last_dollar = h.rfind('$').unwrap_or(0);
    match rng.below(5) {
        0 => {
            // flip one character of the digest
            let mut b: Vec<char> = h.chars().collect();
            if b.len() > last_dollar + 2 {
                let i = last_dollar + 1 + rng.usize(b.len() - last_dollar - 1);
                b[i] = if b[i] == 'A' { 'B' } else { 'A' };
            }
            (b.into_iter().collect(), "corrupt-digest")
        }
        1 => (h[..h.len().saturating_sub(rng.range(1, 6) as usize)].to_string(), "truncated"),
        2 => (format!("{h}A"), "trailing-char"),
        3 => {
            // another salt, same digest
            let mut b: Vec<char> = h.chars().collect();
            if last_dollar > 4 {
                let i = last_dollar - 1;
                b[i] = if b[i] == 'z' { 'y' } else { 'z' };
            }
            (b.into_iter().collect(), "corrupt-salt")
        }
        _ => (h[..last_dollar + 1].to_string(), "digest-missing"),
    }
}

fn gen_fallback(rng: &mut Rng, corpus: &[Hashed]) -> FbCase {
    let account = rng.pick(&["alice", "root", "bob", "svc-backup"]).to_string();
    // scheme first (so the slow and the unsupported schemes get a fixed share), then an entry of it
    let scheme = *rng.pick(&[
        "sha512", "sha512", "sha512", "sha512-rounds", "sha512-rounds", "sha256", "sha256", "sha256-rounds", "yescrypt",
        "yescrypt", "md5", "des", "bcrypt",
    ]);
    let of_scheme: Vec<&Hashed> = corpus.iter().filter(|h| h.scheme == scheme).collect();
    let h = if of_scheme.is_empty() { rng.pick(corpus).clone() } else { (*rng.pick(&of_scheme)).clone() };
    let other = rng.pick(corpus).clone();
    let (field, field_kind): (Option<String>, &'static str) = match rng.weighted(&[30, 10, 8, 8, 5, 5, 4, 4, 4, 4, 10, 4]) {
        0 => (Some(h.hash.clone()), "hash"),
        1 => (Some(format!("!{}", h.hash)), "locked-bang"),
        2 => (Some(format!("*{}", h.hash)), "locked-star"),
        3 => (Some(format!("!!{}", h.hash)), "locked-bangbang"),
        4 => (Some(String::new()), "empty"),
        5 => (Some("!".into()), "bang-only"),
        6 => (Some("*".into()), "star-only"),
        7 => (Some("x".into()), "x"),
        8 => (Some("*LK*".into()), "lk"),
        9 => (None, "no-shadow-line"),
        10 => {
            let (m, k) = mutate_hash(rng, &h.hash);
            (Some(m), k)
        }
        _ => (Some(h.pw.clone().replace(':', "")), "cleartext-in-field"),
    };
    let now_days: i64 = rng.range(19_000, 21_000) as i64;
    let now_secs = now_days * 86_400 + *rng.pick(&[0i64, 1, 43_200, 86_399]);
    let expire_days = match rng.below(10) {
        0 => Some(now_days - rng.range(1, 400) as i64),
        1 => Some(now_days - 1),
        2 => Some(now_days),
        3 => Some(now_days + 1),
        4 => Some(now_days + rng.range(2, 4000) as i64),
        _ => None,
    };
    let in_passwd = !rng.chance(1, 12);
    // other lines: accounts whose hashes accept the same password must not leak into this account
    let mut lines: Vec<String> = Vec::new();
    let others = ["daemon", "carol", "alice2", "roott"];
    for o in others.iter().take(rng.usize(4)) {
        lines.push(format!("{o}:{}:19000:0:99999:7:::", h.hash));
    }
    if let Some(f) = &field {
        let lastchg = rng.pick(&["19000", "0", ""]).to_string();
        let maxage = rng.pick(&["99999", "", "1"]).to_string();
        let inactive = rng.pick(&["", "7", "0"]).to_string();
        let exp = expire_days.map(|d| d.to_string()).unwrap_or_default();
        lines.push(format!("{account}:{f}:{lastchg}:0:{maxage}:7:{inactive}:{exp}:"));
    }
    rng.shuffle(&mut lines);
    let mut shadow_text = String::new();
    if rng.chance(1, 5) {
        shadow_text.push_str("# managed by the harness\n");
    }
    for l in &lines {
        shadow_text.push_str(l);
        shadow_text.push('\n');
    }
    let wrong = if other.pw != h.pw { other.pw.clone() } else { format!("{}x", h.pw) };
    let mut input = if rng.chance(2, 3) {
        Input::cooperative(&account, &h.pw)
    } else {
        Input::random(rng, &account, &h.pw, &wrong)
    };
    // wrong / empty / near-miss passwords
    match rng.below(10) {
        0 | 1 => {
            input.password_value = wrong.clone();
            input.authtok_value = wrong.clone();
        }
        2 => {
            input.password_value = String::new();
            input.authtok_value = String::new();
        }
        3 => {
            input.password_value = format!("{} ", h.pw);
            input.authtok_value = h.pw.to_uppercase();
        }
        _ => {}
    }
    let use_first_pass = rng.bool();
    let right_pw = !input.account_fails
        && if use_first_pass && input.authtok == Tri::Value {
            input.authtok_value == h.pw
        } else if use_first_pass && input.authtok == Tri::Fail {
            false
        } else {
            input.password == Tri::Value && input.password_value == h.pw
        };
    FbCase {
        account,
        in_passwd,
        field,
        field_kind,
        scheme: h.scheme,
        expire_days,
        now_secs,
        shadow_text,
        use_first_pass,
        ignore_unknown_user: rng.chance(1, 3),
        input,
        right_pw: right_pw && h.supported,
        entry: if rng.chance(1, 8) { Entry::AcctMgmt } else { Entry::Authenticate },
    }
}

fn fb_witness(c: &FbCase, code: &str, supplied: &[String], why: &str) -> Value {
    json!({
        "why": why, "entry": format!("{:?}", c.entry), "account": c.account, "account_in_passwd": c.in_passwd,
        "shadow_file": c.shadow_text, "account_shadow_field": c.field, "field_kind": c.field_kind, "scheme": c.scheme,
        "expire_days": c.expire_days, "now_secs": c.now_secs, "now_days": c.now_secs / 86_400,
        "use_first_pass": c.use_first_pass, "ignore_unknown_user": c.ignore_unknown_user,
        "credentials_handed_out": supplied, "result": code,
    })
}

fn run_fallback(acc: &mut Acc, py: &mut PyRef, c: &FbCase) {
    let shadow = match parse_etc_shadow(c.shadow_text.as_bytes()) {
        Ok(s) => s,
        Err(_) => {
            acc.count("fallback.shadow_parse_refused");
            return;
        }
    };
    let users: Vec<EtcUser> = ["root", "daemon", "carol"]
        .iter()
        .map(|n| n.to_string())
        .chain(c.in_passwd.then(|| c.account.clone()))
        .enumerate()
        .map(|(i, name)| EtcUser {
            homedir: format!("/home/{name}"),
            name,
            password: "x".into(),
            uid: 1000 + i as u32,
            gid: 1000 + i as u32,
            gecos: String::new(),
            shell: "/bin/sh".into(),
        })
        .collect();
    let handler = Handler { inp: c.input.clone(), sync: None, log: RefCell::new(HLog::default()), pins_asked: RefCell::new(0) };
    let opts = ModuleOptions { debug: false, use_first_pass: c.use_first_pass, ignore_unknown_user: c.ignore_unknown_user };
    let now = OffsetDateTime::UNIX_EPOCH + time::Duration::seconds(c.now_secs);
    let req = RequestOptions::Verif { socket: None, users, shadow };
    let entry = c.entry;
    let r = std::panic::catch_unwind(std::panic::AssertUnwindSafe(|| match entry {
        Entry::Authenticate => sm_authenticate(&handler, &opts, req, now),
        Entry::AcctMgmt => acct_mgmt(&handler, &opts, req, now),
    }));
    acc.eval();
    let supplied = handler.log.borrow().supplied.clone();
    let code = match r {
        Ok(c) => c,
        Err(_) => {
            acc.count("panic_in_kanidm");
            if acc.samples.len() < 6 {
                acc.sample(fb_witness(c, "panic", &supplied, "panic inside the module"));
            }
            return;
        }
    };
    let success = code == PamResultCode::PAM_SUCCESS;
    let code_s = format!("{code:?}");
    acc.count(&format!("fallback.result.{code_s}"));
    acc.count(&format!("fallback.field.{}", c.field_kind));
    let expired = c.expire_days.map(|d| c.now_secs >= d * 86_400).unwrap_or(false);
    if c.expire_days.is_some() {
        acc.count(if expired { "fallback.expiry.past" } else { "fallback.expiry.future" });
        if c.expire_days == Some(c.now_secs / 86_400) {
            acc.count("fallback.expiry.today");
        }
    }
    if c.field.is_some() {
        acc.nontrivial(&format!("{:?}|{}|{:?}|{}|{:?}|{}|{:?}", c.entry, c.shadow_text, c.expire_days, c.now_secs, supplied, c.use_first_pass, c.input.authtok));
    }
    if c.entry == Entry::AcctMgmt {
        acc.count(if success { "acct.fallback.success" } else { "acct.fallback.nonsuccess" });
        if success {
            if c.field.is_none() {
                acc.violation("c43/acct-mgmt-fallback-success-without-shadow-entry", fb_witness(c, &code_s, &supplied, "account phase succeeded offline without a shadow entry"));
            } else if expired {
                acc.violation("c43/acct-mgmt-fallback-success-for-expired-account", fb_witness(c, &code_s, &supplied, "account phase succeeded offline for an expired account"));
            }
        }
        return;
    }
    if !success {
        acc.count("fallback.nonsuccess");
        if c.right_pw && c.field_kind == "hash" && !expired && c.in_passwd {
            // not claimed by the statement (liveness); visible in the evidence
            acc.count("fallback.expected_ok_got_nonsuccess_unjudged");
            if acc.samples.len() < 6 {
                acc.sample(fb_witness(c, &code_s, &supplied, "unjudged: right password, supported hash, not expired, yet non-success"));
            }
        }
        return;
    }
    acc.count("fallback.success");
    acc.count(&format!("fallback.success.scheme.{}", c.scheme));
    if c.expire_days.is_some() {
        acc.count("fallback.success.with_future_expiry");
    }
    let Some(field) = &c.field else {
        acc.violation("c43/fallback-success-without-shadow-entry", fb_witness(c, &code_s, &supplied, "PAM_SUCCESS although the account has no shadow line"));
        return;
    };
    if field.is_empty() {
        acc.violation("c43/fallback-success-with-empty-password-field", fb_witness(c, &code_s, &supplied, "PAM_SUCCESS with an empty shadow password field"));
        return;
    }
    if field.starts_with('!') || field.starts_with('*') {
        acc.violation("c43/fallback-success-with-locked-password-field", fb_witness(c, &code_s, &supplied, "PAM_SUCCESS with a locked (!/*) shadow password field"));
        return;
    }
    if expired {
        acc.violation("c43/fallback-success-for-expired-account", fb_witness(c, &code_s, &supplied, "PAM_SUCCESS although now >= expiry date"));
        return;
    }
    // independent verification of every credential the handler handed out
    let mut verified = false;
    let mut digest_matches_but_trailing_garbage = false;
    let mut truncated_digest_matches_as_far_as_it_goes = false;
    for cred in &supplied {
        match py.verify(cred, field) {
            Some((true, _)) => verified = true,
            Some((false, out)) => {
                // crypt(3) recomputed a complete hash `o` from the field's own setting.
                if let Some(o) = out {
                    let complete = o.len() > 20 && !o.starts_with('*');
                    // the field is that hash plus extra characters: the password matches the embedded digest
                    if complete && field.len() > o.len() && field.starts_with(&o) {
                        digest_matches_but_trailing_garbage = true;
                    }
                    // the field is a proper prefix of that hash that ends inside the digest: the password
                    // matches the (shortened) digest as far as the field goes
                    let digest_start = o.rfind('$').map(|i| i + 1).unwrap_or(usize::MAX);
                    if complete && o.len() > field.len() && o.starts_with(field.as_str()) && field.len() > digest_start {
                        truncated_digest_matches_as_far_as_it_goes = true;
                    }
                }
            }
            None => {
                acc.inconclusive("python crypt reference did not answer");
                return;
            }
        }
    }
    if !verified && digest_matches_but_trailing_garbage {
        // Whether a field with characters appended to a complete, matching digest "verifies the password"
        // is not settled by the statement (crypt(3)/pam_unix compare the whole string and say no; the
        // password itself is the right one). Counted, not judged.
        acc.count("fallback.success.trailing_chars_after_matching_digest_unjudged");
        acc.count(&format!("fallback.success.trailing_chars_after_matching_digest_unjudged.{}", c.scheme));
        if acc.get("fallback.success.trailing_chars_after_matching_digest_unjudged") <= 1 {
            acc.sample(fb_witness(c, &code_s, &supplied, "unjudged: accepted although the shadow field has extra characters after a complete matching digest (crypt(3) string comparison would reject)"));
        }
    } else if !verified && truncated_digest_matches_as_far_as_it_goes {
        // Same class: a malformed field (digest cut short), the handed-out password is the one the digest
        // was made from. crypt(3) rejects; whether the statement's "verifies" covers it is unsettled.
        acc.count("fallback.success.truncated_digest_matching_prefix_unjudged");
        acc.count(&format!("fallback.success.truncated_digest_matching_prefix_unjudged.{}", c.scheme));
        if acc.get("fallback.success.truncated_digest_matching_prefix_unjudged") <= 1 {
            acc.sample(fb_witness(c, &code_s, &supplied, "unjudged: accepted although the digest in the shadow field is cut short; the password matches the remaining prefix (crypt(3) string comparison would reject)"));
        }
    } else if !verified {
        let sig = format!("c43/fallback-success-password-not-verified-by-crypt/{}-{}", c.scheme, c.field_kind);
        acc.violation(&sig, fb_witness(c, &code_s, &supplied, "PAM_SUCCESS but crypt(3) does not verify any handed-out credential against the shadow field"));
    } else {
        acc.count("fallback.success.verified_by_crypt");
        if acc.samples.len() < 6 && acc.get("fallback.success") % 50 == 1 {
            acc.sample(fb_witness(c, &code_s, &supplied, "sample: offline success"));
        }
    }
}

// ------------------------------------------------------------------------------------------------

fn variants(rng: &mut Rng, account: &str, pw: &str, full: bool, quick: bool) -> Vec<(bool, bool, Input)> {
    let mut v = Vec::new();
    if full {
        for ufp in [false, true] {
            for iuu in [false, true] {
                // quick tier: the two diagonal option combinations only
                if quick && ufp != iuu {
                    continue;
                }
                v.push((ufp, iuu, Input::cooperative(account, pw)));
            }
        }
        v.push((rng.bool(), rng.bool(), Input::random(rng, account, pw, "not the password")));
    } else {
        v.push((rng.bool(), rng.bool(), Input::cooperative(account, pw)));
    }
    v
}

pub fn run(args: Args) {
    let depth = args.tier.pick(2usize, 3usize);
    let mut run = Run::new(
        args.clone(),
        "fault_enumeration",
        "daemon part: every reply script of length <= L (quick 2, thorough 3) over a 27-symbol reply alphabet (decisions, 8 prompts, 8 wrong reply kinds, 5 malformed frames, 2 bundled writes), each also cut short by each of 6 connection faults, played under 4 (quick: 2) use_first_pass x ignore_unknown_user combinations with a cooperative conversation + 1 random conversation, plus random longer scripts and account-phase replies; fallback part: random shadow files (supported / unsupported / locked / empty / corrupted fields, expiry around now, missing lines) x random user input; non-trivial = the module talked to the daemon (daemon part) or the account has a shadow line (fallback part); enumerated scripts are distinct by construction, random cases by full description",
    );
    run.assume("RequestOptions::Verif{socket: Some(..)} stands for a reachable daemon, socket: None for an unreachable one (the production connect-or-fallback decision in RequestOptions::Main is not exercised)");
    run.assume("python3 crypt (system libxcrypt) is the reference for 'the hash verifies the password'");
    run.assume("the C entry points in pam/mod.rs (argument parsing, PamHandle conversation glue) are not exercised");
    // replay: the witness is self-contained (inputs, conversation, result, explanation); show it, then
    // re-derive the verdict by running the same seed/tier it was found under
    if let Some(p) = &args.replay {
        if let Some(w) = kvcore::run::load_replay(p) {
            println!("replay witness: {w}");
        }
    }
    let seed = args.seed;
    let tier = args.tier;

    // a local shadow hash that accepts the cooperative password, used in all daemon scenarios
    let Some(mut py0) = PyRef::start() else {
        run.require(false, "python3 reference helper could not be started");
        run.finish();
    };
    let coop_pw = "correct horse";
    let Some(local_hash) = py0.hash(coop_pw, "$6$rounds=1000$harnesssalt$") else {
        run.require(false, "python3 crypt reference produced no hash");
        run.finish();
    };
    drop(py0);
    let local_hash = Arc::new(local_hash);

    // ---- daemon part: exhaustive scripts
    let scripts = enumerate_scripts(depth);
    let total_scripts = scripts.len();
    run.extra("enumerated_scripts", json!(total_scripts));
    run.extra("enumeration_depth", json!(depth));
    run.extra("alphabet", json!({"non_fault": NONFAULT.iter().map(|s| format!("{s:?}")).collect::<Vec<_>>(), "faults": FAULTS.iter().map(|s| format!("{s:?}")).collect::<Vec<_>>()}));
    let scripts = &scripts;
    let lh = &local_hash;
    let random_scripts: u64 = tier.pick(2_000, 40_000);
    let acct_cases: u64 = tier.pick(600, 6_000);
    run.parallel(args.workers, |w, n| {
        let mut acc = Acc::new();
        let mut rng = Rng::new(kvcore::rng::mix(seed, w as u64, 43));
        let mut win = Window { inflight: VecDeque::new(), cap: 40, local_hash: lh.clone() };
        let mut idx = w;
        while idx < scripts.len() {
            let script = &scripts[idx];
            let (spins, _sleeps) = cost_class(script);
            // scripts on which the client busy-waits for its whole timeout get one conversation, the rest five
            for (ufp, iuu, input) in variants(&mut rng, "alice", coop_pw, !spins, tier == Tier::Quick) {
                win.submit(
                    &mut acc,
                    Scenario { entry: Entry::Authenticate, script: script.clone(), acct_reply: None, use_first_pass: ufp, ignore_unknown_user: iuu, input, enumerated: true },
                );
            }
            acc.count("daemon.scripts_enumerated");
            idx += n;
        }
        // random longer scripts: mostly prompts, then anything
        for _ in 0..(random_scripts / n as u64 + 1) {
            let len = rng.range(3, 9) as usize;
            let mut script = Vec::new();
            for i in 0..len {
                let s = if i + 1 < len && rng.chance(4, 5) {
                    *rng.pick(CONTINUES)
                } else if rng.chance(1, 12) {
                    // spinning faults are expensive: keep them rare here (they are enumerated above)
                    *rng.pick(&[FCloseBeforeRead, FSilent, FPartialThenSilent, FHugeLenThenSilent])
                } else {
                    *rng.pick(NONFAULT)
                };
                script.push(s);
                if s.is_fault() {
                    break;
                }
            }
            // at most one un-polled MFAPollWait (each costs the client a 1 s sleep)
            let mut polled = false;
            let mut waits = 0;
            script.retain(|s| {
                if *s == MfaPoll0 {
                    polled = true;
                }
                if *s == MfaPollWait && !polled {
                    waits += 1;
                    return waits <= 1;
                }
                true
            });
            let input = if rng.chance(1, 2) { Input::cooperative("alice", coop_pw) } else { Input::random(&mut rng, "alice", coop_pw, "nope") };
            win.submit(
                &mut acc,
                Scenario { entry: Entry::Authenticate, script, acct_reply: None, use_first_pass: rng.bool(), ignore_unknown_user: rng.bool(), input, enumerated: false },
            );
            acc.count("daemon.scripts_random");
        }
        // account phase against the daemon: explicit status replies and every other single reply
        for _ in 0..(acct_cases / n as u64 + 1) {
            let (script, acct_reply): (Vec<Sym>, Option<&'static str>) = match rng.below(8) {
                0 | 1 => (vec![], Some("status-true")),
                2 => (vec![], Some("status-false")),
                3 => (vec![], Some("status-none")),
                _ => {
                    let s = if rng.chance(1, 6) { *rng.pick(&[FCloseBeforeRead, FSilent]) } else { *rng.pick(NONFAULT) };
                    (vec![s], None)
                }
            };
            if script.first() == Some(&WPamStatusTrue) {
                continue; // that IS the explicit account-phase success
            }
            win.submit(
                &mut acc,
                Scenario { entry: Entry::AcctMgmt, script, acct_reply, use_first_pass: false, ignore_unknown_user: rng.bool(), input: Input::cooperative("alice", coop_pw), enumerated: false },
            );
        }
        win.drain(&mut acc);
        acc
    });

    run.extra("daemon_part_wall_s", json!(run.elapsed_s()));
    // ---- fallback part
    let fb_cases: u64 = tier.pick(5_000, 80_000);
    run.parallel(args.workers, |w, n| {
        let mut acc = Acc::new();
        let mut rng = Rng::new(kvcore::rng::mix(seed, w as u64, 4343));
        let Some(mut py) = PyRef::start() else {
            acc.inconclusive("python3 reference helper could not be started");
            return acc;
        };
        let corpus = build_corpus(&mut rng, &mut py, if tier == Tier::Quick { 1 } else { 3 });
        acc.count_n("fallback.corpus_hashes", corpus.len() as u64);
        if corpus.len() < 20 {
            acc.inconclusive("python crypt reference produced too few hashes");
            return acc;
        }
        for _ in 0..(fb_cases / n as u64 + 1) {
            let c = gen_fallback(&mut rng, &corpus);
            run_fallback(&mut acc, &mut py, &c);
        }
        acc
    });

    run.extra("total_wall_s", json!(run.elapsed_s()));
    let a = &run.acc;
    let mut missing: Vec<String> = Vec::new();
    let mut need = |k: &str, why: &str| {
        if a.get(k) == 0 {
            missing.push(format!("{why} (counter {k} = 0)"));
        }
    };
    need("daemon.success.after_explicit_success", "no daemon conversation ever succeeded (positive control)");
    need("daemon.success.depth2", "no success after two prompts");
    need("daemon.nonsuccess.last_reply_class.denied", "explicit denial never delivered");
    need("daemon.nonsuccess.last_reply_class.unknown-user", "unknown user never delivered");
    need("daemon.nonsuccess.last_reply_class.error", "error reply never delivered");
    need("daemon.nonsuccess.last_reply_class.wrong-kind", "wrong reply kind never delivered");
    need("daemon.nonsuccess.last_reply_class.garbage", "malformed frame never delivered");
    for f in FAULTS {
        need(&format!("daemon.fault.{f:?}"), "a connection fault was never played");
    }
    for s in NONFAULT {
        need(&format!("daemon.delivered.{s:?}"), "a reply symbol was never delivered");
    }
    for r in ["PamAuthenticateInit", "Step:Password", "Step:MFACode", "Step:MFAPoll", "Step:SetupPin", "Step:Pin", "Step:DeviceAuthorizationGrant", "PamAccountAllowed"] {
        need(&format!("daemon.request.{r}"), "a request kind was never sent by the module");
    }
    need("acct.daemon.status-true.success", "account phase never succeeded (positive control)");
    need("acct.daemon.script.nonsuccess", "account phase never saw an unexpected reply");
    need("fallback.success.verified_by_crypt", "offline authentication never succeeded (positive control)");
    need("fallback.success.scheme.sha512", "no offline success with sha512");
    need("fallback.success.scheme.sha256", "no offline success with sha256");
    need("fallback.success.scheme.yescrypt", "no offline success with yescrypt");
    need("fallback.success.with_future_expiry", "no offline success with an expiry date in the future");
    need("fallback.expiry.past", "expired accounts never exercised");
    need("fallback.expiry.today", "expiry boundary never exercised");
    for k in ["hash", "locked-bang", "locked-star", "locked-bangbang", "empty", "bang-only", "star-only", "no-shadow-line", "corrupt-digest", "truncated"] {
        need(&format!("fallback.field.{k}"), "a shadow field kind was never exercised");
    }
    need("acct.fallback.success", "offline account phase never succeeded");
    for m in missing {
        run.require(false, &m);
    }
    let enumerated = run.acc.get("daemon.scripts_enumerated");
    run.require(enumerated == total_scripts as u64, &format!("only {enumerated} of {total_scripts} scripts were played"));
    run.exhaustive = Some(enumerated == total_scripts as u64 && run.acc.get("daemon.scenario_hung_or_lost") == 0);
    let panics = run.acc.get("panic_in_kanidm");
    run.extra("panics_in_kanidm", json!(panics));
    run.finish();
}
