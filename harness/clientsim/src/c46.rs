//! C46 RADIUS secrets go only to members of required groups.
//!
//! The real `rlm_kanidm` module logic (`/repo/rlm_kanidm/module/src/logic.rs`, compiled into this
//! crate by `#[path]`) is driven through `Module::from_config` + `Module::authorise` against the
//! in-process HTTP stub, which plays `GET /v1/account/{id}/_radius/_token`.
//!
//! Oracle (the statement restated, computed from the token the stub actually served):
//!   secret released  =>  some group of the served token has its uuid or its spn in the required list;
//!   VLAN returned    ==  vlan of the LAST group (token order) whose spn has a mapping, else the default.
//! The converse of the first line (member => released) is a liveness claim the statement does not make;
//! it is counted (`member.not_released`), not judged.

use crate::httpstub::{Reply, Req, Stub};
use crate::logic::{AuthError, AuthRequest, Module};
use kanidm_proto::internal::OperationError;
use kvcore::{Acc, Args, Rng, Run};
use rlm_kanidm_shared::config::{KanidmRadiusConfig, RadiusGroupConfig};
use serde_json::{json, Value};
use std::collections::{BTreeMap, BTreeSet};
use std::marker::PhantomData;
use std::sync::{Arc, Mutex};

#[derive(Clone, Debug)]
struct G {
    spn: String,
    uuid: String,
}

#[derive(Clone, Debug)]
enum Serve {
    /// a well-formed token with these groups (token order)
    Token(Vec<G>),
    NotFound,
    Status(u16),
    Garbage,
    Close,
    Truncated,
}

#[derive(Default)]
struct StubState {
    users: BTreeMap<String, (Serve, String)>, // id -> (behaviour, secret)
    /// ids requested, with whether a well-formed token was served
    log: Vec<(String, bool)>,
}

fn token_json(id: &str, secret: &str, groups: &[G]) -> Value {
    json!({
        "name": id,
        "displayname": format!("Display {id}"),
        "uuid": format!("00000000-0000-4000-8000-{:012x}", kvcore::rng::hash_str(id) & 0xffff_ffff_ffff),
        "secret": secret,
        "groups": groups.iter().map(|g| json!({"spn": g.spn, "uuid": g.uuid})).collect::<Vec<_>>(),
    })
}

fn handler(state: Arc<Mutex<StubState>>) -> crate::httpstub::Handler {
    Arc::new(move |req: &Req| {
        let mut st = state.lock().unwrap();
        let id = req
            .path
            .strip_prefix("/v1/account/")
            .and_then(|r| r.strip_suffix("/_radius/_token"))
            .map(|s| s.to_string());
        let Some(id) = id else {
            return Reply::Json(404, json!("nomatchingentries"));
        };
        if req.method != "GET" || req.bearer().is_none() {
            st.log.push((id, false));
            return Reply::Json(401, serde_json::to_value(OperationError::NotAuthenticated).unwrap_or(Value::Null));
        }
        let Some((serve, secret)) = st.users.get(&id).cloned() else {
            st.log.push((id, false));
            return Reply::Json(404, serde_json::to_value(OperationError::NoMatchingEntries).unwrap_or(Value::Null));
        };
        match serve {
            Serve::Token(groups) => {
                st.log.push((id.clone(), true));
                Reply::Json(200, token_json(&id, &secret, &groups))
            }
            Serve::NotFound => {
                st.log.push((id, false));
                Reply::Json(404, serde_json::to_value(OperationError::NoMatchingEntries).unwrap_or(Value::Null))
            }
            Serve::Status(s) => {
                st.log.push((id, false));
                Reply::Json(s, serde_json::to_value(OperationError::AccessDenied).unwrap_or(Value::Null))
            }
            Serve::Garbage => {
                st.log.push((id, false));
                // looks like a token but is not one (groups missing / wrong shape)
                Reply::Raw(200, format!("{{\"name\":\"x\",\"secret\":\"{secret}\",\"groups\":\"all\"}}").into_bytes())
            }
            Serve::Close => {
                st.log.push((id, false));
                Reply::Close
            }
            Serve::Truncated => {
                st.log.push((id.clone(), false));
                let b = serde_json::to_vec(&token_json(&id, &secret, &[])).unwrap_or_default();
                Reply::Truncated(200, b)
            }
        }
    })
}

struct Cfg {
    required: Vec<String>,
    mapping: Vec<(String, u32)>,
    default_vlan: u32,
    /// a mapping key equals some group's uuid: the statement does not say whether that counts
    uuid_keyed_mapping: bool,
}

fn gen_universe(rng: &mut Rng) -> Vec<G> {
    let n = rng.range(2, 9) as usize;
    let dom = *rng.pick(&["example.com", "idm.test", "localhost"]);
    (0..n)
        .map(|i| G {
            spn: format!("grp{}{}@{}", i, rng.below(3), dom),
            uuid: rng.uuid().hyphenated().to_string(),
        })
        .collect()
}

fn near_miss(rng: &mut Rng, s: &str) -> String {
    match rng.below(6) {
        0 => format!("{s} "),
        1 => format!(" {s}"),
        2 => s[..s.len().saturating_sub(1)].to_string(),
        3 => format!("{s}x"),
        4 => s.split('@').next().unwrap_or(s).to_string(),
        _ => format!("x{s}"),
    }
}

fn gen_cfg(rng: &mut Rng, uni: &[G]) -> Cfg {
    let mut required = Vec::new();
    let style = rng.below(10);
    // 0: empty list; else a few entries in spn / uuid / near-miss form
    if style != 0 {
        let k = rng.range(1, 4);
        for _ in 0..k {
            let g = rng.pick(uni).clone();
            match rng.below(8) {
                0..=2 => required.push(g.spn),
                3..=5 => required.push(g.uuid),
                6 => required.push(near_miss(rng, &g.spn)),
                _ => required.push(near_miss(rng, &g.uuid)),
            }
        }
        if rng.chance(1, 6) {
            required.push(String::new());
        }
        if rng.chance(1, 6) {
            required.push("idm_radius_servers@example.com".to_string());
        }
    }
    let mut mapping = Vec::new();
    let mut keys = BTreeSet::new();
    let mut uuid_keyed = false;
    let mk = rng.below(uni.len() as u64 + 1);
    for _ in 0..mk {
        let g = rng.pick(uni);
        let key = if rng.chance(1, 25) {
            uuid_keyed = true;
            g.uuid.clone()
        } else if rng.chance(1, 10) {
            near_miss(rng, &g.spn)
        } else {
            g.spn.clone()
        };
        if keys.insert(key.clone()) {
            let vlan = if rng.chance(1, 8) { rng.below(3) as u32 } else { rng.range(2, 4094) as u32 };
            mapping.push((key, vlan));
        }
    }
    let default_vlan = *rng.pick(&[0u32, 1, 1, 1, 99, 4094]);
    Cfg {
        required,
        mapping,
        default_vlan,
        uuid_keyed_mapping: uuid_keyed,
    }
}

fn gen_groups(rng: &mut Rng, uni: &[G]) -> Vec<G> {
    let n = *rng.pick(&[0usize, 0, 1, 1, 2, 3, 4, 6]);
    let mut v: Vec<G> = (0..n).map(|_| rng.pick(uni).clone()).collect();
    // groups outside the configured universe, and uuid/spn crossed forms
    if rng.chance(1, 4) {
        v.push(G {
            spn: format!("other{}@example.com", rng.below(4)),
            uuid: rng.uuid().hyphenated().to_string(),
        });
    }
    if rng.chance(1, 12) && !uni.is_empty() {
        // a group whose *spn* is another group's uuid string (still "by UUID or SPN" of the required list)
        let g = rng.pick(uni);
        v.push(G {
            spn: g.uuid.clone(),
            uuid: rng.uuid().hyphenated().to_string(),
        });
    }
    rng.shuffle(&mut v);
    v
}

fn vlan_class(cfg: &Cfg, groups: &[G], got: Option<u32>) -> &'static str {
    let map: BTreeMap<&str, u32> = cfg.mapping.iter().map(|(k, v)| (k.as_str(), *v)).collect();
    let mapped: Vec<u32> = groups.iter().filter_map(|g| map.get(g.spn.as_str()).copied()).collect();
    match got {
        None => "unparsable",
        Some(v) if mapped.first() == Some(&v) => "first-mapped",
        Some(v) if mapped.contains(&v) => "other-mapped",
        Some(v) if v == cfg.default_vlan => "default",
        Some(v) if cfg.mapping.iter().any(|(_, m)| *m == v) => "mapping-of-foreign-group",
        Some(_) => "unrelated",
    }
}

pub fn run(args: Args) {
    let mut run = Run::new(
        args.clone(),
        "exploration",
        "random module configurations (required-group list in spn/uuid/near-miss forms incl. empty, spn->VLAN map, default VLAN) x random user tokens (0-7 groups in random order, members by uuid only / spn only / both / neither, unmapped and multiply-mapped groups) served by an HTTP stub, plus lookup failures (404, 401/403/500, malformed body, truncated body, closed connection); non-trivial = a well-formed token was served and authorise returned a decision; distinct by (required list, map, default, group list)",
    );
    run.assume("/repo/rlm_kanidm/module/src/{logic,error}.rs are compiled into the harness by #[path]; the FreeRADIUS FFI wrapper (ffi.rs) that copies AuthResponse into the reply is not exercised");
    run.assume("VLAN mappings are keyed by group spn (config field `spn`); cases where a mapping key equals a group's uuid are not judged for VLAN");
    let configs: u64 = args.tier.pick(1_500, 30_000);
    let per_cfg: u64 = 12;
    // replay: the witness is self-contained (inputs, conversation, result, explanation); show it, then
    // re-derive the verdict by running the same seed/tier it was found under
    if let Some(p) = &args.replay {
        if let Some(w) = kvcore::run::load_replay(p) {
            println!("replay witness: {w}");
        }
    }
    let seed = args.seed;
    run.parallel(args.workers, |w, n| {
        let mut acc = Acc::new();
        let rt = kvcore::srv::rt();
        rt.block_on(async {
            let state = Arc::new(Mutex::new(StubState::default()));
            let stub = match Stub::start(handler(state.clone())).await {
                Ok(s) => s,
                Err(e) => {
                    acc.inconclusive(&format!("http stub failed to start: {e}"));
                    return;
                }
            };
            let mut rng = Rng::new(kvcore::rng::mix(seed, w as u64, 46));
            let mine = configs / n as u64 + 1;
            for ci in 0..mine {
                let uni = gen_universe(&mut rng);
                let cfg = gen_cfg(&mut rng, &uni);
                let kcfg = KanidmRadiusConfig {
                    uri: stub.url(),
                    auth_token: format!("radius-service-token-{w}-{ci}"),
                    radius_required_groups: cfg.required.clone(),
                    radius_default_vlan: cfg.default_vlan,
                    radius_groups: cfg
                        .mapping
                        .iter()
                        .map(|(k, v)| RadiusGroupConfig {
                            spn: k.clone(),
                            vlan: *v,
                            reply_attributes: BTreeMap::from_iter([("grp".to_string(), k.clone())]),
                        })
                        .collect(),
                    ..KanidmRadiusConfig::default()
                };
                let module = match Module::from_config(kcfg).await {
                    Ok(m) => m,
                    Err(e) => {
                        acc.count("module.from_config.err");
                        acc.inconclusive(&format!("Module::from_config failed: {e}"));
                        return;
                    }
                };
                let required: BTreeSet<&str> = cfg.required.iter().map(|s| s.as_str()).collect();
                let map: BTreeMap<&str, u32> = cfg.mapping.iter().map(|(k, v)| (k.as_str(), *v)).collect();
                for ui in 0..per_cfg {
                    let id = format!("user{ui}");
                    let secret = format!("secret-{:016x}", rng.next());
                    let groups = gen_groups(&mut rng, &uni);
                    let serve = match rng.below(14) {
                        0 => Serve::NotFound,
                        1 => Serve::Status(*rng.pick(&[401u16, 403, 500, 400])),
                        2 => match rng.below(3) {
                            0 => Serve::Garbage,
                            1 => Serve::Close,
                            _ => Serve::Truncated,
                        },
                        _ => Serve::Token(groups.clone()),
                    };
                    {
                        let mut st = state.lock().unwrap();
                        st.users.clear();
                        st.log.clear();
                        st.users.insert(id.clone(), (serve.clone(), secret.clone()));
                        // a decoy whose secret must never surface for this request
                        st.users.insert(
                            "decoy".to_string(),
                            (Serve::Token(vec![uni[0].clone()]), "decoy-secret".to_string()),
                        );
                    }
                    // which request field carries the id is not part of the statement
                    let slot = rng.below(3);
                    let req = AuthRequest {
                        tls_san_dn_cn: (slot == 0).then(|| id.clone()),
                        tls_cn: (slot == 1).then(|| id.clone()),
                        user_name: (slot == 2).then(|| id.clone()),
                        attrs: BTreeMap::new(),
                        phantom: PhantomData,
                    };
                    let res = module.authorise(req).await;
                    acc.eval();
                    let log = state.lock().unwrap().log.clone();
                    let token_served = log.iter().any(|(i, ok)| *ok && *i == id);
                    let served_groups: &[G] = if token_served { &groups } else { &[] };
                    // ---- the statement
                    let by_uuid = served_groups.iter().any(|g| required.contains(g.uuid.as_str()));
                    let by_spn = served_groups.iter().any(|g| required.contains(g.spn.as_str()));
                    let member = by_uuid || by_spn;
                    let mapped: Vec<u32> = served_groups.iter().filter_map(|g| map.get(g.spn.as_str()).copied()).collect();
                    let want_vlan = mapped.last().copied().unwrap_or(cfg.default_vlan);
                    let witness = |why: &str, got: &str| {
                        json!({"why": why, "required_groups": cfg.required, "vlan_map": cfg.mapping, "default_vlan": cfg.default_vlan,
                               "stub_behaviour": format!("{serve:?}"), "token_served": token_served,
                               "user_groups_in_token_order": served_groups.iter().map(|g| json!({"spn": g.spn, "uuid": g.uuid})).collect::<Vec<_>>(),
                               "member_by_uuid": by_uuid, "member_by_spn": by_spn, "expected_vlan": want_vlan, "got": got})
                    };
                    match &serve {
                        Serve::Token(_) => acc.count("stub.token"),
                        Serve::NotFound => acc.count("stub.notfound"),
                        Serve::Status(_) => acc.count("stub.http_error"),
                        Serve::Garbage => acc.count("stub.garbage"),
                        Serve::Close => acc.count("stub.close"),
                        Serve::Truncated => acc.count("stub.truncated"),
                    }
                    match res {
                        Ok(resp) => {
                            let released = resp.control.cleartext_password.clone();
                            if released.is_none() {
                                acc.count("ok.without_secret");
                            }
                            if released.is_some() {
                                acc.count("released");
                                if !token_served {
                                    acc.violation(
                                        "c46/secret-released-without-a-served-token",
                                        witness("authorise released a secret although the identity server did not serve a well-formed token", &format!("{resp:?}")),
                                    );
                                } else if !member {
                                    let sig = if served_groups.is_empty() {
                                        "c46/secret-released-to-user-with-no-groups"
                                    } else if cfg.required.is_empty() {
                                        "c46/secret-released-with-empty-required-list"
                                    } else {
                                        "c46/secret-released-to-non-member"
                                    };
                                    acc.violation(sig, witness("secret released but no group of the user is in the required list by uuid or spn", &format!("{resp:?}")));
                                } else {
                                    match (by_uuid, by_spn) {
                                        (true, false) => acc.count("released.member_by_uuid_only"),
                                        (false, true) => acc.count("released.member_by_spn_only"),
                                        _ => acc.count("released.member_by_both"),
                                    }
                                    if served_groups.len() >= 2 {
                                        acc.count("released.multi_group_one_required");
                                    }
                                }
                                if released.as_deref() != Some(secret.as_str()) {
                                    acc.count("released.secret_differs_from_served");
                                    acc.violation(
                                        "c46/released-secret-is-not-the-users",
                                        witness("the released secret is not the one served for the requested user", &format!("{resp:?}")),
                                    );
                                }
                            }
                            // VLAN
                            let got_vlan: Option<u32> = resp.reply.tunnel_private_group_id.parse().ok();
                            if cfg.uuid_keyed_mapping {
                                acc.count("vlan.unjudged_uuid_keyed_mapping");
                            } else if token_served {
                                if mapped.is_empty() {
                                    acc.count("vlan.expected_default");
                                } else if mapped.len() >= 2 && mapped.first() != mapped.last() {
                                    acc.count("vlan.expected_last_of_several_distinct");
                                } else {
                                    acc.count("vlan.expected_single_mapped");
                                }
                                if got_vlan != Some(want_vlan) {
                                    let sig = format!(
                                        "c46/vlan-expected-{}-got-{}",
                                        if mapped.is_empty() { "default" } else { "last-mapped" },
                                        vlan_class(&cfg, served_groups, got_vlan)
                                    );
                                    acc.violation(&sig, witness("VLAN is not that of the last mapped group (token order) / the default", &resp.reply.tunnel_private_group_id));
                                }
                            }
                            if token_served {
                                acc.nontrivial(&format!("{:?}|{:?}|{}|{:?}", cfg.required, cfg.mapping, cfg.default_vlan, served_groups));
                                if acc.samples.len() < 3 && member && mapped.len() >= 2 {
                                    acc.sample(witness("sample: released", &format!("{resp:?}")));
                                }
                            }
                        }
                        Err(e) => {
                            let kind = match e {
                                AuthError::Reject => "reject",
                                AuthError::NotFound => "notfound",
                                AuthError::Fail => "fail",
                                _ => "other",
                            };
                            acc.count(&format!("denied.{kind}"));
                            if token_served {
                                acc.nontrivial(&format!("{:?}|{:?}|{}|{:?}", cfg.required, cfg.mapping, cfg.default_vlan, served_groups));
                                if member {
                                    // liveness, not claimed by the statement
                                    acc.count("member.not_released");
                                    if acc.samples.len() < 5 {
                                        acc.sample(witness("unjudged: member of a required group was not served", kind));
                                    }
                                } else {
                                    acc.count("nonmember.rejected");
                                    if served_groups.is_empty() {
                                        acc.count("nonmember.rejected.no_groups");
                                    }
                                    if cfg.required.is_empty() {
                                        acc.count("nonmember.rejected.empty_required_list");
                                    }
                                    if acc.samples.len() < 5 && served_groups.len() >= 2 {
                                        acc.sample(witness("sample: rejected", kind));
                                    }
                                }
                            } else {
                                acc.count("lookup_failure.denied");
                            }
                        }
                    }
                }
            }
            drop(stub);
        });
        acc
    });
    let a = &run.acc;
    let need = [
        ("released", "no secret was ever released (no positive control)"),
        ("released.member_by_uuid_only", "membership by uuid only never exercised"),
        ("released.member_by_spn_only", "membership by spn only never exercised"),
        ("nonmember.rejected", "no non-member was ever rejected"),
        ("nonmember.rejected.no_groups", "user without groups never exercised"),
        ("nonmember.rejected.empty_required_list", "empty required list never exercised"),
        ("vlan.expected_default", "default VLAN never expected"),
        ("vlan.expected_last_of_several_distinct", "no user with several differently mapped groups"),
        ("lookup_failure.denied", "lookup failures never exercised"),
    ];
    let missing: Vec<String> = need.iter().filter(|(k, _)| a.get(k) == 0).map(|(_, r)| r.to_string()).collect();
    for r in missing {
        run.require(false, &r);
    }
    let min_nt = args.tier.pick(5_000, 100_000);
    let nt = run.acc.nontrivial_total();
    run.require(nt >= min_nt, &format!("only {nt} distinct non-trivial cases (< {min_nt})"));
    run.finish();
}
