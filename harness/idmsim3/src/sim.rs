//! Shared identity-engine plumbing for C31 / C37 / C40 / C50: one real `IdmServer` on an in-memory
//! `QueryServer`, a simulated clock, and small helpers that only use the public API of kanidmd_lib.
//!
//! Nothing in here judges anything: it builds servers, entries and identities and reads state back.

use kanidmd_lib::entry::{Entry, EntryInit, EntryNew};
use kanidmd_lib::idm::credupdatesession::{
    CredentialUpdateSessionToken, InitCredentialUpdateEvent, MfaRegStateStatus,
};
use kanidmd_lib::credential::totp::Totp;
use kanidmd_lib::prelude::*;
use kvcore::srv::{self, Dump};
use std::sync::Arc;

pub const ORIGIN: &str = "https://idm.example.com";

pub struct Sim {
    pub idms: IdmServer,
    #[allow(dead_code)]
    pub delayed: IdmServerDelayed,
    #[allow(dead_code)]
    pub audit: IdmServerAudit,
    pub qs: QueryServer,
    /// simulated clock
    pub ct: Duration,
}

impl Sim {
    pub async fn new() -> Result<Sim, String> {
        Self::new_at(srv::T0).await
    }

    pub async fn new_at(ct: Duration) -> Result<Sim, String> {
        let qs = srv::mk_server_at(None, 1, Some(2048), ct, DOMAIN_TGT_LEVEL)
            .await
            .map_err(|e| format!("server init: {e:?}"))?;
        let url = Url::parse(ORIGIN).map_err(|e| format!("{e:?}"))?;
        let (idms, delayed, audit) = IdmServer::new(qs.clone(), &url, true, ct)
            .await
            .map_err(|e| format!("idm server init: {e:?}"))?;
        Ok(Sim {
            idms,
            delayed,
            audit,
            qs,
            ct,
        })
    }

    pub fn tick(&mut self, d: Duration) -> Duration {
        self.ct += d;
        self.ct
    }

    pub async fn dump(&self) -> Dump {
        srv::dump(&self.qs).await
    }

    /// Run `f` inside one IDM write transaction at the current simulated time; commit iff `f` is Ok
    /// (this is what every `handle_*` of the real server does).
    pub async fn write<T>(
        &self,
        f: impl FnOnce(
            &mut kanidmd_lib::idm::server::IdmServerProxyWriteTransaction<'_>,
        ) -> Result<T, OperationError>,
    ) -> Result<T, OperationError> {
        let mut w = self.idms.proxy_write(self.ct).await?;
        let r = f(&mut w)?;
        w.commit()?;
        Ok(r)
    }

    /// The committed entry, as the server stores it (None if absent / recycled).
    pub async fn entry(&self, uuid: Uuid) -> Option<Arc<kanidmd_lib::entry::EntrySealedCommitted>> {
        let mut r = self.qs.read().await.ok()?;
        r.internal_search_uuid(uuid).ok()
    }

    /// Does the stored credential in `attr` (primary_credential / unix_password) verify `pw`?
    /// None: no such credential stored.
    pub async fn stored_password_verifies(
        &self,
        uuid: Uuid,
        attr: Attribute,
        pw: &str,
    ) -> Option<bool> {
        let e = self.entry(uuid).await?;
        let c = e.get_ava_single_credential(attr)?;
        c.password_ref().ok()?.verify(pw).ok()
    }

}

pub fn person(name: &str, uuid: Uuid, posix: bool) -> Entry<EntryInit, EntryNew> {
    let mut e = entry_init!(
        (Attribute::Class, EntryClass::Object.to_value()),
        (Attribute::Class, EntryClass::Account.to_value()),
        (Attribute::Class, EntryClass::Person.to_value()),
        (Attribute::Name, Value::new_iname(name)),
        (Attribute::Uuid, Value::Uuid(uuid)),
        (Attribute::Description, Value::new_utf8s(name)),
        (Attribute::DisplayName, Value::new_utf8s(name))
    );
    if posix {
        e.add_ava(Attribute::Class, EntryClass::PosixAccount.to_value());
    }
    e
}

pub fn group(name: &str, uuid: Uuid, members: &[Uuid]) -> Entry<EntryInit, EntryNew> {
    let mut e = entry_init!(
        (Attribute::Class, EntryClass::Object.to_value()),
        (Attribute::Class, EntryClass::Group.to_value()),
        (Attribute::Name, Value::new_iname(name)),
        (Attribute::Uuid, Value::Uuid(uuid))
    );
    for m in members {
        e.add_ava(Attribute::Member, Value::Refer(*m));
    }
    e
}

/// A read-write identity for a stored entry (what a fully authenticated, privileged session of
/// that account is).
pub fn ident_rw(
    w: &mut QueryServerWriteTransaction<'_>,
    uuid: Uuid,
) -> Result<Identity, OperationError> {
    let e = w.internal_search_uuid(uuid)?;
    Ok(Identity::from_impersonate_entry_readwrite(e))
}

/// Start a self-service credential update session for `uuid` (as that account itself).
pub async fn self_session(
    sim: &Sim,
    uuid: Uuid,
) -> Result<CredentialUpdateSessionToken, OperationError> {
    let ct = sim.ct;
    sim.write(|w| {
        let ident = ident_rw(&mut w.qs_write, uuid)?;
        w.init_credential_update(&InitCredentialUpdateEvent::new(ident, uuid), ct)
            .map(|(t, _)| t)
    })
    .await
}

/// Register a TOTP on the primary credential of an open session. Needs a password already set.
pub async fn session_add_totp(
    sim: &Sim,
    cust: &CredentialUpdateSessionToken,
) -> Result<(), String> {
    let ct = sim.ct;
    let cu = sim
        .idms
        .cred_update_transaction()
        .await
        .map_err(|e| format!("{e:?}"))?;
    let st = cu
        .credential_primary_init_totp(cust, ct)
        .map_err(|e| format!("init totp: {e:?}"))?;
    let totp: Totp = match st.mfaregstate() {
        MfaRegStateStatus::TotpCheck(secret) => secret
            .clone()
            .try_into()
            .map_err(|_| "totp secret".to_string())?,
        _ => return Err("unexpected mfa state after init_totp".into()),
    };
    let code = totp
        .do_totp_duration_from_epoch(&ct)
        .map_err(|e| format!("{e:?}"))?;
    let st = cu
        .credential_primary_check_totp(cust, ct, code, "totp")
        .map_err(|e| format!("check totp: {e:?}"))?;
    match st.mfaregstate() {
        MfaRegStateStatus::None => Ok(()),
        _ => Err("totp not accepted".into()),
    }
}

/// Short class name of an OperationError for counters ("PasswordQuality", "SessionExpired" ...).
pub fn err_class(e: &OperationError) -> String {
    let s = format!("{e:?}");
    s.split(|c: char| !c.is_alphanumeric() && c != '_')
        .next()
        .unwrap_or("Err")
        .to_string()
}

/// `--replay FILE`: the random checks are deterministic under (tier, seed, workers); a replay
/// re-runs the check with the tier and seed recorded in the witness file and re-derives the verdict.
pub fn args_from_replay(mut args: kvcore::Args) -> kvcore::Args {
    if let Some(p) = &args.replay {
        if let Ok(s) = std::fs::read_to_string(p) {
            if let Ok(v) = serde_json::from_str::<serde_json::Value>(&s) {
                if let Some(seed) = v.get("seed").and_then(|x| x.as_u64()) {
                    args.seed = seed;
                }
                match v.get("tier").and_then(|x| x.as_str()) {
                    Some("thorough") => args.tier = kvcore::Tier::Thorough,
                    Some("quick") => args.tier = kvcore::Tier::Quick,
                    _ => {}
                }
                println!(
                    "replay: re-running tier={} seed={} (signature in file: {})",
                    args.tier.name(),
                    args.seed,
                    v.get("signature").and_then(|x| x.as_str()).unwrap_or("?")
                );
            }
        }
    }
    args
}

/// Wall-clock watchdog: a check that does not finish (kanidm code that never returns, an
/// overloaded machine) ends *inconclusive*, never held or violated.
pub fn watchdog(args: &kvcore::Args, secs: u64) {
    let prop = args.prop.clone();
    let tier = args.tier.name();
    let seed = args.seed;
    std::thread::spawn(move || {
        std::thread::sleep(std::time::Duration::from_secs(secs));
        let reason = format!("watchdog: check did not finish within {secs} s wall clock");
        let ev = serde_json::json!({
            "property_id": prop, "tier": tier, "seed": seed, "level": "exploration",
            "coverage": {"evaluations": 0, "distinct_nontrivial": 0, "rule": "watchdog fired before the run completed",
                         "samples": [], "verdict": "inconclusive", "inconclusive_reasons": [reason]},
            "assumptions": [], "wall_s": secs, "violations": 0,
        });
        let dir = kvcore::run::verif_root().join("evidence");
        let _ = std::fs::create_dir_all(&dir);
        let _ = std::fs::write(dir.join(format!("{prop}.json")), serde_json::to_string_pretty(&ev).unwrap_or_default());
        println!("INCONCLUSIVE property={prop} reason={reason}");
        std::process::exit(2);
    });
}

/// Record a violation, but keep at most 3 witnesses per signature and worker (all are counted):
/// a flood of one (possibly known) signature must not push a different signature out of the
/// bounded witness lists.
pub fn violation(acc: &mut kvcore::Acc, signature: &str, detail: serde_json::Value) {
    let key = format!("violations.{signature}");
    acc.count(&key);
    if acc.get(&key) <= 3 {
        acc.violation(signature, detail);
    }
}
