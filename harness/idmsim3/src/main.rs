//! idmsim3 engine. See /verif/DESIGN.md section 2 and /verif/harness/AGENT_GUIDE.md.
#[macro_use]
extern crate kanidmd_lib;

mod c31;
mod c37;
mod c40;
mod c50;
mod sim;

fn main() {
    let args = kvcore::parse_args();
    match args.prop.as_str() {
        "C31" => c31::run(args),
        "C37" => c37::run(args),
        "C40" => c40::run(args),
        "C50" => c50::run(args),
        p => {
            println!("INCONCLUSIVE property={p} reason=idmsim3 does not serve this property");
            std::process::exit(2);
        }
    }
}
