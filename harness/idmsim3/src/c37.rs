//! C37 Credential reset links are single use.
//!
//! Oracle (offline checker over the event log of one account, recomputed from API results only):
//!  * successful commits per link <= 1;
//!  * no successful exchange of a link after a successful commit of that link, or at/after the
//!    expiry time the link was issued with;
//!  * a session superseded by a later successful exchange of the same link cannot commit;
//!  * the stored primary password is always the one carried by the last successful commit (each
//!    session carries its own password), i.e. a refused commit/cancel/exchange stores nothing.
//!
//! Workload: every sequence (up to a bound) over {exchange(l), commit(l,k), cancel(l,k), +short,
//! +beyond-session-ttl, +beyond-link-ttl} for one link and for two links of one account, on a real
//! IdmServer with simulated time.

use crate::sim::{self, Sim};
use kanidmd_lib::idm::credupdatesession::{
    CredentialUpdateIntentTokenExchange, CredentialUpdateSessionToken,
    InitCredentialUpdateIntentEvent,
};
use kanidmd_lib::prelude::*;
use kvcore::{Acc, Args, Run};
use serde_json::json;

#[derive(Clone, Copy, Debug, PartialEq, Eq)]
enum Op {
    Exch(usize),
    Commit(usize, usize),
    Cancel(usize, usize),
    TShort,
    TSession,
    TLink,
}

impl Op {
    fn name(&self) -> String {
        match self {
            Op::Exch(l) => format!("E{l}"),
            Op::Commit(l, k) => format!("C{l}.{k}"),
            Op::Cancel(l, k) => format!("X{l}.{k}"),
            Op::TShort => "t+".into(),
            Op::TSession => "tS".into(),
            Op::TLink => "tL".into(),
        }
    }
}

/// All sequences of exactly `len` ops over `links` links. commit/cancel may only name an exchange
/// attempt that occurs earlier in the sequence.
fn enumerate(links: usize, len: usize, out: &mut Vec<Vec<Op>>) {
    fn rec(links: usize, len: usize, cur: &mut Vec<Op>, ex: &mut Vec<usize>, out: &mut Vec<Vec<Op>>) {
        if cur.len() == len {
            out.push(cur.clone());
            return;
        }
        for l in 0..links {
            cur.push(Op::Exch(l));
            ex[l] += 1;
            rec(links, len, cur, ex, out);
            ex[l] -= 1;
            cur.pop();
            for k in 0..ex[l] {
                cur.push(Op::Commit(l, k));
                rec(links, len, cur, ex, out);
                cur.pop();
                cur.push(Op::Cancel(l, k));
                rec(links, len, cur, ex, out);
                cur.pop();
            }
        }
        for t in [Op::TShort, Op::TSession, Op::TLink] {
            cur.push(t);
            rec(links, len, cur, ex, out);
            cur.pop();
        }
    }
    let mut ex = vec![0; links];
    rec(links, len, &mut Vec::new(), &mut ex, out);
}

const SESSION_TTL: u64 = 900; // MAXIMUM_CRED_UPDATE_TTL, only used to size the time step

#[derive(Clone, Copy, Debug)]
struct Cfg {
    links: usize,
    link_ttl: u64,
    gc: bool,
}

struct LinkState {
    intent_id: String,
    /// expiry the server told the requester when the link was issued
    expiry: Duration,
    /// per exchange attempt: Some(token) if it succeeded
    sessions: Vec<Option<CredentialUpdateSessionToken>>,
    last_ok_exchange: Option<usize>,
    commits_ok: u32,
}

fn session_pw(case: u64, l: usize, k: usize) -> String {
    // long, unrelated to the account name, scores 4 in zxcvbn
    format!("L{l}-S{k}-c{case} quartz vexing jumbo fjord whisk")
}

const INITIAL_PW: &str = "initial wombat gazebo quilt frisbee oxide 17";

struct World {
    sim: Sim,
    made: u64,
}

async fn new_world() -> Result<World, String> {
    let sim = Sim::new().await?;
    // password-only credentials must be committable: drop the default "mfa" minimum.
    sim.write(|w| {
        w.qs_write.internal_modify_uuid(
            UUID_IDM_ALL_PERSONS,
            &ModifyList::new_purge(Attribute::CredentialTypeMinimum),
        )
    })
    .await
    .map_err(|e| format!("policy setup: {e:?}"))?;
    Ok(World { sim, made: 0 })
}

/// Runs one sequence on a fresh account. Returns Err(harness problem) or Ok(()).
async fn run_case(
    world: &mut World,
    acc: &mut Acc,
    case: u64,
    cfg: Cfg,
    ops: &[Op],
) -> Result<(), String> {
    let sim = &mut world.sim;
    world.made += 1;
    let uuid = Uuid::from_u128(0x7000_0000_0000_4000_8000_0000_0000_0000u128 + case as u128);
    let name = format!("c37p{case}");
    sim.tick(Duration::from_secs(1));
    // the account starts with a known password (stored directly: the setup is not under test)
    let mut pe = sim::person(&name, uuid, false);
    let cred = kanidmd_lib::credential::Credential::new_password_only(
        &kanidm_lib_crypto::CryptoPolicy::danger_test_minimum(),
        INITIAL_PW,
        time::OffsetDateTime::UNIX_EPOCH + sim.ct,
    )
    .map_err(|e| format!("initial credential: {e:?}"))?;
    pe.add_ava(Attribute::PrimaryCredential, Value::new_credential("primary", cred));
    sim.write(|w| w.qs_write.internal_create(vec![pe]))
        .await
        .map_err(|e| format!("create person: {e:?}"))?;
    // issue the links (as idm_admin, the way a help desk does)
    let mut links: Vec<LinkState> = Vec::new();
    for _ in 0..cfg.links {
        sim.tick(Duration::from_secs(1));
        let ct = sim.ct;
        let tok = sim
            .write(|w| {
                let ident = sim::ident_rw(&mut w.qs_write, UUID_IDM_ADMIN)?;
                w.init_credential_update_intent(
                    &InitCredentialUpdateIntentEvent::new(
                        ident,
                        uuid,
                        Some(Duration::from_secs(cfg.link_ttl)),
                    ),
                    ct,
                )
            })
            .await
            .map_err(|e| format!("init intent: {e:?}"))?;
        let expiry = Duration::from_nanos(tok.expiry_time.unix_timestamp_nanos().max(0) as u64);
        links.push(LinkState {
            intent_id: tok.intent_id,
            expiry,
            sessions: Vec::new(),
            last_ok_exchange: None,
            commits_ok: 0,
        });
    }

    let mut expect_pw: String = INITIAL_PW.to_string();
    let mut log: Vec<serde_json::Value> = Vec::new();
    let mut had_commit_attempt = false;
    let mut had_exchange = false;

    for op in ops {
        // distinct timestamps for every call (session ids are derived from the clock)
        sim.tick(Duration::from_secs(2));
        let ct = sim.ct;
        let t_rel = (ct - srv_t0()).as_secs();
        match *op {
            Op::TShort | Op::TSession | Op::TLink => {
                let d = match op {
                    Op::TShort => 7,
                    Op::TSession => SESSION_TTL + 1,
                    _ => cfg.link_ttl + 1,
                };
                sim.tick(Duration::from_secs(d));
                if cfg.gc {
                    let ct = sim.ct;
                    sim.write(|w| {
                        w.expire_credential_update_sessions(ct);
                        Ok(())
                    })
                    .await
                    .map_err(|e| format!("gc: {e:?}"))?;
                }
                acc.count(&format!("op.{}", op.name()));
                log.push(json!({"t": t_rel, "op": op.name(), "advance_s": d}));
            }
            Op::Exch(l) => {
                had_exchange = true;
                let k = links[l].sessions.len();
                let intent_id = links[l].intent_id.clone();
                let r = sim
                    .write(|w| {
                        w.exchange_intent_credential_update(
                            CredentialUpdateIntentTokenExchange { intent_id },
                            ct,
                        )
                    })
                    .await;
                match r {
                    Ok((cust, _st)) => {
                        acc.count("exchange.ok");
                        log.push(json!({"t": t_rel, "op": op.name(), "result": "ok", "session": k}));
                        // judge
                        if links[l].commits_ok > 0 {
                            crate::sim::violation(acc, 
                                "c37/exchange-accepted-after-commit",
                                witness(cfg, ops, &log, "link exchanged successfully after a successful commit of the same link"),
                            );
                        } else if ct >= links[l].expiry {
                            crate::sim::violation(acc, 
                                "c37/exchange-accepted-after-expiry",
                                witness(cfg, ops, &log, "link exchanged successfully at/after its expiry time"),
                            );
                        }
                        if links[l].last_ok_exchange.is_some() {
                            acc.count("exchange.ok.superseding_or_reexchange");
                        }
                        // give the session its own password
                        let pw = session_pw(case, l, k);
                        let cu = sim.idms.cred_update_transaction().await.map_err(|e| format!("{e:?}"))?;
                        match cu.credential_primary_set_password(&cust, ct, &pw) {
                            Ok(_) => acc.count("session.set_password.ok"),
                            Err(e) => return Err(format!("session password refused: {e:?}")),
                        }
                        drop(cu);
                        links[l].sessions.push(Some(cust));
                        links[l].last_ok_exchange = Some(k);
                    }
                    Err(e) => {
                        let cls = sim::err_class(&e);
                        acc.count(&format!("exchange.err.{cls}"));
                        if links[l].commits_ok > 0 {
                            acc.count("control.exchange_refused_after_commit");
                        } else if ct >= links[l].expiry {
                            acc.count("control.exchange_refused_after_expiry");
                        } else {
                            // the statement allows refusing; but before commit/expiry nothing we
                            // know of forbids an exchange: report as over-restriction, not judged
                            acc.count("exchange.err.unexplained_by_model");
                        }
                        log.push(json!({"t": t_rel, "op": op.name(), "result": cls}));
                        links[l].sessions.push(None);
                    }
                }
            }
            Op::Commit(l, k) | Op::Cancel(l, k) => {
                let is_commit = matches!(op, Op::Commit(..));
                had_commit_attempt = true;
                let Some(cust) = links[l].sessions.get(k).and_then(|s| s.as_ref()) else {
                    acc.count("op.no_session_token");
                    log.push(json!({"t": t_rel, "op": op.name(), "result": "no-token (exchange had failed)"}));
                    continue;
                };
                let r = sim
                    .write(|w| {
                        if is_commit {
                            w.commit_credential_update(cust, ct)
                        } else {
                            w.cancel_credential_update(cust, ct)
                        }
                    })
                    .await;
                let superseded = links[l].last_ok_exchange != Some(k);
                match (&r, is_commit) {
                    (Ok(()), true) => {
                        acc.count("commit.ok");
                        log.push(json!({"t": t_rel, "op": op.name(), "result": "ok"}));
                        if links[l].commits_ok > 0 {
                            crate::sim::violation(acc, 
                                "c37/second-commit-accepted-on-link",
                                witness(cfg, ops, &log, "a second commit succeeded for the same link"),
                            );
                        } else if superseded {
                            crate::sim::violation(acc, 
                                "c37/superseded-session-committed",
                                witness(cfg, ops, &log, "a session superseded by a later successful exchange of the same link committed"),
                            );
                        }
                        if ct >= links[l].expiry {
                            acc.count("commit.ok.after_link_expiry(not judged)");
                        }
                        links[l].commits_ok += 1;
                        if links.iter().filter(|x| x.commits_ok > 0).count() == 2 {
                            acc.count("control.both_links_committed");
                        }
                        expect_pw = session_pw(case, l, k);
                    }
                    (Err(e), true) => {
                        let cls = sim::err_class(e);
                        acc.count(&format!("commit.err.{cls}"));
                        if links[l].commits_ok > 0 {
                            acc.count("control.second_commit_refused");
                        } else if superseded {
                            acc.count("control.superseded_commit_refused");
                        }
                        log.push(json!({"t": t_rel, "op": op.name(), "result": cls}));
                    }
                    (Ok(()), false) => {
                        acc.count("cancel.ok");
                        log.push(json!({"t": t_rel, "op": op.name(), "result": "ok"}));
                    }
                    (Err(e), false) => {
                        let cls = sim::err_class(e);
                        acc.count(&format!("cancel.err.{cls}"));
                        log.push(json!({"t": t_rel, "op": op.name(), "result": cls}));
                    }
                }
                // whatever happened: the stored password is the one of the last successful commit
                match sim
                    .stored_password_verifies(uuid, Attribute::PrimaryCredential, &expect_pw)
                    .await
                {
                    Some(true) => acc.count("stored.matches_last_successful_commit"),
                    other => {
                        let sig = if r.is_ok() && is_commit {
                            "c37/commit-ok-but-credential-not-stored"
                        } else {
                            "c37/credential-changed-without-successful-commit"
                        };
                        crate::sim::violation(acc, 
                            sig,
                            witness(cfg, ops, &log, &format!("stored primary password does not verify the password of the last successful commit (verify -> {other:?})")),
                        );
                    }
                }
            }
        }
    }
    // end of sequence: the stored credential is still the winner's
    match sim
        .stored_password_verifies(uuid, Attribute::PrimaryCredential, &expect_pw)
        .await
    {
        Some(true) => {}
        other => crate::sim::violation(acc, 
            "c37/credential-changed-without-successful-commit",
            witness(cfg, ops, &log, &format!("at end of history the stored password is not the last successfully committed one (verify -> {other:?})")),
        ),
    }
    acc.eval();
    if had_exchange && had_commit_attempt {
        acc.nontrivial_distinct();
    }
    if (case % 4099 == 0 || (acc.samples.len() < 5 && ops.len() >= 4 && case % 97 == 0)) && had_commit_attempt {
        acc.sample(json!({"cfg": format!("{cfg:?}"), "log": log}));
    }
    Ok(())
}

fn srv_t0() -> Duration {
    kvcore::srv::T0
}

fn witness(cfg: Cfg, ops: &[Op], log: &[serde_json::Value], why: &str) -> serde_json::Value {
    json!({
        "config": {"links": cfg.links, "link_ttl_s": cfg.link_ttl, "expire_sessions_after_time_steps": cfg.gc},
        "ops": ops.iter().map(|o| o.name()).collect::<Vec<_>>(),
        "event_log": log,
        "explanation": why,
    })
}

pub fn run(args: Args) {
    crate::sim::watchdog(&args, if args.tier == kvcore::Tier::Thorough { 3600 } else { 900 });
    let mut run = Run::new(
        args.clone(),
        "exploration",
        "every sequence over {exchange(link), commit(link,session k), cancel(link,session k), +7s, +901s (beyond session ttl), +ttl+1s (beyond link ttl)} up to the length bound, for one link and for two links of one account, x link ttl in {300s,3600s} (x session-expiry sweep on/off in thorough); non-trivial = at least one exchange and one commit/cancel attempt; distinct by enumeration",
    );
    run.assume("a reset link is identified by the intent id returned by init_credential_update_intent; its expiry is the expiry_time returned with it");
    run.assume("each API call runs in its own write transaction which is committed iff the call returned Ok (as the server's handlers do); every call has a distinct simulated timestamp");
    run.assume("a commit after link expiry by a session exchanged before expiry is not judged (the statement forbids only exchange after expiry)");
    let thorough = args.tier == kvcore::Tier::Thorough;
    let (max1, max2) = if thorough { (6, 5) } else { (5, 4) };

    // the work list
    let mut work: Vec<(Cfg, Vec<Op>)> = Vec::new();
    let gcs: &[bool] = if thorough { &[true, false] } else { &[true] };
    for &gc in gcs {
        for link_ttl in [300u64, 3600] {
            for len in 1..=max1 {
                let mut v = Vec::new();
                enumerate(1, len, &mut v);
                for ops in v {
                    work.push((Cfg { links: 1, link_ttl, gc }, ops));
                }
            }
            for len in 1..=max2 {
                let mut v = Vec::new();
                enumerate(2, len, &mut v);
                // two-link sequences that never touch link 1 are already covered above
                for ops in v {
                    if ops.iter().any(|o| matches!(o, Op::Exch(1))) {
                        work.push((Cfg { links: 2, link_ttl, gc }, ops));
                    }
                }
            }
        }
    }
    let total = work.len();
    // replay: run only the sequence of a witness file
    if let Some(p) = &args.replay {
        if let Some(w) = kvcore::run::load_replay(p) {
            if let Some(sel) = parse_witness(&w) {
                work = vec![sel];
            }
        }
    }
    let work = &work;
    run.parallel(args.workers, |w, n| {
        let mut acc = Acc::new();
        let rt = kvcore::srv::rt();
        rt.block_on(async {
            let mut world: Option<World> = None;
            let mut i = w;
            while i < work.len() {
                if world.as_ref().map(|x| x.made >= 400).unwrap_or(true) {
                    world = match new_world().await {
                        Ok(x) => Some(x),
                        Err(e) => {
                            acc.inconclusive(&format!("cannot build server: {e}"));
                            return;
                        }
                    };
                }
                let (cfg, ops) = &work[i];
                if let Some(wd) = world.as_mut() {
                    if let Err(e) = run_case(wd, &mut acc, i as u64, *cfg, ops).await {
                        acc.inconclusive(&format!("harness error in case {i}: {e}"));
                        // the server may be in an odd state: rebuild
                        world = None;
                    }
                }
                i += n;
            }
        });
        acc
    });
    run.extra("sequences_enumerated", json!(total));
    run.extra("bounds", json!({"one_link_max_len": max1, "two_links_max_len": max2, "link_ttls_s": [300, 3600], "session_expiry_sweep": gcs}));
    run.exhaustive = Some(args.replay.is_none());
    if args.replay.is_none() {
        for (c, why) in [
            ("commit.ok", "no commit ever succeeded"),
            ("cancel.ok", "no cancel ever succeeded"),
            ("exchange.ok", "no exchange ever succeeded"),
            ("exchange.ok.superseding_or_reexchange", "no link was ever exchanged twice successfully"),
            ("control.exchange_refused_after_commit", "exchange after commit never attempted/refused"),
            ("control.exchange_refused_after_expiry", "exchange after expiry never attempted/refused"),
            ("control.second_commit_refused", "second commit never attempted/refused"),
            ("control.superseded_commit_refused", "superseded commit never attempted/refused"),
            ("control.both_links_committed", "two links of one account never both committed"),
            ("stored.matches_last_successful_commit", "stored credential never checked"),
        ] {
            let ok = run.acc.get(c) > 0;
            run.require(ok, why);
        }
        let ev = run.acc.evaluations;
        run.require(ev as usize == total, "not every enumerated sequence was executed");
    }
    run.finish();
}

fn parse_witness(w: &serde_json::Value) -> Option<(Cfg, Vec<Op>)> {
    let c = w.get("config")?;
    let cfg = Cfg {
        links: c.get("links")?.as_u64()? as usize,
        link_ttl: c.get("link_ttl_s")?.as_u64()?,
        gc: c.get("expire_sessions_after_time_steps")?.as_bool()?,
    };
    let mut ops = Vec::new();
    for o in w.get("ops")?.as_array()? {
        let s = o.as_str()?;
        let op = match s {
            "t+" => Op::TShort,
            "tS" => Op::TSession,
            "tL" => Op::TLink,
            _ => {
                let (h, rest) = s.split_at(1);
                let mut it = rest.split('.');
                let l: usize = it.next()?.parse().ok()?;
                match h {
                    "E" => Op::Exch(l),
                    "C" => Op::Commit(l, it.next()?.parse().ok()?),
                    "X" => Op::Cancel(l, it.next()?.parse().ok()?),
                    _ => return None,
                }
            }
        };
        ops.push(op);
    }
    Some((cfg, ops))
}
