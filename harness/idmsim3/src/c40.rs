//! C40 The LDAP gateway is read-only and no more privileged than its bind.
//!
//! Everything goes through the same two steps as the real gateway (server/core handle_ldaprequest):
//! `ServerOps::try_from(LdapMsg)` then `LdapServer::do_op` with the connection's bound token.
//!
//! Oracles
//!  * read-only: the full directory dump before and after every LDAP connection (operation
//!    sequence, including every write-type LDAP operation the proto crate can express) is equal;
//!  * password binds are anonymous-level: right after every successful password bind (POSIX or
//!    application password) a battery of searches and compares is answered with the new token and
//!    with an anonymous token; the answers must be equal as sets of (dn, attributes, values);
//!  * POSIX binds are accepted only while the domain does not disable them
//!    (`ldap_allow_unix_pw_bind` false in the dump => every non-anonymous POSIX bind is refused);
//!  * application binds are accepted only for members of the application's linked group (dump);
//!  * LDAP == native: an anonymous LDAP search answer equals the native `search_ext` answer of the
//!    anonymous identity (read-only scope) for the harness' own translation of the same filter/base,
//!    rendered with `to_ldap`, minus schema and access-control entries.
//!  Counted, not judged: token binds (only read-only-ness), binds the model cannot explain.
//!
//! NOTE: `LdapServer` reads the wall clock itself (`duration_from_epoch_now`); nothing judged here
//! depends on time (no expiring objects are created, soft-locked refusals are only counted).

use crate::sim::{self, Sim};
use kanidmd_lib::entry::{Entry, EntryInit, EntryNew};
use kanidmd_lib::idm::application::GenerateApplicationPasswordEvent;
use kanidmd_lib::idm::event::UnixPasswordChangeEvent;
use kanidmd_lib::idm::ldap::{LdapBoundToken, LdapResponseState, LdapServer};
use kanidmd_lib::idm::serviceaccount::GenerateApiTokenEvent;
use kanidmd_lib::prelude::*;
use kvcore::{Acc, Args, Rng, Run};
use ldap3_proto::proto::{
    LdapAddRequest, LdapBindCred, LdapBindRequest, LdapCompareRequest, LdapDerefAliases,
    LdapExtendedRequest, LdapFilter, LdapModify, LdapModifyDNRequest, LdapModifyRequest,
    LdapModifyType, LdapMsg, LdapOp, LdapPartialAttribute, LdapResultCode, LdapSearchRequest,
    LdapSearchScope, SaslCredentials,
};
use ldap3_proto::simple::ServerOps;
use serde_json::{json, Value as Json};
use std::collections::{BTreeMap, BTreeSet};
use std::net::{IpAddr, Ipv4Addr};

const BASEDN: &str = "dc=example,dc=com";

struct Person {
    uuid: Uuid,
    name: String,
    legalname: String,
    unix_pw: Option<String>,
    /// application index -> application password
    app_pw: BTreeMap<usize, String>,
}

struct App {
    name: String,
    group: Uuid,
}

struct World {
    sim: Sim,
    ldaps: LdapServer,
    persons: Vec<Person>,
    groups: Vec<(Uuid, String)>,
    apps: Vec<App>,
    /// (token, read_write)
    tokens: Vec<(String, bool)>,
    flag: Option<bool>,
    conns: u64,
}

fn pw_of(rng: &mut Rng, tag: &str) -> String {
    let mut s = format!("{tag}-");
    for _ in 0..28 {
        s.push(*rng.pick(&['a', 'b', 'c', 'd', 'e', 'f', 'g', 'h', 'k', 'm', 'n', 'p', 'q', 'r', 's', 't', 'w', 'x', 'z', '2', '3', '4', '7', '9']));
    }
    s
}

async fn new_world(rng: &mut Rng, wid: usize) -> Result<World, String> {
    let mut sim = Sim::new().await?;
    let mut persons = Vec::new();
    let mut groups = Vec::new();
    let mut ents = Vec::new();
    let np = 7usize;
    for i in 0..np {
        let uuid = rng.uuid();
        let name = format!("lp{wid}x{i}");
        let legalname = format!("Legal Name {wid} {i}");
        let mut e = sim::person(&name, uuid, true);
        e.add_ava(Attribute::LegalName, Value::new_utf8s(&legalname));
        if let Some(m) = Value::new_email_address_primary_s(&format!("{name}@example.com")) {
            e.add_ava(Attribute::Mail, m);
        }
        ents.push(e);
        persons.push(Person {
            uuid,
            name,
            legalname,
            unix_pw: None,
            app_pw: BTreeMap::new(),
        });
    }
    // plain groups, two of them are the applications' linked groups
    for i in 0..4usize {
        let gu = rng.uuid();
        let gname = format!("lg{wid}x{i}");
        let members: Vec<Uuid> = match i {
            0 => vec![persons[0].uuid, persons[1].uuid, persons[5].uuid], // linked group of app0
            1 => vec![persons[1].uuid, persons[3].uuid],                  // linked group of app1
            _ => persons.iter().filter(|_| rng.chance(1, 2)).map(|p| p.uuid).collect(),
        };
        ents.push(sim::group(&gname, gu, &members));
        groups.push((gu, gname));
    }
    let mut apps = Vec::new();
    let mut app_uuids = Vec::new();
    for i in 0..2usize {
        let au = rng.uuid();
        let aname = format!("lapp{wid}x{i}");
        ents.push(entry_init!(
            (Attribute::Class, EntryClass::Object.to_value()),
            (Attribute::Class, EntryClass::Account.to_value()),
            (Attribute::Class, EntryClass::ServiceAccount.to_value()),
            (Attribute::Class, EntryClass::Application.to_value()),
            (Attribute::DisplayName, Value::new_utf8s("Application")),
            (Attribute::Name, Value::new_iname(&aname)),
            (Attribute::Uuid, Value::Uuid(au)),
            (Attribute::LinkedGroup, Value::Refer(groups[i].0))
        ));
        apps.push(App {
            name: aname,
            group: groups[i].0,
        });
        app_uuids.push(au);
    }
    // service accounts for api tokens; the second one is an administrator
    let sa: Vec<Uuid> = (0..2).map(|_| rng.uuid()).collect();
    for (i, u) in sa.iter().enumerate() {
        ents.push(entry_init!(
            (Attribute::Class, EntryClass::Object.to_value()),
            (Attribute::Class, EntryClass::Account.to_value()),
            (Attribute::Class, EntryClass::ServiceAccount.to_value()),
            (Attribute::DisplayName, Value::new_utf8s("svc")),
            (Attribute::Name, Value::new_iname(&format!("lsa{wid}x{i}"))),
            (Attribute::EntryManagedBy, Value::Refer(UUID_IDM_ADMINS)),
            (Attribute::Uuid, Value::Uuid(*u))
        ));
    }
    sim.write(|w| {
        w.qs_write.internal_create(ents)?;
        // the administrator service account and one person are privileged: if a bind leaked the
        // account's own rights instead of anonymous', the answers would differ a lot
        w.qs_write.internal_modify_uuid(
            UUID_IDM_ADMINS,
            &ModifyList::new_list(vec![
                Modify::Present(Attribute::Member, Value::Refer(sa[1])),
                Modify::Present(Attribute::Member, Value::Refer(persons[0].uuid)),
            ]),
        )
    })
    .await
    .map_err(|e| format!("populate: {e:?}"))?;

    // unix passwords for all but the last person (direct POSIX change, as the user)
    for i in 0..np - 1 {
        let pw = pw_of(rng, &format!("unix{i}"));
        sim.tick(Duration::from_secs(1));
        let target = persons[i].uuid;
        let p = pw.clone();
        sim.write(|w| {
            let ident = sim::ident_rw(&mut w.qs_write, target)?;
            w.set_unix_account_password(&UnixPasswordChangeEvent {
                ident,
                target,
                cleartext: p,
            })
        })
        .await
        .map_err(|e| format!("unix password: {e:?}"))?;
        persons[i].unix_pw = Some(pw);
    }
    // application passwords: p0,p1 are members of app0's group; p2 is NOT a member but owns one
    // too; p1,p3 members of app1's group; p4 non-member with a password for app1
    for (pi, ai) in [(0usize, 0usize), (1, 0), (2, 0), (1, 1), (3, 1), (4, 1)] {
        sim.tick(Duration::from_secs(1));
        let ev = GenerateApplicationPasswordEvent::new_internal(
            persons[pi].uuid,
            app_uuids[ai],
            format!("label{ai}"),
        );
        let (pw, _) = sim
            .write(|w| w.generate_application_password(&ev))
            .await
            .map_err(|e| format!("application password: {e:?}"))?;
        persons[pi].app_pw.insert(ai, pw);
    }
    // api tokens
    let mut tokens = Vec::new();
    for (i, u) in sa.iter().enumerate() {
        sim.tick(Duration::from_secs(1));
        let ct = sim.ct;
        let rw = i == 1;
        let mut last_err = String::new();
        let mut got = None;
        for issuer in [UUID_IDM_ADMIN, UUID_ADMIN] {
            let r = sim
                .write(|w| {
                    let ident = sim::ident_rw(&mut w.qs_write, issuer)?;
                    w.service_account_generate_api_token(
                        &GenerateApiTokenEvent {
                            ident,
                            target: *u,
                            label: "c40".into(),
                            expiry: None,
                            read_write: rw,
                            compact: false,
                        },
                        ct,
                    )
                })
                .await;
            match r {
                Ok(t) => {
                    got = Some(t.to_string());
                    break;
                }
                Err(e) => last_err = format!("{e:?}"),
            }
        }
        match got {
            Some(t) => tokens.push((t, rw)),
            None => return Err(format!("api token: {last_err}")),
        }
    }
    let ldaps = LdapServer::new(&sim.idms)
        .await
        .map_err(|e| format!("ldap server: {e:?}"))?;
    Ok(World {
        sim,
        ldaps,
        persons,
        groups,
        apps,
        tokens,
        flag: None,
        conns: 0,
    })
}

// ------------------------------------------------------------------------------- the gateway

enum Reply {
    /// refused before reaching kanidm's LDAP server (gateway disconnects with protocolError)
    RefusedAtDecode,
    Unbind,
    Disconnect,
    Bind(LdapBoundToken, LdapMsg),
    Msgs(Vec<LdapMsg>),
    BindMsgs(LdapBoundToken, Vec<LdapMsg>),
    ServerError(String),
}

async fn gateway(world: &World, uat: &Option<LdapBoundToken>, msg: LdapMsg) -> Reply {
    let Ok(op) = ServerOps::try_from(msg) else {
        return Reply::RefusedAtDecode;
    };
    let ip = IpAddr::V4(Ipv4Addr::new(127, 0, 0, 1));
    let eventid = Uuid::from_u128(0x4040);
    match world.ldaps.do_op(&world.sim.idms, op, uat.clone(), ip, eventid).await {
        Ok(LdapResponseState::Unbind) => Reply::Unbind,
        Ok(LdapResponseState::Disconnect(_)) => Reply::Disconnect,
        Ok(LdapResponseState::Bind(t, m)) => Reply::Bind(t, m),
        Ok(LdapResponseState::Respond(m)) => Reply::Msgs(vec![m]),
        Ok(LdapResponseState::MultiPartResponse(v)) => Reply::Msgs(v),
        Ok(LdapResponseState::BindMultiPartResponse(t, v)) => Reply::BindMsgs(t, v),
        Err(e) => Reply::ServerError(format!("{e:?}")),
    }
}

fn bind_msg(dn: &str, pw: &str) -> LdapMsg {
    LdapMsg {
        msgid: 1,
        op: LdapOp::BindRequest(LdapBindRequest {
            dn: dn.to_string(),
            cred: LdapBindCred::Simple(pw.to_string()),
        }),
        ctrl: vec![],
    }
}

#[derive(Clone, Debug)]
struct Query {
    base: String,
    scope: LdapSearchScope,
    filter: F,
    attrs: Vec<String>,
}

fn search_msg(q: &Query) -> LdapMsg {
    LdapMsg {
        msgid: 2,
        op: LdapOp::SearchRequest(LdapSearchRequest {
            base: q.base.clone(),
            scope: q.scope.clone(),
            aliases: LdapDerefAliases::Never,
            sizelimit: 0,
            timelimit: 0,
            typesonly: false,
            filter: q.filter.to_ldap(),
            attrs: q.attrs.clone(),
        }),
        ctrl: vec![],
    }
}

fn compare_msg(dn: &str, atype: &str, val: &str) -> LdapMsg {
    LdapMsg {
        msgid: 3,
        op: LdapOp::CompareRequest(LdapCompareRequest {
            dn: dn.to_string(),
            atype: atype.to_string(),
            val: val.as_bytes().to_vec(),
        }),
        ctrl: vec![],
    }
}

type Answer = BTreeMap<String, BTreeMap<String, BTreeSet<Vec<u8>>>>;

/// Normalised answer of a search/compare: Ok(entries) or Err(result code / reason).
fn normalise(msgs: &[LdapMsg]) -> Result<(Answer, String), String> {
    let mut a: Answer = BTreeMap::new();
    let mut done = None;
    for m in msgs {
        match &m.op {
            LdapOp::SearchResultEntry(e) => {
                let ent = a.entry(e.dn.clone()).or_default();
                for at in &e.attributes {
                    ent.entry(at.atype.to_lowercase())
                        .or_default()
                        .extend(at.vals.iter().cloned());
                }
            }
            LdapOp::SearchResultDone(r) | LdapOp::CompareResult(r) => {
                done = Some(format!("{:?}", r.code));
                if !matches!(
                    r.code,
                    LdapResultCode::Success | LdapResultCode::CompareTrue | LdapResultCode::CompareFalse | LdapResultCode::NoSuchObject
                ) {
                    return Err(format!("{:?}", r.code));
                }
            }
            other => return Err(format!("unexpected message {other:?}")),
        }
    }
    match done {
        Some(d) => Ok((a, d)),
        None => Err("no result message".into()),
    }
}

fn answer_json(a: &Answer) -> Json {
    let mut m = serde_json::Map::new();
    for (dn, attrs) in a.iter().take(12) {
        let mut am = serde_json::Map::new();
        for (k, vs) in attrs {
            am.insert(
                k.clone(),
                json!(vs.iter().map(|v| String::from_utf8_lossy(v).chars().take(60).collect::<String>()).collect::<Vec<_>>()),
            );
        }
        m.insert(dn.clone(), Json::Object(am));
    }
    Json::Object(m)
}

fn answer_diff(a: &Answer, b: &Answer) -> Vec<String> {
    let mut out = Vec::new();
    for (dn, attrs) in a {
        match b.get(dn) {
            None => out.push(format!("only in first: {dn}")),
            Some(o) => {
                for (k, v) in attrs {
                    match o.get(k) {
                        None => out.push(format!("{dn}: attribute {k} only in first")),
                        Some(ov) if ov != v => out.push(format!("{dn}: values of {k} differ")),
                        _ => {}
                    }
                }
                for k in o.keys() {
                    if !attrs.contains_key(k) {
                        out.push(format!("{dn}: attribute {k} only in second"));
                    }
                }
            }
        }
    }
    for dn in b.keys() {
        if !a.contains_key(dn) {
            out.push(format!("only in second: {dn}"));
        }
    }
    out.truncate(20);
    out
}

// ------------------------------------------------------------------------------- filters

/// The harness' own filter language; rendered independently to LDAP and to a native filter.
#[derive(Clone, Debug)]
enum F {
    Name(String),
    Class(String),
    UuidEq(Uuid),
    MemberOf(Uuid),
    Pres(&'static str),
    And(Vec<F>),
    Or(Vec<F>),
    /// only generated as a child of And with a positive sibling
    Not(Box<F>),
}

impl F {
    fn to_ldap(&self) -> LdapFilter {
        match self {
            F::Name(n) => LdapFilter::Equality("name".into(), n.clone()),
            F::Class(c) => LdapFilter::Equality("class".into(), c.clone()),
            F::UuidEq(u) => LdapFilter::Equality("uuid".into(), u.to_string()),
            F::MemberOf(u) => LdapFilter::Equality("memberof".into(), u.to_string()),
            F::Pres(a) => LdapFilter::Present((*a).into()),
            F::And(v) => LdapFilter::And(v.iter().map(|f| f.to_ldap()).collect()),
            F::Or(v) => LdapFilter::Or(v.iter().map(|f| f.to_ldap()).collect()),
            F::Not(f) => LdapFilter::Not(Box::new(f.to_ldap())),
        }
    }
    fn to_native(&self) -> FC {
        match self {
            F::Name(n) => f_eq(Attribute::Name, PartialValue::new_iname(n)),
            F::Class(c) => f_eq(Attribute::Class, PartialValue::new_iutf8(c)),
            F::UuidEq(u) => f_eq(Attribute::Uuid, PartialValue::Uuid(*u)),
            F::MemberOf(u) => f_eq(Attribute::MemberOf, PartialValue::Refer(*u)),
            F::Pres(a) => f_pres(Attribute::from(*a)),
            F::And(v) => f_and(v.iter().map(|f| f.to_native()).collect()),
            F::Or(v) => f_or(v.iter().map(|f| f.to_native()).collect()),
            F::Not(f) => f_andnot(f.to_native()),
        }
    }
    fn text(&self) -> String {
        match self {
            F::Name(n) => format!("(name={n})"),
            F::Class(c) => format!("(class={c})"),
            F::UuidEq(u) => format!("(uuid={u})"),
            F::MemberOf(u) => format!("(memberof={u})"),
            F::Pres(a) => format!("({a}=*)"),
            F::And(v) => format!("(&{})", v.iter().map(|f| f.text()).collect::<String>()),
            F::Or(v) => format!("(|{})", v.iter().map(|f| f.text()).collect::<String>()),
            F::Not(f) => format!("(!{})", f.text()),
        }
    }
}

fn gen_atom(rng: &mut Rng, w: &World) -> F {
    match rng.below(6) {
        0 => {
            let names: Vec<String> = w
                .persons
                .iter()
                .map(|p| p.name.clone())
                .chain(w.groups.iter().map(|g| g.1.clone()))
                .chain(w.apps.iter().map(|a| a.name.clone()))
                .chain(["admin", "idm_admin", "anonymous", "idm_admins", "nosuchname"].iter().map(|s| s.to_string()))
                .collect();
            F::Name(rng.pick(&names).clone())
        }
        1 => F::Class(
            rng.pick(&["person", "group", "account", "posixaccount", "posixgroup", "service_account", "application", "object", "memberof"])
                .to_string(),
        ),
        2 => {
            let us: Vec<Uuid> = w
                .persons
                .iter()
                .map(|p| p.uuid)
                .chain([UUID_ADMIN, UUID_ANONYMOUS, UUID_IDM_ADMINS, UUID_DOMAIN_INFO])
                .collect();
            F::UuidEq(*rng.pick(&us))
        }
        3 => F::MemberOf(rng.pick(&w.groups).0),
        4 => F::Pres(rng.pick(&["class", "name", "displayname", "gidnumber", "member", "legalname", "mail", "linked_group"])),
        _ => F::Class("account".into()),
    }
}

fn gen_filter(rng: &mut Rng, w: &World, depth: u32) -> F {
    if depth == 0 || rng.chance(1, 2) {
        return gen_atom(rng, w);
    }
    match rng.below(3) {
        0 => {
            let mut v = vec![gen_filter(rng, w, depth - 1), gen_filter(rng, w, depth - 1)];
            if rng.chance(1, 3) {
                v.push(F::Not(Box::new(gen_atom(rng, w))));
            }
            F::And(v)
        }
        1 => F::Or(vec![gen_filter(rng, w, depth - 1), gen_filter(rng, w, depth - 1)]),
        _ => gen_atom(rng, w),
    }
}

const PLAIN_ATTRS: &[&str] = &[
    "name", "displayname", "legalname", "mail", "memberof", "member", "uuid", "spn", "gidnumber", "class",
    "description", "loginshell", "unix_password", "primary_credential", "linked_group",
];
const LDAP_ATTRS: &[&str] = &["cn", "uid", "objectclass", "entryuuid", "dn", "entrydn", "uidnumber", "homedirectory", "emailprimary", "gecos"];

fn gen_query(rng: &mut Rng, w: &World) -> Query {
    let (base, scope) = match rng.below(8) {
        0..=2 => (BASEDN.to_string(), LdapSearchScope::Subtree),
        3 => (BASEDN.to_string(), LdapSearchScope::OneLevel),
        4 => (BASEDN.to_string(), LdapSearchScope::Base),
        5 => {
            let p = rng.pick(&w.persons);
            (format!("name={},{BASEDN}", p.name), if rng.bool() { LdapSearchScope::Base } else { LdapSearchScope::Subtree })
        }
        6 => {
            let p = rng.pick(&w.persons);
            (format!("uuid={},{BASEDN}", p.uuid), LdapSearchScope::Base)
        }
        _ => {
            let g = rng.pick(&w.groups);
            (format!("name={},{BASEDN}", g.1), LdapSearchScope::Subtree)
        }
    };
    let attrs: Vec<String> = match rng.below(6) {
        0 | 1 => vec![],
        2 => vec!["*".into()],
        3 => {
            let n = rng.range(1, 5);
            let mut s = BTreeSet::new();
            for _ in 0..n {
                s.insert(rng.pick(PLAIN_ATTRS).to_string());
            }
            s.into_iter().collect()
        }
        4 => {
            let mut v: Vec<String> = vec![rng.pick(LDAP_ATTRS).to_string(), rng.pick(PLAIN_ATTRS).to_string()];
            if rng.chance(1, 3) {
                v.push("+".into());
            }
            v
        }
        _ => vec!["1.1".into()],
    };
    Query {
        base,
        scope,
        filter: gen_filter(rng, w, 2),
        attrs,
    }
}

fn query_json(q: &Query) -> Json {
    json!({"base": q.base, "scope": format!("{:?}", q.scope), "filter": q.filter.text(), "attrs": q.attrs})
}

/// Native answer of the anonymous identity for the same query, rendered through `to_ldap`.
/// None when the harness cannot translate the query (then nothing is compared).
async fn native_anonymous(world: &World, q: &Query) -> Option<Result<Answer, String>> {
    // attribute selection: all attributes, or plain kanidm attribute names only
    let all = q.attrs.is_empty() || (q.attrs.len() == 1 && q.attrs[0] == "*");
    let plain = !q.attrs.is_empty() && q.attrs.iter().all(|a| PLAIN_ATTRS.contains(&a.as_str()));
    if !all && !plain {
        return None;
    }
    // base + scope -> extra native term
    let mut terms = vec![q.filter.to_native()];
    if q.base == BASEDN {
        match q.scope {
            LdapSearchScope::Subtree => {}
            LdapSearchScope::Base => terms.push(f_eq(Attribute::Uuid, PartialValue::Uuid(UUID_DOMAIN_INFO))),
            LdapSearchScope::OneLevel | LdapSearchScope::Children => {
                terms.push(f_andnot(f_eq(Attribute::Uuid, PartialValue::Uuid(UUID_DOMAIN_INFO))))
            }
        }
    } else {
        let rdn = q.base.strip_suffix(&format!(",{BASEDN}"))?;
        let (a, v) = rdn.split_once('=')?;
        match q.scope {
            LdapSearchScope::Base | LdapSearchScope::Subtree => {}
            _ => return Some(Ok(Answer::new())),
        }
        match a {
            "name" => terms.push(f_eq(Attribute::Name, PartialValue::new_iname(v))),
            "uuid" => terms.push(f_eq(Attribute::Uuid, PartialValue::Uuid(Uuid::parse_str(v).ok()?))),
            _ => return None,
        }
    }
    let filter = Filter::new(f_and(terms));
    let mut r = world.sim.idms.proxy_read().await.ok()?;
    let anon = r.qs_read.internal_search_uuid(UUID_ANONYMOUS).ok()?;
    let ident = Identity::from_impersonate_entry_readwrite(anon).project_with_scope(AccessScope::ReadOnly);
    let attrs: Option<Vec<String>> = if all { None } else { Some(q.attrs.clone()) };
    let se = match SearchEvent::from_internal_message(ident, &filter, attrs.as_deref(), &mut r.qs_read) {
        Ok(se) => se,
        Err(e) => return Some(Err(format!("{e:?}"))),
    };
    let res = match r.qs_read.search_ext(&se) {
        Ok(v) => v,
        Err(e) => return Some(Err(format!("{e:?}"))),
    };
    let mut l_attrs: Vec<String> = if all { vec![] } else { q.attrs.iter().map(|a| a.to_lowercase()).collect() };
    l_attrs.sort();
    l_attrs.dedup();
    let mut out = Vec::new();
    for e in res {
        // schema and access-control entries are hidden by the gateway
        let hidden = e
            .get_ava_as_iutf8(Attribute::Class)
            .map(|c| c.contains("classtype") || c.contains("attributetype") || c.contains("access_control_profile"))
            .unwrap_or(false);
        if hidden {
            continue;
        }
        match e.to_ldap(&mut r.qs_read, BASEDN, all, &l_attrs) {
            Ok(le) => out.push(LdapMsg {
                msgid: 2,
                op: LdapOp::SearchResultEntry(le),
                ctrl: vec![],
            }),
            Err(e) => return Some(Err(format!("{e:?}"))),
        }
    }
    out.push(LdapMsg {
        msgid: 2,
        op: LdapOp::SearchResultDone(ldap3_proto::proto::LdapResult {
            code: LdapResultCode::Success,
            matcheddn: String::new(),
            message: String::new(),
            referral: vec![],
        }),
        ctrl: vec![],
    });
    Some(normalise(&out).map(|x| x.0))
}

// ------------------------------------------------------------------------------- binds

#[derive(Clone, Debug)]
enum Target {
    Anonymous,
    Person(usize),
    PersonApp(usize, usize),
    Token,
    Junk,
}

struct BindPlan {
    dn: String,
    secret: String,
    target: Target,
    /// the secret is the right one for this kind of bind
    right: bool,
    form: &'static str,
    secret_kind: &'static str,
}

fn gen_bind(rng: &mut Rng, w: &World) -> BindPlan {
    match rng.weighted(&[4, 40, 30, 12, 10]) {
        0 => BindPlan { dn: String::new(), secret: String::new(), target: Target::Anonymous, right: true, form: "empty", secret_kind: "empty" },
        1 => {
            let pi = rng.usize(w.persons.len());
            let p = &w.persons[pi];
            let (dn, form) = match rng.below(10) {
                0 => (p.name.clone(), "name"),
                1 => (format!("{}@example.com", p.name), "spn"),
                2 => (p.uuid.to_string(), "uuid"),
                3 => (format!("name={},{BASEDN}", p.name), "name=,base"),
                4 => (format!("spn={}@example.com,{BASEDN}", p.name), "spn=,base"),
                5 => (format!("uuid={},{BASEDN}", p.uuid), "uuid=,base"),
                6 => (format!("name={}", p.name), "name="),
                7 => (format!("{},{BASEDN}", p.name), "name,base"),
                8 => (format!("cn={},{BASEDN}", p.name), "cn=,base"),
                _ => (format!("uid={}", p.name), "uid="),
            };
            let (secret, right, sk) = gen_secret(rng, w, pi, None);
            BindPlan { dn, secret, target: Target::Person(pi), right, form, secret_kind: sk }
        }
        2 => {
            let pi = rng.usize(5);
            let ai = rng.usize(w.apps.len());
            let p = &w.persons[pi];
            let a = &w.apps[ai];
            let (dn, form) = match rng.below(5) {
                0 => (format!("name={},app={},{BASEDN}", p.name, a.name), "name=,app=,base"),
                1 => (format!("spn={}@example.com,app={},{BASEDN}", p.name, a.name), "spn=,app=,base"),
                2 => (format!("{},app={}", p.name, a.name), "name,app="),
                3 => (format!("uuid={},app={},{BASEDN}", p.uuid, a.name), "uuid=,app=,base"),
                _ => (format!("name={},app={}", p.name, a.name), "name=,app="),
            };
            let (secret, right, sk) = gen_secret(rng, w, pi, Some(ai));
            BindPlan { dn, secret, target: Target::PersonApp(pi, ai), right, form, secret_kind: sk }
        }
        3 => {
            let ti = rng.usize(w.tokens.len());
            let (dn, form) = if rng.bool() { ("dn=token".to_string(), "dn=token") } else { (String::new(), "empty+token") };
            let (secret, right, sk) = match rng.below(5) {
                0 => {
                    let t = &w.tokens[ti].0;
                    (t[..t.len() - 3].to_string(), false, "truncated-token")
                }
                1 => ("not a token".to_string(), false, "junk"),
                _ => (w.tokens[ti].0.clone(), true, "token"),
            };
            BindPlan { dn, secret, target: Target::Token, right, form, secret_kind: sk }
        }
        _ => {
            let dn = rng
                .pick(&[
                    "nosuchuser",
                    "name=nosuchuser,dc=example,dc=com",
                    ",dc=example,dc=com",
                    "dc=example,dc=com",
                    "name=admin,dc=clownshoes,dc=example,dc=com",
                    "name=,dc=example,dc=com",
                    "a=b=c",
                    "name=lp,app=,dc=example,dc=com",
                    "name=anonymous,dc=example,dc=com",
                    "anonymous",
                ])
                .to_string();
            let secret = rng.pick(&["", "x", "password"]).to_string();
            BindPlan { dn, secret, target: Target::Junk, right: false, form: "junk", secret_kind: "junk" }
        }
    }
}

fn gen_secret(rng: &mut Rng, w: &World, pi: usize, app: Option<usize>) -> (String, bool, &'static str) {
    let p = &w.persons[pi];
    let right_secret = match app {
        None => p.unix_pw.clone(),
        Some(ai) => p.app_pw.get(&ai).cloned(),
    };
    match rng.weighted(&[60, 8, 8, 8, 8, 8]) {
        0 => match right_secret {
            Some(s) => (s, true, "right"),
            None => ("no-such-secret".into(), false, "none-exists"),
        },
        1 => (String::new(), false, "empty"),
        2 => ("wrong horse battery".into(), false, "junk"),
        3 => {
            // somebody else's secret of the same kind
            let o = &w.persons[(pi + 1) % w.persons.len()];
            let s = match app {
                None => o.unix_pw.clone(),
                Some(ai) => o.app_pw.get(&ai).cloned(),
            };
            match s {
                Some(s) if Some(&s) != right_secret.as_ref() => (s, false, "other-users"),
                _ => ("zzz".into(), false, "junk"),
            }
        }
        4 => {
            // the other kind of secret of the same user
            let s = match app {
                None => p.app_pw.values().next().cloned(),
                Some(ai) => p.app_pw.get(&(1 - ai)).cloned().or_else(|| p.unix_pw.clone()),
            };
            match s {
                Some(s) => (s, false, "own-other-kind"),
                None => ("zzz".into(), false, "junk"),
            }
        }
        _ => match right_secret {
            Some(s) => (s.to_uppercase(), false, "case-changed"),
            None => ("zzz".into(), false, "junk"),
        },
    }
}

fn write_type_msg(rng: &mut Rng, w: &World) -> (LdapMsg, &'static str) {
    let p = rng.pick(&w.persons);
    let dn = format!("name={},{BASEDN}", p.name);
    let attr = |a: &str, v: &str| LdapPartialAttribute {
        atype: a.to_string(),
        vals: vec![v.as_bytes().to_vec()],
    };
    let (op, kind) = match rng.below(8) {
        0 => (
            LdapOp::AddRequest(LdapAddRequest {
                dn: format!("name=ldapadded,{BASEDN}"),
                attributes: vec![attr("class", "group"), attr("name", "ldapadded")],
            }),
            "add",
        ),
        1 => (
            LdapOp::ModifyRequest(LdapModifyRequest {
                dn,
                changes: vec![LdapModify {
                    operation: rng.pick(&[LdapModifyType::Add, LdapModifyType::Delete, LdapModifyType::Replace]).clone(),
                    modification: attr("displayname", "changed over ldap"),
                }],
            }),
            "modify",
        ),
        2 => (LdapOp::DelRequest(dn), "delete"),
        3 => (
            LdapOp::ModifyDNRequest(LdapModifyDNRequest {
                dn,
                newrdn: "name=renamedoverldap".into(),
                deleteoldrdn: true,
                new_superior: None,
            }),
            "modifydn",
        ),
        4 => (
            // RFC 3062 password modify
            LdapOp::ExtendedRequest(LdapExtendedRequest {
                name: "1.3.6.1.4.1.4203.1.11.1".into(),
                value: Some(vec![0x30, 0x00]),
            }),
            "extended-passwd-modify",
        ),
        5 => (
            LdapOp::ExtendedRequest(LdapExtendedRequest {
                name: "1.3.6.1.4.1.1466.20037".into(),
                value: None,
            }),
            "extended-starttls",
        ),
        6 => (LdapOp::AbandonRequest(2), "abandon"),
        _ => (
            LdapOp::BindRequest(LdapBindRequest {
                dn,
                cred: LdapBindCred::SASL(SaslCredentials {
                    mechanism: "PLAIN".into(),
                    credentials: p.unix_pw.clone().unwrap_or_default().into_bytes(),
                }),
            }),
            "sasl-bind",
        ),
    };
    (LdapMsg { msgid: 9, op, ctrl: vec![] }, kind)
}

// ------------------------------------------------------------------------------- one connection

async fn set_flag(world: &mut World, v: Option<bool>) -> Result<(), String> {
    world.sim.tick(Duration::from_secs(1));
    let ml = match v {
        None => ModifyList::new_purge(Attribute::LdapAllowUnixPwBind),
        Some(b) => ModifyList::new_purge_and_set(Attribute::LdapAllowUnixPwBind, Value::Bool(b)),
    };
    world
        .sim
        .write(|w| w.qs_write.internal_modify_uuid(UUID_DOMAIN_INFO, &ml))
        .await
        .map_err(|e| format!("set flag: {e:?}"))?;
    world.flag = v;
    Ok(())
}

/// what the dump says about the domain flag
fn dump_flag(d: &kvcore::srv::Dump) -> Option<bool> {
    let e = d.entries.get(&UUID_DOMAIN_INFO)?;
    let a = kvcore::srv::dump_attrs(e)?.get("ldap_allow_unix_pw_bind")?;
    a.as_object()?.values().next()?.as_array()?.first()?.as_bool()
}

fn dump_is_member(d: &kvcore::srv::Dump, person: Uuid, group: Uuid) -> bool {
    d.entries
        .get(&person)
        .map(|e| kvcore::srv::dump_strs(e, "memberof").iter().any(|g| *g == group.to_string()))
        .unwrap_or(false)
}

async fn anon_token(world: &World) -> Option<LdapBoundToken> {
    match gateway(world, &None, bind_msg("", "")).await {
        Reply::Bind(t, _) => Some(t),
        _ => None,
    }
}

/// compare the answers of two tokens for one query / compare
async fn same_answers(
    world: &World,
    acc: &mut Acc,
    bound: &LdapBoundToken,
    anon: &LdapBoundToken,
    msg: LdapMsg,
    what: Json,
    log: &[Json],
    bind_kind: &str,
) {
    let a = gateway(world, &Some(bound.clone()), msg.clone()).await;
    let b = gateway(world, &Some(anon.clone()), msg).await;
    let (a, b) = match (a, b) {
        (Reply::Msgs(a), Reply::Msgs(b)) => (normalise(&a), normalise(&b)),
        _ => {
            acc.count("battery.unexpected_reply_shape");
            return;
        }
    };
    match (a, b) {
        (Ok((a, ra)), Ok((b, rb))) => {
            acc.count("battery.compared");
            if !a.is_empty() {
                acc.count("battery.compared.nonempty");
            }
            if a != b || ra != rb {
                crate::sim::violation(acc, 
                    &format!("c40/{bind_kind}-bind-answer-differs-from-anonymous"),
                    json!({"connection": log, "request": what, "result_bound": ra, "result_anonymous": rb,
                           "differences": answer_diff(&a, &b), "bound_answer": answer_json(&a), "anonymous_answer": answer_json(&b),
                           "explanation": "after a successful password bind the same request is answered differently than for an anonymous bind"}),
                );
            }
        }
        (Err(ea), Err(eb)) if ea == eb => acc.count("battery.both_refused"),
        (ea, eb) => {
            // one side refused (limits may legitimately differ): not judged
            acc.count("battery.one_side_refused(not judged)");
            let _ = (ea, eb);
        }
    }
}

async fn run_connection(world: &mut World, acc: &mut Acc, rng: &mut Rng) -> Result<(), String> {
    world.conns += 1;
    // both settings of the flag (and its absence)
    if rng.chance(1, 4) {
        let v = *rng.pick(&[None, Some(true), Some(false), Some(false)]);
        set_flag(world, v).await?;
    }
    let before = world.sim.dump().await;
    let flag = dump_flag(&before);
    acc.observe("flag_settings", &format!("{flag:?}"));
    let nops = rng.range(2, 7);
    let mut uat: Option<LdapBoundToken> = None;
    let mut log: Vec<Json> = Vec::new();
    let mut had_write_type = false;
    let mut had_bind_ok = false;
    for _ in 0..nops {
        match rng.weighted(&[34, 26, 8, 6, 4, 22]) {
            0 => {
                // bind
                let plan = gen_bind(rng, world);
                let r = gateway(world, &uat, bind_msg(&plan.dn, &plan.secret)).await;
                let tkind = match &plan.target {
                    Target::Anonymous => "anonymous",
                    Target::Person(_) => "posix",
                    Target::PersonApp(..) => "application",
                    Target::Token => "token",
                    Target::Junk => "junk",
                };
                acc.observe("bind_dn_forms", &format!("{tkind}:{}", plan.form));
                acc.observe("bind_secret_kinds", &format!("{tkind}:{}", plan.secret_kind));
                match r {
                    Reply::Bind(tok, _m) => {
                        had_bind_ok = true;
                        acc.count(&format!("bind.{tkind}.ok"));
                        acc.observe("bound_session_kinds", format!("{tkind}->{:?}", tok.effective_session).split('(').next().unwrap_or(""));
                        log.push(json!({"op": "bind", "dn": plan.dn, "secret": plan.secret_kind, "intended": format!("{:?}", plan.target), "result": "bound", "flag": format!("{flag:?}")}));
                        match &plan.target {
                            Target::Person(pi) => {
                                if !plan.right {
                                    acc.count("anomaly.bind_ok_with_wrong_secret");
                                    acc.sample(json!({"anomaly": "posix bind accepted with a secret the harness believes wrong", "connection": log}));
                                }
                                if flag == Some(false) {
                                    crate::sim::violation(acc, 
                                        "c40/posix-bind-accepted-while-disabled",
                                        json!({"connection": log, "explanation": "ldap_allow_unix_pw_bind is false on the domain entry but a POSIX password bind succeeded"}),
                                    );
                                } else {
                                    acc.count(if flag.is_none() { "posix_bind.ok.flag_absent" } else { "posix_bind.ok.flag_true" });
                                }
                                battery(world, acc, rng, &tok, *pi, "posix", &log).await;
                            }
                            Target::PersonApp(pi, ai) => {
                                if !plan.right {
                                    acc.count("anomaly.bind_ok_with_wrong_secret");
                                    acc.sample(json!({"anomaly": "application bind accepted with a secret the harness believes wrong", "connection": log}));
                                }
                                if !dump_is_member(&before, world.persons[*pi].uuid, world.apps[*ai].group) {
                                    crate::sim::violation(acc, 
                                        "c40/application-bind-accepted-for-non-member",
                                        json!({"connection": log, "person": world.persons[*pi].name, "application": world.apps[*ai].name,
                                               "explanation": "the account is not a member of the application's linked group but the application password bind succeeded"}),
                                    );
                                } else {
                                    acc.count("app_bind.ok.member");
                                }
                                battery(world, acc, rng, &tok, *pi, "application", &log).await;
                            }
                            Target::Token => {
                                if !plan.right {
                                    acc.count("anomaly.bind_ok_with_wrong_secret");
                                }
                            }
                            Target::Anonymous => {}
                            Target::Junk => {
                                if plan.dn.contains("anonymous") {
                                    acc.count("bind.named_anonymous.ok(not judged)");
                                } else {
                                    acc.count("anomaly.junk_bind_ok");
                                    acc.sample(json!({"anomaly": "bind to a junk dn succeeded", "connection": log}));
                                }
                            }
                        }
                        uat = Some(tok);
                    }
                    Reply::Msgs(m) => {
                        let code = m
                            .first()
                            .map(|m| match &m.op {
                                LdapOp::BindResponse(b) => format!("{:?}", b.res.code),
                                _ => "other".into(),
                            })
                            .unwrap_or_default();
                        acc.count(&format!("bind.{tkind}.refused.{code}"));
                        log.push(json!({"op": "bind", "dn": plan.dn, "secret": plan.secret_kind, "intended": format!("{:?}", plan.target), "result": code}));
                        if plan.right {
                            match &plan.target {
                                Target::Person(_) if flag == Some(false) => acc.count("control.posix_bind_right_secret_refused_while_disabled"),
                                Target::PersonApp(pi, ai) if !dump_is_member(&before, world.persons[*pi].uuid, world.apps[*ai].group) => {
                                    acc.count("control.app_bind_right_secret_refused_for_non_member")
                                }
                                Target::Person(_) | Target::PersonApp(..) | Target::Token => acc.count("bind.right_secret_refused(softlock or other, not judged)"),
                                _ => {}
                            }
                        }
                    }
                    Reply::ServerError(e) => {
                        acc.count("bind.server_error");
                        log.push(json!({"op": "bind", "dn": plan.dn, "result": e}));
                    }
                    _ => acc.count("bind.other_reply"),
                }
            }
            1 => {
                let q = gen_query(rng, world);
                let r = gateway(world, &uat, search_msg(&q)).await;
                // every password-bound session (UnixBind / ApplicationPasswordBind, whoever bound) is
                // anonymous-level by the statement, so its answers must equal the native anonymous ones
                let (anonymous, by_password) = match &uat {
                    None => (true, false),
                    Some(t) => {
                        let s = format!("{:?}", t.effective_session);
                        let anon = s.contains(&UUID_ANONYMOUS.to_string());
                        (anon || s.starts_with("UnixBind") || s.starts_with("ApplicationPasswordBind"), !anon)
                    }
                };
                let (msgs, newtok) = match r {
                    Reply::Msgs(m) => (m, None),
                    Reply::BindMsgs(t, m) => (m, Some(t)),
                    _ => {
                        acc.count("search.other_reply");
                        continue;
                    }
                };
                if let Some(t) = newtok {
                    uat = Some(t);
                }
                let n = normalise(&msgs);
                acc.count(if n.is_ok() { "search.ok" } else { "search.refused" });
                log.push(json!({"op": "search", "query": query_json(&q), "entries": n.as_ref().map(|a| a.0.len() as i64).unwrap_or(-1)}));
                if anonymous {
                    if let (Ok((got, _)), Some(native)) = (&n, native_anonymous(world, &q).await) {
                        match native {
                            Ok(want) => {
                                acc.count("native.compared");
                                if by_password {
                                    acc.count("native.compared.password_bound_session");
                                }
                                if !want.is_empty() {
                                    acc.count("native.compared.nonempty");
                                    acc.nontrivial(&format!("{}|{:?}|{}|{:?}", q.base, q.scope, q.filter.text(), q.attrs));
                                }
                                if *got != want {
                                    crate::sim::violation(acc, 
                                        if by_password { "c40/password-bound-ldap-search-differs-from-native-anonymous-search" } else { "c40/ldap-search-differs-from-native-anonymous-search" },
                                        json!({"connection": log, "query": query_json(&q), "differences(first=ldap,second=native)": answer_diff(got, &want),
                                               "ldap_answer": answer_json(got), "native_answer": answer_json(&want),
                                               "explanation": "an anonymous LDAP search and the native search_ext of the anonymous read-only identity for the same filter/base disagree"}),
                                    );
                                }
                            }
                            Err(_) => acc.count("native.refused(not judged)"),
                        }
                    }
                }
            }
            2 => {
                let p = rng.pick(&world.persons);
                let (atype, val) = match rng.below(4) {
                    0 => ("name", p.name.clone()),
                    1 => ("legalname", p.legalname.clone()),
                    2 => ("class", "person".to_string()),
                    _ => ("displayname", "nope".to_string()),
                };
                // the entry named by the compare: a person, a group, an application, or builtin
                // entries most binds cannot see
                let (tname, tuuid): (String, Option<Uuid>) = match rng.below(8) {
                    0..=2 => (p.name.clone(), Some(p.uuid)),
                    3 => {
                        let g = rng.pick(&world.groups);
                        (g.1.clone(), Some(g.0))
                    }
                    4 if !world.apps.is_empty() => (rng.pick(&world.apps).name.clone(), None),
                    5 => ("idm_admin".to_string(), None),
                    6 => ("idm_acp_people_manage".to_string(), None),
                    _ => (p.name.clone(), Some(p.uuid)),
                };
                let dn = match (tuuid, rng.bool()) {
                    (Some(u), true) => format!("uuid={u},{BASEDN}"),
                    _ => format!("name={tname},{BASEDN}"),
                };
                let r = gateway(world, &uat, compare_msg(&dn, atype, &val)).await;
                match r {
                    Reply::Msgs(m) | Reply::BindMsgs(_, m) => {
                        let code = normalise(&m).map(|x| x.1).unwrap_or_else(|e| e);
                        acc.count(&format!("compare.{code}"));
                        log.push(json!({"op": "compare", "dn": dn, "attr": atype, "result": code}));
                        // no more privileged than the bind: an entry the same session cannot find by
                        // a search must look exactly like an entry that does not exist
                        if code == "CompareTrue" || code == "CompareFalse" {
                            let smsg = LdapMsg {
                                msgid: 5,
                                op: LdapOp::SearchRequest(LdapSearchRequest {
                                    base: dn.clone(),
                                    scope: LdapSearchScope::Base,
                                    aliases: LdapDerefAliases::Never,
                                    sizelimit: 0,
                                    timelimit: 0,
                                    typesonly: false,
                                    filter: LdapFilter::Present("objectclass".to_string()),
                                    attrs: vec!["1.1".to_string()],
                                }),
                                ctrl: vec![],
                            };
                            if let Reply::Msgs(sm) | Reply::BindMsgs(_, sm) = gateway(world, &uat, smsg).await {
                                match normalise(&sm) {
                                    Ok((ans, _)) if ans.is_empty() => {
                                        acc.violation(
                                            "c40/compare-answers-for-entry-the-bind-cannot-find",
                                            json!({"connection_log": log, "compare": {"dn": dn, "attr": atype, "result": code},
                                                   "explanation": "the same session's search on that DN returns nothing, yet compare answered true/false instead of noSuchObject: the gateway discloses the existence of an entry the bound identity cannot read"}),
                                        );
                                    }
                                    Ok(_) => acc.count("compare.answered_for_visible_entry"),
                                    Err(_) => acc.count("compare.visibility_search_refused(not judged)"),
                                }
                            }
                        } else if code == "NoSuchObject" {
                            acc.count("compare.no_such_object");
                        }
                    }
                    _ => acc.count("compare.other_reply"),
                }
            }
            3 => {
                let msg = LdapMsg {
                    msgid: 4,
                    op: LdapOp::ExtendedRequest(LdapExtendedRequest {
                        name: "1.3.6.1.4.1.4203.1.11.3".into(),
                        value: None,
                    }),
                    ctrl: vec![],
                };
                if let Reply::Msgs(_) = gateway(world, &uat, msg).await {
                    acc.count("whoami");
                    log.push(json!({"op": "whoami"}));
                }
            }
            4 => {
                let msg = LdapMsg { msgid: 5, op: LdapOp::UnbindRequest, ctrl: vec![] };
                if let Reply::Unbind = gateway(world, &uat, msg).await {
                    acc.count("unbind");
                    log.push(json!({"op": "unbind"}));
                    uat = None;
                }
            }
            _ => {
                had_write_type = true;
                let (msg, kind) = write_type_msg(rng, world);
                match gateway(world, &uat, msg).await {
                    Reply::RefusedAtDecode => {
                        acc.count(&format!("write_type.{kind}.refused_at_decode"));
                        log.push(json!({"op": kind, "result": "refused (ServerOps::try_from) -> gateway disconnects"}));
                        // the real gateway drops the connection now
                        uat = None;
                    }
                    Reply::Bind(t, _) => {
                        acc.count(&format!("write_type.{kind}.bound"));
                        log.push(json!({"op": kind, "result": "bound"}));
                        uat = Some(t);
                    }
                    _ => {
                        acc.count(&format!("write_type.{kind}.answered"));
                        log.push(json!({"op": kind, "result": "answered by the LDAP server"}));
                    }
                }
            }
        }
    }
    // read-only-ness
    let after = world.sim.dump().await;
    acc.eval();
    if before != after {
        let diff = before.diff(&after);
        crate::sim::violation(acc, 
            "c40/ldap-operation-changed-directory",
            json!({"connection": log, "dump_diff": diff, "explanation": "the directory dump differs before and after an LDAP connection"}),
        );
    } else {
        acc.count("dump_unchanged_after_connection");
        if had_write_type {
            acc.count("dump_unchanged_after_connection.with_write_type_op");
        }
    }
    if had_bind_ok || had_write_type {
        acc.nontrivial(&serde_json::to_string(&log).unwrap_or_default());
    }
    if acc.samples.len() < 5 && had_bind_ok && had_write_type {
        acc.sample(json!({"connection": log}));
    }
    Ok(())
}

/// After a successful password bind: the same requests with the new token and an anonymous one.
async fn battery(world: &World, acc: &mut Acc, rng: &mut Rng, tok: &LdapBoundToken, pi: usize, kind: &str, log: &[Json]) {
    let Some(anon) = anon_token(world).await else {
        acc.count("battery.no_anonymous_token");
        return;
    };
    let me = &world.persons[pi];
    let own = Query {
        base: format!("name={},{BASEDN}", me.name),
        scope: LdapSearchScope::Base,
        filter: F::Pres("class"),
        attrs: if rng.bool() { vec![] } else { vec!["*".into(), "+".into()] },
    };
    same_answers(world, acc, tok, &anon, search_msg(&own), query_json(&own), log, kind).await;
    let admins = Query {
        base: BASEDN.into(),
        scope: LdapSearchScope::Subtree,
        filter: F::Or(vec![F::Class("account".into()), F::Name("idm_admins".into()), F::Pres("legalname")]),
        attrs: vec!["name".into(), "legalname".into(), "mail".into(), "member".into(), "memberof".into(), "unix_password".into(), "uuid".into()],
    };
    if rng.chance(1, 3) {
        same_answers(world, acc, tok, &anon, search_msg(&admins), query_json(&admins), log, kind).await;
    }
    for _ in 0..2 {
        let q = gen_query(rng, world);
        same_answers(world, acc, tok, &anon, search_msg(&q), query_json(&q), log, kind).await;
    }
    let dn = format!("name={},{BASEDN}", me.name);
    same_answers(
        world,
        acc,
        tok,
        &anon,
        compare_msg(&dn, "legalname", &me.legalname),
        json!({"compare": dn, "attr": "legalname"}),
        log,
        kind,
    )
    .await;
}

/// Positive control for the battery: the account itself (native, read-write identity) reads more
/// of its own entry than anonymous does, so "answers equal to anonymous'" is a discriminating test.
async fn control_self_sees_more(world: &World, acc: &mut Acc) {
    let p = &world.persons[0];
    let Ok(mut r) = world.sim.idms.proxy_read().await else { return };
    let filter = Filter::new(f_eq(Attribute::Uuid, PartialValue::Uuid(p.uuid)));
    let mut seen = Vec::new();
    for who in [p.uuid, UUID_ANONYMOUS] {
        let Ok(e) = r.qs_read.internal_search_uuid(who) else { return };
        let ident = Identity::from_impersonate_entry_readwrite(e).project_with_scope(AccessScope::ReadOnly);
        let Ok(se) = SearchEvent::from_internal_message(ident, &filter, None, &mut r.qs_read) else { return };
        let Ok(res) = r.qs_read.search_ext(&se) else { return };
        let attrs: BTreeSet<String> = res
            .first()
            .map(|e| e.get_ava_names().map(|a| a.to_string()).collect())
            .unwrap_or_default();
        seen.push(attrs);
    }
    if seen.len() == 2 && seen[0].len() > seen[1].len() && seen[1].is_subset(&seen[0]) {
        acc.count("control.self_reads_more_than_anonymous");
        acc.observe("attrs_only_self_reads", &format!("{:?}", seen[0].difference(&seen[1]).collect::<Vec<_>>()));
    }
}

pub fn run(args: Args) {
    let args = crate::sim::args_from_replay(args);
    crate::sim::watchdog(&args, if args.tier == kvcore::Tier::Thorough { 3600 } else { 900 });
    let mut run = Run::new(
        args.clone(),
        "exploration",
        "random LDAP connections (2-7 operations: binds with random dn forms and right/wrong/empty/foreign secrets for posix, application, token, anonymous and junk targets; searches; compares; whoami; unbind; add/modify/delete/modifydn/extended/abandon/sasl-bind messages) under the three settings of ldap_allow_unix_pw_bind; non-trivial = connection with a successful bind or a write-type operation (distinct by its log), plus every distinct anonymous query with a non-empty native answer",
    );
    run.assume("the gateway is ServerOps::try_from followed by LdapServer::do_op, as in server/core handle_ldaprequest; a message ServerOps refuses never reaches kanidm");
    run.assume("LdapServer reads the wall clock itself; nothing judged depends on it");
    run.assume("the native reference answer is search_ext by the anonymous entry's read-only identity rendered by Entry::to_ldap; filters and bases are translated by the harness, not by kanidm");
    let thorough = args.tier == kvcore::Tier::Thorough;
    let conns_per_worker: u64 = if thorough { 5000 } else { 500 };
    let seed = args.seed;
    run.parallel(args.workers, |w, _n| {
        let mut acc = Acc::new();
        let mut rng = Rng::new(kvcore::rng::mix(seed, w as u64, 40));
        let rt = kvcore::srv::rt();
        rt.block_on(async {
            let mut world: Option<World> = None;
            for _ in 0..conns_per_worker {
                if world.as_ref().map(|x| x.conns >= 250).unwrap_or(true) {
                    world = match new_world(&mut rng, w).await {
                        Ok(x) => Some(x),
                        Err(e) => {
                            acc.inconclusive(&format!("cannot build world: {e}"));
                            return;
                        }
                    };
                    if let Some(wd) = world.as_ref() {
                        control_self_sees_more(wd, &mut acc).await;
                    }
                }
                if let Some(wd) = world.as_mut() {
                    if let Err(e) = run_connection(wd, &mut acc, &mut rng).await {
                        acc.inconclusive(&format!("harness error: {e}"));
                        world = None;
                    }
                }
            }
        });
        acc
    });
    for (c, why) in [
        ("bind.posix.ok", "no POSIX bind ever succeeded"),
        ("bind.application.ok", "no application bind ever succeeded"),
        ("bind.token.ok", "no token bind ever succeeded"),
        ("bind.anonymous.ok", "no anonymous bind ever succeeded"),
        ("posix_bind.ok.flag_true", "no POSIX bind with the flag explicitly true"),
        ("posix_bind.ok.flag_absent", "no POSIX bind with the flag absent"),
        ("control.posix_bind_right_secret_refused_while_disabled", "never saw a right-secret POSIX bind refused while disabled"),
        ("control.app_bind_right_secret_refused_for_non_member", "never saw a non-member application bind refused"),
        ("app_bind.ok.member", "no member application bind"),
        ("battery.compared.nonempty", "bound-vs-anonymous comparison never had content"),
        ("native.compared.nonempty", "ldap-vs-native comparison never had content"),
        ("native.compared.password_bound_session", "ldap-vs-native comparison never ran on a password-bound session"),
        ("control.self_reads_more_than_anonymous", "the account's own rights are not larger than anonymous': the comparison would not discriminate"),
        ("dump_unchanged_after_connection.with_write_type_op", "no write-type operation was ever sent"),
        ("search.ok", "no search succeeded"),
        ("whoami", "no whoami"),
        ("unbind", "no unbind"),
    ] {
        let ok = run.acc.get(c) > 0;
        run.require(ok, why);
    }
    for kind in ["add", "modify", "delete", "modifydn", "extended-passwd-modify", "extended-starttls", "abandon", "sasl-bind"] {
        let n = run.acc.counters.iter().filter(|(k, _)| k.starts_with(&format!("write_type.{kind}."))).map(|(_, v)| *v).sum::<u64>();
        run.require(n > 0, &format!("write-type operation {kind} never sent"));
    }
    let anomalies = run.acc.get("anomaly.bind_ok_with_wrong_secret") + run.acc.get("anomaly.junk_bind_ok");
    run.require(anomalies == 0, "a bind succeeded that the harness model cannot explain (wrong secret or junk dn); not judged under C40, see samples");
    let compares = run.acc.counters.iter().filter(|(k, _)| k.starts_with("compare.")).map(|(_, v)| *v).sum::<u64>();
    run.require(compares > 0, "no compare");
    run.finish();
}
