//! C31 Weak or badlisted passwords can never be set.
//!
//! Oracle (necessary conditions on accepted requests, judged from the request, its result and the
//! directory dump only): after any password-setting request that returned Ok (for session paths:
//! set + commit both Ok) the password that is now stored (cleartext known, verified against the
//! stored hash) has length >= the account's effective minimum, <= the maximum, and its lower-cased
//! form is not in the stored system badlist. After any Err the stored credentials are unchanged.
//!
//! The effective minimum is recomputed by the harness from the dump: strictest
//! `auth_password_minimum_length` over the account's groups of class account_policy (default 10),
//! raised to 15 when the strictest `credential_type_minimum` over those groups does not require MFA
//! (restating idm/accountpolicy.rs fold_from and its NIST comment); maximum 128.
//! Length unit: grapheme clusters (what `check_password_quality` documents: `utf8_len`). Where bytes
//! and graphemes disagree about a bound the case is counted and only judged in graphemes for the
//! session paths; for the direct POSIX path (which documents bytes) only cases that are too short in
//! *both* units are judged.

use crate::sim::{self, Sim};
use kanidmd_lib::idm::credupdatesession::CredentialUpdateSessionToken;
use kanidmd_lib::idm::event::UnixPasswordChangeEvent;
use kanidmd_lib::prelude::*;
use kanidmd_lib::value::CredentialType;
use kvcore::srv::{dump_attrs, dump_classes, dump_strs, Dump};
use kvcore::{Acc, Args, Rng, Run};
use serde_json::{json, Value as Json};
use unicode_segmentation::UnicodeSegmentation;

const PW_MAX: usize = 128;
const PW_MFA_MIN: usize = 10;
const PW_SFA_MIN: usize = 15;

#[derive(Clone, Copy, Debug, PartialEq, Eq)]
enum Path {
    /// credential update session, primary password, account without MFA
    SessionPrimary,
    /// credential update session, primary password while a TOTP is (or gets) registered
    SessionPrimaryMfa,
    /// credential update session, unix password
    SessionUnix,
    /// set_unix_account_password (UnixPasswordChangeEvent)
    PosixDirect,
    /// recover_account(name, Some(cleartext)) - counted, never judged
    Recover,
}

impl Path {
    fn name(&self) -> &'static str {
        match self {
            Path::SessionPrimary => "session-primary",
            Path::SessionPrimaryMfa => "session-primary-mfa",
            Path::SessionUnix => "session-unix",
            Path::PosixDirect => "posix",
            Path::Recover => "recover",
        }
    }
}

// ---------------------------------------------------------------- reference model of the policy

#[derive(Debug, Clone, PartialEq, Eq)]
struct Effective {
    min: usize,
    max: usize,
    mfa_required: bool,
    /// (group name, auth_password_minimum_length, credential_type_minimum) of every policy group
    groups: Vec<(String, Option<u64>, Option<u64>)>,
}

fn attr_u64(e: &Json, attr: &str) -> Option<u64> {
    let a = dump_attrs(e)?.get(attr)?;
    // {"UI":[n]} / {"CT":[n]}
    a.as_object()?.values().next()?.as_array()?.first()?.as_u64()
}

fn effective_policy(d: &Dump, account: Uuid) -> Option<Effective> {
    let e = d.entries.get(&account)?;
    let mut min = PW_MFA_MIN as u64;
    let mut cred = 0u64;
    let mut groups = Vec::new();
    for g in dump_strs(e, "memberof") {
        let Ok(gu) = Uuid::parse_str(&g) else { continue };
        let Some(ge) = d.entries.get(&gu) else { continue };
        if !dump_classes(ge).iter().any(|c| c == "account_policy") {
            continue;
        }
        let m = attr_u64(ge, "auth_password_minimum_length").unwrap_or(PW_MFA_MIN as u64);
        min = min.max(m);
        let c = attr_u64(ge, "credential_type_minimum").unwrap_or(0);
        cred = cred.max(c);
        groups.push((
            dump_strs(ge, "name").first().cloned().unwrap_or_default(),
            attr_u64(ge, "auth_password_minimum_length"),
            attr_u64(ge, "credential_type_minimum"),
        ));
    }
    let mfa_required = cred >= 10;
    if !mfa_required && min < PW_SFA_MIN as u64 {
        min = PW_SFA_MIN as u64;
    }
    Some(Effective {
        min: min as usize,
        max: PW_MAX,
        mfa_required,
        groups,
    })
}

fn badlist(d: &Dump) -> std::collections::BTreeSet<String> {
    d.entries
        .get(&UUID_SYSTEM_CONFIG)
        .map(|e| dump_strs(e, "badlist_password").into_iter().map(|s| s.to_lowercase()).collect())
        .unwrap_or_default()
}

// ---------------------------------------------------------------- candidate passwords

const ASCII: &[&str] = &[
    "a", "b", "c", "d", "e", "f", "g", "h", "j", "k", "m", "n", "p", "q", "r", "s", "t", "u", "v", "w",
    "x", "y", "z", "2", "3", "4", "5", "6", "7", "8", "9", "K", "Q", "Z", "%", "+",
];
// one grapheme each, more than one byte
const MULTI: &[&str] = &[
    "é", "ü", "ñ", "ø", "ж", "д", "я", "λ", "ω", "日", "本", "語", "鍵", "한", "글", "😍", "🦀", "🔑",
];
// one grapheme each, base + combining marks (2..3 chars)
const COMBINING: &[&str] = &[
    "e\u{301}", "a\u{308}", "o\u{302}\u{323}", "n\u{303}", "u\u{30a}", "z\u{30c}", "q\u{307}", "k\u{331}",
];

fn gen_units(rng: &mut Rng, graphemes: usize, mode: u64) -> String {
    let mut s = String::new();
    for _ in 0..graphemes {
        let u = match mode {
            0 => *rng.pick(ASCII),
            1 => {
                if rng.chance(1, 2) {
                    *rng.pick(MULTI)
                } else {
                    *rng.pick(ASCII)
                }
            }
            2 => {
                if rng.chance(2, 3) {
                    *rng.pick(COMBINING)
                } else {
                    *rng.pick(ASCII)
                }
            }
            _ => match rng.below(3) {
                0 => *rng.pick(MULTI),
                1 => *rng.pick(COMBINING),
                _ => *rng.pick(ASCII),
            },
        };
        s.push_str(u);
    }
    s
}

fn gen_mode(rng: &mut Rng, g: usize) -> String {
    let m = rng.below(4);
    let s = gen_units(rng, g, m);
    // libs/crypto refuses to *verify* cleartexts above 512 bytes (PW_MAX_LENGTH_CHECK), so such a
    // password could be stored but never checked again; that is outside C31: stay below it
    if s.len() > 500 {
        return gen_units(rng, g, 0);
    }
    s
}

fn graphemes(s: &str) -> usize {
    s.graphemes(true).count()
}

/// flip the case of letters whose case mapping is one-to-one
fn random_case(rng: &mut Rng, s: &str) -> String {
    s.chars()
        .map(|c| {
            if !rng.chance(1, 2) {
                return c;
            }
            let mut up = c.to_uppercase();
            match (up.next(), up.next()) {
                (Some(u), None) if u.to_lowercase().eq(std::iter::once(c)) => u,
                _ => c,
            }
        })
        .collect()
}

fn my_badlist_entries(rng: &mut Rng) -> Vec<String> {
    let mut v = Vec::new();
    for i in 0..8 {
        let len = [11usize, 16, 17, 22, 30, 41, 15, 24][i];
        let mode = [0u64, 0, 1, 0, 1, 0, 1, 0][i];
        // lower-case letters only where case folding is simple
        let mut s = String::new();
        while graphemes(&s) < len {
            let u = if mode == 1 && rng.chance(1, 3) {
                *rng.pick(&["é", "ü", "ñ", "ж", "д", "я", "λ", "ω"])
            } else {
                *rng.pick(&ASCII[..30])
            };
            s.push_str(u);
        }
        v.push(s);
    }
    v
}

// ---------------------------------------------------------------- world

struct Account {
    uuid: Uuid,
    name: String,
    groups: Vec<Uuid>,
    primary_pw: String,
    unix_pw: Option<String>,
    has_totp: bool,
}

struct World {
    sim: Sim,
    made: u64,
    my_badlist: Vec<String>,
    all_persons_mfa: bool,
}

async fn new_world(rng: &mut Rng) -> Result<World, String> {
    let sim = Sim::new().await?;
    let my_badlist = my_badlist_entries(rng);
    let all_persons_mfa = rng.chance(1, 2);
    let bl = my_badlist.clone();
    sim.write(|w| {
        let ml = ModifyList::new_list(
            bl.iter()
                .map(|s| Modify::Present(Attribute::BadlistPassword, Value::new_iutf8(s)))
                .collect(),
        );
        w.qs_write.internal_modify_uuid(UUID_SYSTEM_CONFIG, &ml)?;
        if !all_persons_mfa {
            w.qs_write.internal_modify_uuid(
                UUID_IDM_ALL_PERSONS,
                &ModifyList::new_purge(Attribute::CredentialTypeMinimum),
            )?;
        }
        Ok(())
    })
    .await
    .map_err(|e| format!("world setup: {e:?}"))?;
    Ok(World {
        sim,
        made: 0,
        my_badlist,
        all_persons_mfa,
    })
}

fn strong_pw(rng: &mut Rng, tag: &str) -> String {
    format!("{tag} {}", gen_units(rng, 44, 0))
}

/// create 1..3 policy groups and a posix person in them; give it valid initial credentials
async fn new_account(world: &mut World, rng: &mut Rng, id: u64) -> Result<Account, String> {
    let sim = &mut world.sim;
    sim.tick(Duration::from_secs(1));
    let uuid = rng.uuid();
    let name = format!("c31p{id}");
    let ng = rng.range(1, 3) as usize;
    let mut groups = Vec::new();
    let mut ents = Vec::new();
    let mut any_mfa = world.all_persons_mfa;
    for gi in 0..ng {
        let gu = rng.uuid();
        let mut g = sim::group(&format!("c31g{id}x{gi}"), gu, &[uuid]);
        // some groups carry no policy at all
        if rng.chance(5, 6) {
            g.add_ava(Attribute::Class, EntryClass::AccountPolicy.to_value());
            if rng.chance(4, 5) {
                let m = *rng.pick(&[8u32, 10, 11, 12, 14, 15, 16, 17, 18, 20, 24, 31, 40]);
                g.add_ava(Attribute::AuthPasswordMinimumLength, Value::new_uint32(m));
            }
            match rng.below(4) {
                0 => {
                    g.add_ava(Attribute::CredentialTypeMinimum, Value::CredentialType(CredentialType::Any));
                }
                1 => {
                    g.add_ava(Attribute::CredentialTypeMinimum, Value::CredentialType(CredentialType::Mfa));
                    any_mfa = true;
                }
                _ => {}
            }
        }
        groups.push(gu);
        ents.push(g);
    }
    ents.push(sim::person(&name, uuid, true));
    sim.write(|w| w.qs_write.internal_create(ents))
        .await
        .map_err(|e| format!("create account: {e:?}"))?;

    // initial credentials that satisfy any policy: 48+ graphemes, TOTP iff MFA is required
    let primary_pw = strong_pw(rng, "init-primary");
    let unix_pw = strong_pw(rng, "init-unix");
    let cust = sim::self_session(sim, uuid).await.map_err(|e| format!("self session: {e:?}"))?;
    {
        let cu = sim.idms.cred_update_transaction().await.map_err(|e| format!("{e:?}"))?;
        cu.credential_primary_set_password(&cust, sim.ct, &primary_pw)
            .map_err(|e| format!("initial primary: {e:?}"))?;
        cu.credential_unix_set_password(&cust, sim.ct, &unix_pw)
            .map_err(|e| format!("initial unix: {e:?}"))?;
    }
    if any_mfa {
        sim::session_add_totp(sim, &cust).await?;
    }
    let ct = sim.ct;
    sim.write(|w| w.commit_credential_update(&cust, ct))
        .await
        .map_err(|e| format!("initial commit: {e:?}"))?;
    Ok(Account {
        uuid,
        name,
        groups,
        primary_pw,
        unix_pw: Some(unix_pw),
        has_totp: any_mfa,
    })
}

struct Candidate {
    pw: String,
    kind: &'static str,
}

fn gen_candidate(rng: &mut Rng, eff: &Effective, my_badlist: &[String]) -> Candidate {
    match rng.weighted(&[30, 8, 14, 10, 6]) {
        0 => {
            // around the minimum, in graphemes
            let g = (eff.min as i64 + *rng.pick(&[-2i64, -1, -1, 0, 0, 0, 1, 2])).max(1) as usize;
            Candidate { pw: gen_mode(rng, g), kind: "near-min" }
        }
        1 => {
            // around the fixed NIST numbers whatever the policy says
            let g = *rng.pick(&[9usize, 10, 11, 14, 15, 16]);
            Candidate { pw: gen_mode(rng, g), kind: "near-nist" }
        }
        2 => {
            let g = *rng.pick(&[126usize, 127, 128, 128, 129, 130, 64, 100]);
            Candidate { pw: gen_mode(rng, g), kind: "near-max" }
        }
        3 => {
            let b = rng.pick(my_badlist).clone();
            Candidate { pw: random_case(rng, &b), kind: "badlisted" }
        }
        _ => {
            let g = rng.range(12, 60) as usize;
            Candidate { pw: gen_mode(rng, g), kind: "random" }
        }
    }
}

fn cred_json(d: &Dump, uuid: Uuid) -> (Option<Json>, Option<Json>) {
    let a = d.entries.get(&uuid).and_then(dump_attrs);
    (
        a.and_then(|a| a.get("primary_credential").cloned()),
        a.and_then(|a| a.get("unix_password").cloned()),
    )
}

fn fb_class(e: &OperationError) -> String {
    match e {
        OperationError::PasswordQuality(v) => {
            let s = format!("{v:?}");
            if s.contains("TooShort") {
                "PasswordQuality.TooShort".into()
            } else if s.contains("TooLong") {
                "PasswordQuality.TooLong".into()
            } else if s.contains("BadListed") {
                "PasswordQuality.BadListed".into()
            } else {
                "PasswordQuality.Weak".into()
            }
        }
        e => sim::err_class(e),
    }
}

/// Drive one password-setting request. Ok(()) = the whole request was accepted.
async fn attempt(
    world: &mut World,
    acct: &Account,
    path: Path,
    pw: &str,
    steps: &mut Vec<String>,
) -> Result<Result<(), String>, String> {
    let sim = &mut world.sim;
    sim.tick(Duration::from_secs(3));
    let ct = sim.ct;
    match path {
        Path::SessionPrimary | Path::SessionPrimaryMfa | Path::SessionUnix => {
            let cust: CredentialUpdateSessionToken = match sim::self_session(sim, acct.uuid).await {
                Ok(c) => c,
                Err(e) => return Err(format!("cannot open session: {e:?}")),
            };
            let r = {
                let cu = sim.idms.cred_update_transaction().await.map_err(|e| format!("{e:?}"))?;
                if path == Path::SessionUnix {
                    cu.credential_unix_set_password(&cust, ct, pw).map(|_| ())
                } else {
                    cu.credential_primary_set_password(&cust, ct, pw).map(|_| ())
                }
            };
            if let Err(e) = r {
                steps.push(format!("set_password -> {}", fb_class(&e)));
                // abandon the session the way a client does
                let _ = sim.write(|w| w.cancel_credential_update(&cust, ct)).await;
                return Ok(Err(fb_class(&e)));
            }
            steps.push("set_password -> Ok".into());
            if path == Path::SessionPrimaryMfa && !acct.has_totp {
                match sim::session_add_totp(sim, &cust).await {
                    Ok(()) => steps.push("add_totp -> Ok".into()),
                    Err(e) => return Err(format!("totp registration failed: {e}")),
                }
            }
            match sim.write(|w| w.commit_credential_update(&cust, ct)).await {
                Ok(()) => {
                    steps.push("commit -> Ok".into());
                    Ok(Ok(()))
                }
                Err(e) => {
                    steps.push(format!("commit -> {}", sim::err_class(&e)));
                    Ok(Err(format!("commit.{}", sim::err_class(&e))))
                }
            }
        }
        Path::PosixDirect => {
            let target = acct.uuid;
            let r = sim
                .write(|w| {
                    let ident = sim::ident_rw(&mut w.qs_write, target)?;
                    w.set_unix_account_password(&UnixPasswordChangeEvent {
                        ident,
                        target,
                        cleartext: pw.to_string(),
                    })
                })
                .await;
            match r {
                Ok(()) => {
                    steps.push("set_unix_account_password -> Ok".into());
                    Ok(Ok(()))
                }
                Err(e) => {
                    steps.push(format!("set_unix_account_password -> {}", fb_class(&e)));
                    Ok(Err(fb_class(&e)))
                }
            }
        }
        Path::Recover => {
            let name = acct.name.clone();
            let r = sim.write(|w| w.recover_account(&name, Some(pw))).await;
            match r {
                Ok(_) => {
                    steps.push("recover_account -> Ok".into());
                    Ok(Ok(()))
                }
                Err(e) => {
                    steps.push(format!("recover_account -> {}", sim::err_class(&e)));
                    Ok(Err(sim::err_class(&e)))
                }
            }
        }
    }
}

async fn run_account(world: &mut World, acc: &mut Acc, rng: &mut Rng, id: u64, attempts: usize) -> Result<(), String> {
    let mut acct = new_account(world, rng, id).await?;
    world.made += 1;
    for _ in 0..attempts {
        // occasionally the administrator changes a policy between requests
        if rng.chance(1, 6) {
            let g = *rng.pick(&acct.groups);
            let m = *rng.pick(&[10u32, 12, 16, 19, 25, 33]);
            world.sim.tick(Duration::from_secs(1));
            let r = world
                .sim
                .write(|w| {
                    w.qs_write.internal_modify_uuid(
                        g,
                        &ModifyList::new_list(vec![
                            Modify::Present(Attribute::Class, EntryClass::AccountPolicy.to_value()),
                            Modify::Purged(Attribute::AuthPasswordMinimumLength),
                            Modify::Present(Attribute::AuthPasswordMinimumLength, Value::new_uint32(m)),
                        ]),
                    )
                })
                .await;
            if r.is_ok() {
                acc.count("policy_changed_between_requests");
            }
        }
        let before = world.sim.dump().await;
        let Some(eff) = effective_policy(&before, acct.uuid) else {
            return Err("account missing from dump".into());
        };
        let bl = badlist(&before);
        let path = match rng.weighted(&[30, 18, 18, 30, 4]) {
            0 => Path::SessionPrimary,
            1 => Path::SessionPrimaryMfa,
            2 => Path::SessionUnix,
            3 => Path::PosixDirect,
            _ => Path::Recover,
        };
        if path == Path::Recover && acct.has_totp {
            // recover_account replaces the credential with a generated-password-only one; keep
            // the model of the account simple: only drive it on accounts without TOTP
            continue;
        }
        let cand = gen_candidate(rng, &eff, &world.my_badlist);
        let pw = cand.pw.clone();
        let g = graphemes(&pw);
        let b = pw.len();
        let chars = pw.chars().count();
        let listed = bl.contains(&pw.to_lowercase());
        let (prim_before, unix_before) = cred_json(&before, acct.uuid);

        let mut steps = Vec::new();
        let res = attempt(world, &acct, path, &pw, &mut steps).await?;
        let after = world.sim.dump().await;
        let (prim_after, unix_after) = cred_json(&after, acct.uuid);
        acc.eval();
        acc.count(&format!("path.{}", path.name()));
        let unit_disagree_min = (g < eff.min) != (b < eff.min);
        let unit_disagree_max = (g > eff.max) != (b > eff.max);
        if unit_disagree_min {
            acc.count("unit_disagree.min(bytes_vs_graphemes)");
        }
        if unit_disagree_max {
            acc.count("unit_disagree.max(bytes_vs_graphemes)");
        }
        let near = g + 2 >= eff.min && g <= eff.min + 2 || (126..=130).contains(&g) || listed || unit_disagree_min || unit_disagree_max;
        let case = json!({
            "path": path.name(),
            "effective_policy": {"min": eff.min, "max": eff.max, "mfa_required": eff.mfa_required,
                "policy_groups(name,auth_password_minimum_length,credential_type_minimum)": format!("{:?}", eff.groups)},
            "password": pw, "graphemes": g, "bytes": b, "chars": chars, "kind": cand.kind,
            "badlisted_ignoring_case": listed,
            "steps": steps,
            "result": match &res { Ok(()) => "Ok".to_string(), Err(e) => e.clone() },
        });
        if near {
            acc.nontrivial(&format!(
                "{}|{}|{}|{}|{}|{}|{}|{:?}",
                path.name(), eff.min, eff.mfa_required, g, b, cand.kind, listed, res.is_ok()
            ));
        }
        match &res {
            Ok(()) => {
                acc.count(&format!("{}.ok", path.name()));
                // what is stored now?
                let (attr, stored_changed) = match path {
                    Path::SessionPrimary | Path::SessionPrimaryMfa | Path::Recover => {
                        (Attribute::PrimaryCredential, prim_after != prim_before)
                    }
                    _ => (Attribute::UnixPassword, unix_after != unix_before),
                };
                let ver = world.sim.stored_password_verifies(acct.uuid, attr, &pw).await;
                if ver != Some(true) {
                    acc.count("ok.stored_does_not_verify");
                    acc.inconclusive(&format!("accepted request but stored credential does not verify the cleartext ({ver:?}, changed={stored_changed}) path={}", path.name()));
                    continue;
                }
                if path == Path::Recover {
                    // never judged: test/bootstrap-only entry point for caller-chosen passwords
                    if g < eff.min || g > eff.max || listed {
                        acc.count("recover.ok.would_fail_policy(not judged)");
                    }
                    acct.primary_pw = pw.clone();
                    continue;
                }
                acc.count("ok.stored_verifies_cleartext");
                if g == eff.min {
                    acc.count("control.accepted_at_exact_minimum");
                }
                if g == eff.max {
                    acc.count("control.accepted_at_exact_maximum");
                }
                let posix = path == Path::PosixDirect;
                if g < eff.min {
                    if posix && b >= eff.min {
                        acc.count("posix.ok.short_in_graphemes_only(not judged)");
                    } else {
                        let sig = if posix {
                            "c31/posix-password-shorter-than-policy-minimum".to_string()
                        } else {
                            format!("c31/{}-password-shorter-than-policy-minimum", path.name())
                        };
                        crate::sim::violation(acc, &sig, json!({"case": case, "explanation": format!("request accepted and password stored although it has {g} graphemes / {b} bytes and the account's effective minimum is {}", eff.min)}));
                    }
                }
                if g > eff.max {
                    crate::sim::violation(acc, 
                        &format!("c31/{}-password-longer-than-maximum", path.name()),
                        json!({"case": case, "explanation": format!("request accepted although the password has {g} graphemes and the maximum is {}", eff.max)}),
                    );
                }
                if listed {
                    crate::sim::violation(acc, 
                        &format!("c31/{}-badlisted-password-stored", path.name()),
                        json!({"case": case, "explanation": "request accepted although the lower-cased password is in the stored badlist"}),
                    );
                }
                match path {
                    Path::SessionPrimary | Path::SessionPrimaryMfa => {
                        acct.primary_pw = pw.clone();
                        if path == Path::SessionPrimaryMfa {
                            acct.has_totp = true;
                        }
                    }
                    _ => acct.unix_pw = Some(pw.clone()),
                }
            }
            Err(cls) => {
                acc.count(&format!("{}.err.{cls}", path.name()));
                if cls.contains("TooShort") && g < eff.min {
                    acc.count("control.refused_too_short");
                    if g + 1 == eff.min {
                        acc.count("control.refused_at_minimum_minus_one");
                    }
                }
                if cls.contains("TooLong") {
                    acc.count("control.refused_too_long");
                }
                if listed && cls.contains("BadListed") {
                    acc.count("control.refused_badlisted");
                }
                // refused => nothing stored
                if prim_after != prim_before || unix_after != unix_before {
                    crate::sim::violation(acc, 
                        &format!("c31/{}-refused-but-credential-changed", path.name()),
                        json!({"case": case, "explanation": "request returned an error but the stored credential attributes differ from before"}),
                    );
                } else {
                    acc.count("err.credentials_unchanged");
                }
                // and the old passwords still work
                let p = world.sim.stored_password_verifies(acct.uuid, Attribute::PrimaryCredential, &acct.primary_pw).await;
                let u = match &acct.unix_pw {
                    Some(x) => world.sim.stored_password_verifies(acct.uuid, Attribute::UnixPassword, x).await,
                    None => Some(true),
                };
                if p == Some(true) && u == Some(true) {
                    acc.count("err.old_passwords_still_verify");
                } else {
                    crate::sim::violation(acc, 
                        &format!("c31/{}-refused-but-credential-changed", path.name()),
                        json!({"case": case, "explanation": format!("after the refused request the previous passwords no longer verify (primary {p:?}, unix {u:?})")}),
                    );
                }
            }
        }
        if acc.samples.len() < 6 && near && rng.chance(1, 40) {
            acc.sample(case);
        }
    }
    Ok(())
}

pub fn run(args: Args) {
    let args = crate::sim::args_from_replay(args);
    crate::sim::watchdog(&args, if args.tier == kvcore::Tier::Thorough { 3600 } else { 900 });
    let mut run = Run::new(
        args.clone(),
        "exploration",
        "random account policies (1-3 groups, minimum lengths 8..40 or absent, credential type any/mfa/absent, default all-persons policy kept or removed) x request path (session primary, session primary with TOTP, session unix, set_unix_account_password, recover_account) x candidate password (grapheme length around the effective minimum / NIST constants / maximum, ascii / multi-byte / combining, badlist members in random case); non-trivial = length within 2 of a bound, or badlisted, or bytes and graphemes disagree about a bound; distinct by (path, effective minimum, mfa, graphemes, bytes, kind, listed, accepted)",
    );
    run.assume("the effective minimum is the strictest auth_password_minimum_length over the account's account_policy groups (default 10), raised to 15 when MFA is not required; maximum 128; lengths are judged in grapheme clusters");
    run.assume("recover_account(name, Some(password)) is only reachable from the integration-test bootstrap of the server binary; it is driven and counted but not judged");
    run.assume("for set_unix_account_password only passwords too short in bytes and in graphemes are judged (the code documents bytes there)");
    let thorough = args.tier == kvcore::Tier::Thorough;
    let accounts_per_worker: u64 = if thorough { 500 } else { 40 };
    let attempts = 8usize;
    let seed = args.seed;
    run.parallel(args.workers, |w, _n| {
        let mut acc = Acc::new();
        let mut rng = Rng::new(kvcore::rng::mix(seed, w as u64, 31));
        let rt = kvcore::srv::rt();
        rt.block_on(async {
            let mut world: Option<World> = None;
            for i in 0..accounts_per_worker {
                if world.as_ref().map(|x| x.made >= 60).unwrap_or(true) {
                    world = match new_world(&mut rng).await {
                        Ok(x) => Some(x),
                        Err(e) => {
                            acc.inconclusive(&format!("cannot build server: {e}"));
                            return;
                        }
                    };
                }
                if let Some(wd) = world.as_mut() {
                    if let Err(e) = run_account(wd, &mut acc, &mut rng, (w as u64) << 32 | i, attempts).await {
                        acc.count("harness_error");
                        if acc.get("harness_error") > 5 {
                            acc.inconclusive(&format!("harness error: {e}"));
                        }
                        world = None;
                    }
                }
            }
        });
        acc
    });
    for (c, why) in [
        ("session-primary.ok", "no password-only session request was ever accepted"),
        ("session-primary-mfa.ok", "no session request with TOTP was ever accepted"),
        ("session-unix.ok", "no session unix password request was ever accepted"),
        ("posix.ok", "no direct POSIX password change was ever accepted"),
        ("control.refused_too_short", "no request was ever refused as too short"),
        ("control.refused_at_minimum_minus_one", "never refused exactly one below the minimum"),
        ("control.accepted_at_exact_minimum", "never accepted exactly at the minimum"),
        ("control.refused_too_long", "no request was ever refused as too long"),
        ("control.refused_badlisted", "no badlisted password was ever refused as badlisted"),
        ("unit_disagree.min(bytes_vs_graphemes)", "no case where bytes and graphemes disagree about the minimum"),
        ("err.old_passwords_still_verify", "refusals never checked"),
    ] {
        let ok = run.acc.get(c) > 0;
        run.require(ok, why);
    }
    let nt = run.acc.nontrivial_total();
    run.require(nt >= if thorough { 5000 } else { 1000 }, "too few distinct non-trivial cases");
    run.finish();
}
