//! Building real kanidm servers (in-memory or file backed) with simulated time, and dumping
//! their complete stored state as plain JSON for the monitors.

use kanidm_proto::internal::FsType;
use kanidmd_lib::be::{Backend, BackendConfig};
use kanidmd_lib::prelude::*;
use kanidmd_lib::schema::Schema;
use serde_json::Value as Json;
use std::collections::BTreeMap;
use std::path::Path;

/// Simulated start of time for every history: 2025-01-01T00:00:00Z as a duration from epoch.
pub const T0: Duration = Duration::from_secs(1_735_689_600);

pub fn rt() -> tokio::runtime::Runtime {
    tokio::runtime::Builder::new_current_thread()
        .enable_all()
        .build()
        .expect("tokio runtime")
}

/// A fresh server. `path = None` is a private in-memory database (pool 1).
pub async fn mk_server_at(
    path: Option<&Path>,
    pool: u32,
    arcsize: Option<usize>,
    ct: Duration,
    level: u32,
) -> Result<QueryServer, OperationError> {
    let schema = Schema::new()?;
    let idxmeta = {
        let w = schema.write();
        w.reload_idxmeta()
    };
    let pool = if path.is_none() { 1 } else { pool };
    let be = Backend::new(
        BackendConfig::new(path, pool, FsType::Generic, arcsize),
        idxmeta,
        false,
    )?;
    let qs = QueryServer::new(be, schema, "example.com".to_string(), Duration::ZERO)?;
    qs.initialise_helper(ct, level).await?;
    Ok(qs)
}

pub async fn mk_server(path: Option<&Path>, pool: u32, arcsize: Option<usize>) -> QueryServer {
    mk_server_at(path, pool, arcsize, T0, DOMAIN_TGT_LEVEL)
        .await
        .expect("server init")
}

pub async fn mk_mem_server() -> QueryServer {
    mk_server(None, 1, Some(2048)).await
}

/// Full dump of one replica: every entry (live, recycled, conflict, tombstone) keyed by uuid.
#[derive(Clone, Debug, PartialEq)]
pub struct Dump {
    pub entries: BTreeMap<Uuid, Json>,
}

/// attrs of a dumped entry: attribute name -> storage-encoded value set
pub fn dump_attrs(e: &Json) -> Option<&serde_json::Map<String, Json>> {
    e.get("ent")?.get("V3")?.get("attrs")?.as_object()
}

pub fn dump_changestate(e: &Json) -> Option<&Json> {
    e.get("ent")?.get("V3")?.get("changestate")
}

impl Dump {
    pub fn diff(&self, other: &Dump) -> Vec<String> {
        let mut out = Vec::new();
        for (u, e) in &self.entries {
            match other.entries.get(u) {
                None => out.push(format!("{u}: only in left")),
                Some(o) if o != e => {
                    let mut d = format!("{u}: differs");
                    if let (Some(a), Some(b)) = (dump_attrs(e), dump_attrs(o)) {
                        let mut keys: Vec<&String> = a.keys().chain(b.keys()).collect();
                        keys.sort();
                        keys.dedup();
                        for k in keys {
                            if a.get(k) != b.get(k) {
                                d.push_str(&format!(
                                    " [{k}: {} vs {}]",
                                    a.get(k).map(|v| v.to_string()).unwrap_or("-".into()),
                                    b.get(k).map(|v| v.to_string()).unwrap_or("-".into())
                                ));
                            }
                        }
                    }
                    if dump_changestate(e) != dump_changestate(o) {
                        d.push_str(" [changestate]");
                    }
                    if d.len() > 1500 {
                        d.truncate(1500);
                    }
                    out.push(d);
                }
                _ => {}
            }
        }
        for u in other.entries.keys() {
            if !self.entries.contains_key(u) {
                out.push(format!("{u}: only in right"));
            }
        }
        out
    }
}

pub fn dump_entries(es: &[std::sync::Arc<kanidmd_lib::entry::EntrySealedCommitted>]) -> Dump {
    let mut entries = BTreeMap::new();
    for e in es {
        let j = serde_json::to_value(e.to_dbentry()).unwrap_or(Json::Null);
        entries.insert(e.get_uuid(), j);
    }
    Dump { entries }
}

pub async fn dump(qs: &QueryServer) -> Dump {
    let mut r = qs.read().await.expect("read txn");
    let es = r
        .internal_search(filter_all!(f_pres(Attribute::Class)))
        .expect("dump search");
    dump_entries(&es)
}

/// The class list of a dumped entry (storage form is a list of strings for Iutf8).
pub fn dump_classes(e: &Json) -> Vec<String> {
    dump_strs(e, "class")
}

/// Best-effort string values of an attribute in a dump (for Iutf8/Iname/Utf8/Refer/Uuid style
/// encodings, which serialise as a tagged list of strings).
pub fn dump_strs(e: &Json, attr: &str) -> Vec<String> {
    let mut out = Vec::new();
    if let Some(a) = dump_attrs(e).and_then(|m| m.get(attr)) {
        collect_strs(a, &mut out, 0);
    }
    out
}

fn collect_strs(v: &Json, out: &mut Vec<String>, depth: usize) {
    if depth > 4 {
        return;
    }
    match v {
        Json::String(s) => out.push(s.clone()),
        Json::Array(a) => a.iter().for_each(|x| collect_strs(x, out, depth + 1)),
        Json::Object(m) => m.values().for_each(|x| collect_strs(x, out, depth + 1)),
        _ => {}
    }
}

pub fn is_tombstone(e: &Json) -> bool {
    dump_classes(e).iter().any(|c| c == "tombstone")
}
pub fn is_recycled(e: &Json) -> bool {
    dump_classes(e).iter().any(|c| c == "recycled")
}
pub fn is_conflict(e: &Json) -> bool {
    dump_classes(e).iter().any(|c| c == "conflict")
}
pub fn is_live(e: &Json) -> bool {
    let c = dump_classes(e);
    !c.iter()
        .any(|c| c == "tombstone" || c == "recycled" || c == "conflict")
}
