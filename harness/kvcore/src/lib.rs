//! Shared core of the kanidm runtime-monitoring harness.
#[macro_use]
extern crate kanidmd_lib;

pub mod rng;
pub mod run;
pub mod srv;

pub use rng::Rng;
pub use run::{parse_args, Acc, Args, Run, Scratch, Tier};
