//! One check run: accumulates what was observed, judges, writes evidence, exits.
//!
//! Verdicts are three valued: held (exit 0), violated (exit 1 + VIOLATION line), inconclusive
//! (exit 2 + INCONCLUSIVE line, never a VIOLATION line).

use crate::rng::hash_str;
use serde_json::{json, Map, Value};
use std::collections::{BTreeMap, BTreeSet};
use std::path::PathBuf;
use std::time::Instant;

#[derive(Clone, Copy, Debug, PartialEq, Eq)]
pub enum Tier {
    Quick,
    Thorough,
}

impl Tier {
    pub fn name(&self) -> &'static str {
        match self {
            Tier::Quick => "quick",
            Tier::Thorough => "thorough",
        }
    }
    /// pick by tier
    pub fn pick<T>(&self, quick: T, thorough: T) -> T {
        match self {
            Tier::Quick => quick,
            Tier::Thorough => thorough,
        }
    }
}

#[derive(Clone, Debug)]
pub struct Args {
    pub prop: String,
    pub tier: Tier,
    pub seed: u64,
    pub replay: Option<PathBuf>,
    pub workers: usize,
    pub rest: Vec<String>,
}

pub fn verif_root() -> PathBuf {
    std::env::var("VERIF_ROOT")
        .map(PathBuf::from)
        .unwrap_or_else(|_| PathBuf::from("/verif"))
}

/// `<bin> <PROP> [--tier quick|thorough] [--seed N] [--replay FILE] [--workers N] [rest..]`
pub fn parse_args() -> Args {
    let mut it = std::env::args().skip(1);
    let prop = it.next().unwrap_or_default();
    let mut tier = match std::env::var("VERIF_TIER").as_deref() {
        Ok("thorough") => Tier::Thorough,
        _ => Tier::Quick,
    };
    let mut seed: u64 = std::env::var("VERIF_SEED")
        .ok()
        .and_then(|s| s.trim().parse().ok())
        .unwrap_or(1);
    let mut replay = None;
    let mut workers = std::thread::available_parallelism()
        .map(|n| n.get())
        .unwrap_or(4)
        .min(16);
    let mut rest = Vec::new();
    while let Some(a) = it.next() {
        match a.as_str() {
            "--tier" => {
                tier = match it.next().as_deref() {
                    Some("thorough") => Tier::Thorough,
                    _ => Tier::Quick,
                }
            }
            "--seed" => seed = it.next().and_then(|s| s.parse().ok()).unwrap_or(seed),
            "--replay" => replay = it.next().map(PathBuf::from),
            "--workers" => workers = it.next().and_then(|s| s.parse().ok()).unwrap_or(workers),
            _ => rest.push(a),
        }
    }
    Args {
        prop,
        tier,
        seed,
        replay,
        workers,
        rest,
    }
}

#[derive(Clone, Debug)]
pub struct Violation {
    /// cause-class signature computed by the monitor (matched against known_findings.json)
    pub signature: String,
    /// witness: engine input / history and the oracle's explanation
    pub detail: Value,
}

/// Mergeable accumulator: one per worker, merged into the run.
#[derive(Default, Clone, Debug)]
pub struct Acc {
    pub evaluations: u64,
    pub nontrivial: BTreeSet<u64>,
    /// non-trivial cases that are distinct by construction (enumeration index), counted not hashed
    pub nontrivial_enum: u64,
    pub samples: Vec<Value>,
    pub counters: BTreeMap<String, u64>,
    pub sets: BTreeMap<String, BTreeSet<String>>,
    pub violations: Vec<Violation>,
    pub inconclusive: Vec<String>,
}

impl Acc {
    pub fn new() -> Self {
        Self::default()
    }
    pub fn eval(&mut self) {
        self.evaluations += 1;
    }
    pub fn evals(&mut self, n: u64) {
        self.evaluations += n;
    }
    /// record a distinct non-trivial case by its normalised description
    pub fn nontrivial(&mut self, key: &str) {
        self.nontrivial.insert(hash_str(key));
    }
    /// a non-trivial case known distinct from every other by construction (exhaustive enumeration)
    pub fn nontrivial_distinct(&mut self) {
        self.nontrivial_enum += 1;
    }
    pub fn nontrivial_total(&self) -> u64 {
        self.nontrivial.len() as u64 + self.nontrivial_enum
    }
    pub fn nontrivial_hash(&mut self, h: u64) {
        self.nontrivial.insert(h);
    }
    pub fn sample(&mut self, v: Value) {
        if self.samples.len() < 6 {
            self.samples.push(v);
        }
    }
    pub fn count(&mut self, key: &str) {
        *self.counters.entry(key.to_string()).or_insert(0) += 1;
    }
    pub fn count_n(&mut self, key: &str, n: u64) {
        *self.counters.entry(key.to_string()).or_insert(0) += n;
    }
    /// remember a distinct observed thing (state, interleaving, op kind ...) under a named set
    pub fn observe(&mut self, set: &str, item: &str) {
        let s = self.sets.entry(set.to_string()).or_default();
        if s.len() < 100_000 {
            s.insert(item.to_string());
        }
    }
    pub fn violation(&mut self, signature: &str, detail: Value) {
        // keep a few witnesses per signature so that a frequent finding can never crowd a
        // different one out of the run
        self.count(&format!("witnesses.{signature}"));
        let have = self.violations.iter().filter(|v| v.signature == signature).count();
        if have < 3 && self.violations.len() < 600 {
            self.violations.push(Violation {
                signature: signature.to_string(),
                detail,
            });
        }
    }
    pub fn inconclusive(&mut self, reason: &str) {
        if self.inconclusive.len() < 20 {
            self.inconclusive.push(reason.to_string());
        }
    }
    pub fn get(&self, key: &str) -> u64 {
        self.counters.get(key).copied().unwrap_or(0)
    }
    pub fn merge(&mut self, o: Acc) {
        self.evaluations += o.evaluations;
        self.nontrivial.extend(o.nontrivial);
        self.nontrivial_enum += o.nontrivial_enum;
        for s in o.samples {
            if self.samples.len() < 8 {
                self.samples.push(s);
            }
        }
        for (k, v) in o.counters {
            *self.counters.entry(k).or_insert(0) += v;
        }
        for (k, v) in o.sets {
            self.sets.entry(k).or_default().extend(v);
        }
        for v in o.violations {
            let have = self.violations.iter().filter(|x| x.signature == v.signature).count();
            if have < 3 && self.violations.len() < 2000 {
                self.violations.push(v);
            }
        }
        self.inconclusive.extend(o.inconclusive);
    }
}

pub struct Run {
    pub args: Args,
    pub level: &'static str,
    pub rule: String,
    pub assumptions: Vec<String>,
    pub exhaustive: Option<bool>,
    pub acc: Acc,
    pub extra: Map<String, Value>,
    start: Instant,
}

#[derive(Clone, Debug)]
struct Finding {
    property: String,
    status: String,
    signature: String,
    what: String,
}

fn load_findings() -> Vec<Finding> {
    let p = verif_root().join("known_findings.json");
    let Ok(s) = std::fs::read_to_string(&p) else {
        return Vec::new();
    };
    let Ok(v) = serde_json::from_str::<Value>(&s) else {
        return Vec::new();
    };
    v.get("findings")
        .and_then(|f| f.as_array())
        .map(|a| {
            a.iter()
                .map(|f| Finding {
                    property: f["property"].as_str().unwrap_or("").to_string(),
                    status: f["status"].as_str().unwrap_or("").to_string(),
                    signature: f["signature"].as_str().unwrap_or("").to_string(),
                    what: f["what"].as_str().unwrap_or("").to_string(),
                })
                .collect()
        })
        .unwrap_or_default()
}

impl Run {
    pub fn new(args: Args, level: &'static str, rule: &str) -> Self {
        Run {
            args,
            level,
            rule: rule.to_string(),
            assumptions: Vec::new(),
            exhaustive: None,
            acc: Acc::new(),
            extra: Map::new(),
            start: Instant::now(),
        }
    }

    pub fn assume(&mut self, s: &str) {
        self.assumptions.push(s.to_string());
    }

    pub fn extra(&mut self, k: &str, v: Value) {
        self.extra.insert(k.to_string(), v);
    }

    pub fn elapsed_s(&self) -> f64 {
        self.start.elapsed().as_secs_f64()
    }

    /// Observation threshold: if not met the run is inconclusive, never "held".
    pub fn require(&mut self, cond: bool, reason: &str) {
        if !cond {
            self.acc.inconclusive(reason);
        }
    }

    /// Run `f(worker_index, worker_count)` on `n` OS threads and merge the accumulators.
    pub fn parallel<F>(&mut self, n: usize, f: F)
    where
        F: Fn(usize, usize) -> Acc + Send + Sync,
    {
        let n = n.max(1);
        let accs: Vec<Acc> = std::thread::scope(|s| {
            let hs: Vec<_> = (0..n)
                .map(|w| {
                    let f = &f;
                    std::thread::Builder::new()
                        .stack_size(64 << 20)
                        .spawn_scoped(s, move || f(w, n))
                        .expect("spawn")
                })
                .collect();
            hs.into_iter()
                .enumerate()
                .map(|(w, h)| match h.join() {
                    Ok(a) => a,
                    Err(e) => {
                        let msg = e
                            .downcast_ref::<String>()
                            .cloned()
                            .or_else(|| e.downcast_ref::<&str>().map(|s| s.to_string()))
                            .unwrap_or_else(|| "panic".into());
                        let mut a = Acc::new();
                        a.inconclusive(&format!("worker {w} panicked in harness: {msg}"));
                        a
                    }
                })
                .collect()
        });
        for a in accs {
            self.acc.merge(a);
        }
    }

    /// Write evidence, print the verdict lines, exit.
    pub fn finish(mut self) -> ! {
        let prop = self.args.prop.clone();
        let root = verif_root();
        let findings = load_findings();
        let mut known_hit: BTreeMap<String, (String, u64)> = BTreeMap::new();
        let mut fresh: Vec<&Violation> = Vec::new();
        for v in &self.acc.violations {
            if let Some(f) = findings.iter().find(|f| {
                f.property == prop && f.status == "known" && f.signature == v.signature
            }) {
                let e = known_hit
                    .entry(f.signature.clone())
                    .or_insert((f.what.clone(), 0));
                e.1 += 1;
            } else {
                fresh.push(v);
            }
        }
        // replays for fresh violations (and the first hit of each known finding)
        let mut replay_paths = Vec::new();
        if !fresh.is_empty() {
            let dir = root.join("replays").join(&prop);
            let _ = std::fs::create_dir_all(&dir);
            let mut seen = BTreeSet::new();
            for (i, v) in fresh.iter().enumerate() {
                if !seen.insert(v.signature.clone()) && i >= 3 {
                    continue;
                }
                if replay_paths.len() >= 5 {
                    break;
                }
                let p = dir.join(format!(
                    "{}-{}-{}.json",
                    self.args.tier.name(),
                    self.args.seed,
                    i
                ));
                let body = json!({
                    "property": prop,
                    "tier": self.args.tier.name(),
                    "seed": self.args.seed,
                    "signature": v.signature,
                    "witness": v.detail,
                });
                let _ = std::fs::write(&p, serde_json::to_string_pretty(&body).unwrap_or_default());
                replay_paths.push((v.signature.clone(), p));
            }
        }

        let wall = self.start.elapsed().as_secs_f64();
        let mut cov = Map::new();
        cov.insert("evaluations".into(), json!(self.acc.evaluations));
        cov.insert(
            "distinct_nontrivial".into(),
            json!(self.acc.nontrivial_total()),
        );
        cov.insert("rule".into(), json!(self.rule));
        cov.insert("samples".into(), json!(self.acc.samples));
        if let Some(e) = self.exhaustive {
            cov.insert("exhaustive".into(), json!(e));
        }
        cov.insert("counters".into(), json!(self.acc.counters));
        let mut setsum = Map::new();
        for (k, v) in &self.acc.sets {
            let items: Vec<&String> = v.iter().take(40).collect();
            setsum.insert(k.clone(), json!({"distinct": v.len(), "first": items}));
        }
        cov.insert("observed_sets".into(), Value::Object(setsum));
        cov.insert(
            "known_findings_hit".into(),
            json!(known_hit
                .iter()
                .map(|(k, (w, n))| json!({"signature": k, "what": w, "witnesses": n}))
                .collect::<Vec<_>>()),
        );
        cov.insert(
            "fresh_violation_signatures".into(),
            json!(fresh.iter().map(|v| v.signature.clone()).collect::<BTreeSet<_>>()),
        );
        cov.insert("inconclusive_reasons".into(), json!(self.acc.inconclusive));
        for (k, v) in std::mem::take(&mut self.extra) {
            cov.insert(k, v);
        }
        let verdict = if !fresh.is_empty() {
            "violated"
        } else if !self.acc.inconclusive.is_empty() {
            "inconclusive"
        } else {
            "held"
        };
        cov.insert("verdict".into(), json!(verdict));
        let ev = json!({
            "property_id": prop,
            "tier": self.args.tier.name(),
            "seed": self.args.seed,
            "level": self.level,
            "coverage": Value::Object(cov),
            "assumptions": self.assumptions,
            "wall_s": wall,
            "violations": fresh.len(),
        });
        let evdir = root.join("evidence");
        let _ = std::fs::create_dir_all(&evdir);
        let tmp = evdir.join(format!("{prop}.json.tmp"));
        let dst = evdir.join(format!("{prop}.json"));
        if std::fs::write(&tmp, serde_json::to_string_pretty(&ev).unwrap_or_default()).is_ok() {
            let _ = std::fs::rename(&tmp, &dst);
        }

        println!(
            "SUMMARY property={} tier={} seed={} evaluations={} distinct_nontrivial={} wall_s={:.1} verdict={}",
            prop,
            self.args.tier.name(),
            self.args.seed,
            self.acc.evaluations,
            self.acc.nontrivial_total(),
            wall,
            verdict
        );
        for (k, v) in &self.acc.counters {
            println!("  counter {k} = {v}");
        }
        for (sig, (what, n)) in &known_hit {
            println!("KNOWN-FINDING: property={prop} {what} [signature={sig} witnesses={n}]");
        }
        if !fresh.is_empty() {
            for (sig, p) in &replay_paths {
                println!("VIOLATION property={} replay={} signature={}", prop, p.display(), sig);
            }
            std::process::exit(1);
        }
        if !self.acc.inconclusive.is_empty() {
            for r in &self.acc.inconclusive {
                println!("INCONCLUSIVE property={prop} reason={r}");
            }
            std::process::exit(2);
        }
        std::process::exit(0);
    }
}

/// Load a replay file's witness.
pub fn load_replay(p: &std::path::Path) -> Option<Value> {
    let s = std::fs::read_to_string(p).ok()?;
    let v: Value = serde_json::from_str(&s).ok()?;
    v.get("witness").cloned()
}

/// A scratch directory under $VERIF_ROOT/scratch, removed on drop.
pub struct Scratch(pub PathBuf);

impl Scratch {
    pub fn new(tag: &str) -> Self {
        let base = std::env::var("VERIF_SCRATCH")
            .map(PathBuf::from)
            .unwrap_or_else(|_| verif_root().join("scratch"));
        let p = base.join(format!(
            "{}-{}-{}",
            tag,
            std::process::id(),
            SCRATCH_SEQ.fetch_add(1, std::sync::atomic::Ordering::Relaxed)
        ));
        let _ = std::fs::remove_dir_all(&p);
        let _ = std::fs::create_dir_all(&p);
        Scratch(p)
    }
    pub fn path(&self) -> &std::path::Path {
        &self.0
    }
}

static SCRATCH_SEQ: std::sync::atomic::AtomicU64 = std::sync::atomic::AtomicU64::new(0);

impl Drop for Scratch {
    fn drop(&mut self) {
        let _ = std::fs::remove_dir_all(&self.0);
    }
}

thread_local! {
    static LAST_PANIC: std::cell::RefCell<Option<(String, String)>> = const { std::cell::RefCell::new(None) };
}

/// Install a panic hook that records (location, message) of the last panic on each thread and
/// stays quiet. Lets a runner tell a panic inside kanidm (`/repo/...`) from one in harness code.
pub fn install_panic_hook() {
    std::panic::set_hook(Box::new(|info| {
        let loc = info
            .location()
            .map(|l| format!("{}:{}", l.file(), l.line()))
            .unwrap_or_default();
        let msg = info
            .payload()
            .downcast_ref::<String>()
            .cloned()
            .or_else(|| info.payload().downcast_ref::<&str>().map(|s| s.to_string()))
            .unwrap_or_else(|| "panic".into());
        LAST_PANIC.with(|p| *p.borrow_mut() = Some((loc, msg)));
    }));
}

/// (location, message) of the last panic on this thread, cleared by the call.
pub fn take_last_panic() -> Option<(String, String)> {
    LAST_PANIC.with(|p| p.borrow_mut().take())
}

/// True if a panic location lies in kanidm's own sources.
pub fn panic_in_kanidm(loc: &str) -> bool {
    loc.starts_with("/repo/") || loc.contains("/repo/")
}
