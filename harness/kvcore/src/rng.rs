//! SplitMix64: tiny, deterministic, seedable. All random choices in the harness come from here.

#[derive(Clone, Debug)]
pub struct Rng(pub u64);

pub fn mix(a: u64, b: u64, c: u64) -> u64 {
    let mut r = Rng(a ^ b.wrapping_mul(0x9E37_79B9_7F4A_7C15) ^ c.wrapping_mul(0xC2B2_AE3D_27D4_EB4F));
    r.next();
    r.next()
}

impl Rng {
    pub fn new(seed: u64) -> Self {
        let mut r = Rng(seed ^ 0x5DEE_CE66_D1CE_4E5B);
        r.next();
        r
    }
    pub fn fork(&mut self, salt: u64) -> Rng {
        Rng::new(mix(self.next(), salt, 0x1234_5678))
    }
    #[allow(clippy::should_implement_trait)]
    pub fn next(&mut self) -> u64 {
        self.0 = self.0.wrapping_add(0x9E37_79B9_7F4A_7C15);
        let mut z = self.0;
        z = (z ^ (z >> 30)).wrapping_mul(0xBF58_476D_1CE4_E5B9);
        z = (z ^ (z >> 27)).wrapping_mul(0x94D0_49BB_1331_11EB);
        z ^ (z >> 31)
    }
    /// uniform in [0, n)
    pub fn below(&mut self, n: u64) -> u64 {
        if n == 0 {
            return 0;
        }
        self.next() % n
    }
    pub fn range(&mut self, lo: u64, hi_incl: u64) -> u64 {
        lo + self.below(hi_incl - lo + 1)
    }
    pub fn usize(&mut self, n: usize) -> usize {
        self.below(n as u64) as usize
    }
    pub fn bool(&mut self) -> bool {
        self.next() & 1 == 1
    }
    /// true with probability num/den
    pub fn chance(&mut self, num: u64, den: u64) -> bool {
        self.below(den) < num
    }
    pub fn pick<'a, T>(&mut self, xs: &'a [T]) -> &'a T {
        &xs[self.usize(xs.len())]
    }
    /// pick an index according to integer weights
    pub fn weighted(&mut self, ws: &[u32]) -> usize {
        let total: u64 = ws.iter().map(|w| *w as u64).sum();
        let mut x = self.below(total.max(1));
        for (i, w) in ws.iter().enumerate() {
            if x < *w as u64 {
                return i;
            }
            x -= *w as u64;
        }
        ws.len() - 1
    }
    pub fn shuffle<T>(&mut self, xs: &mut [T]) {
        for i in (1..xs.len()).rev() {
            let j = self.usize(i + 1);
            xs.swap(i, j);
        }
    }
    pub fn bytes(&mut self, n: usize) -> Vec<u8> {
        (0..n).map(|_| self.next() as u8).collect()
    }
    pub fn uuid(&mut self) -> uuid::Uuid {
        // Version-4 shaped, but fully determined by the stream.
        let mut b = [0u8; 16];
        b[..8].copy_from_slice(&self.next().to_le_bytes());
        b[8..].copy_from_slice(&self.next().to_le_bytes());
        b[6] = (b[6] & 0x0f) | 0x40;
        b[8] = (b[8] & 0x3f) | 0x80;
        // keep clear of the reserved system range (top bits all ones would be needed anyway)
        uuid::Uuid::from_bytes(b)
    }
}

pub fn fnv(data: &[u8]) -> u64 {
    let mut h: u64 = 0xcbf2_9ce4_8422_2325;
    for b in data {
        h ^= *b as u64;
        h = h.wrapping_mul(0x0000_0100_0000_01b3);
    }
    h
}

pub fn hash_str(s: &str) -> u64 {
    fnv(s.as_bytes())
}
