//! Driving the real server as a user: entry builders, access-control-profile builders, identities,
//! and one-operation-per-transaction helpers. Nothing in here judges anything.

use kanidmd_lib::entry::{Entry, EntryCommitted, EntryInit, EntryNew, EntrySealed};
use kanidmd_lib::event::ReviveRecycledEvent;
use kanidmd_lib::prelude::*;
use kanidmd_lib::schema::SchemaTransaction;
use kvcore::srv::{self, Dump};
use std::collections::{BTreeMap, BTreeSet};
use std::sync::Arc;

pub type EInit = Entry<EntryInit, EntryNew>;

/// First uuid of the dynamic range, restated from the property text ("reserved system range").
pub const DYN_MIN: u128 = 1u128 << 48;

pub fn is_reserved(u: Uuid) -> bool {
    u.as_u128() < DYN_MIN
}

pub fn class_v(c: &str) -> Value {
    Value::new_iutf8(c)
}

fn base(u: Option<Uuid>, classes: &[&str], name: &str) -> EInit {
    let mut e = EInit::new();
    for c in classes {
        e.add_ava(Attribute::Class, class_v(c));
    }
    if let Some(u) = u {
        e.add_ava(Attribute::Uuid, Value::Uuid(u));
    }
    e.add_ava(Attribute::Name, Value::new_iname(name));
    e
}

pub fn e_person(u: Option<Uuid>, name: &str) -> EInit {
    let mut e = base(u, &["object", "account", "person"], name);
    e.add_ava(Attribute::DisplayName, Value::new_utf8s(name));
    e
}

pub fn e_service_account(u: Option<Uuid>, name: &str, mgr: Option<Uuid>) -> EInit {
    let mut e = base(u, &["object", "account", "service_account"], name);
    e.add_ava(Attribute::DisplayName, Value::new_utf8s(name));
    if let Some(m) = mgr {
        e.add_ava(Attribute::EntryManagedBy, Value::Refer(m));
    }
    e
}

pub fn e_group(u: Option<Uuid>, name: &str, members: &[Uuid], mgr: Option<Uuid>) -> EInit {
    let mut e = base(u, &["object", "group"], name);
    for m in members {
        e.add_ava(Attribute::Member, Value::Refer(*m));
    }
    if let Some(m) = mgr {
        e.add_ava(Attribute::EntryManagedBy, Value::Refer(m));
    }
    e
}

pub fn e_oauth2(u: Uuid, name: &str, scope_groups: &[Uuid]) -> EInit {
    let mut e = base(
        Some(u),
        &["object", "account", "oauth2_resource_server", "oauth2_resource_server_basic"],
        name,
    );
    e.add_ava(Attribute::DisplayName, Value::new_utf8s(name));
    if let Some(v) = Value::new_url_s(&format!("https://{name}.example.com")) {
        e.add_ava(Attribute::OAuth2RsOriginLanding, v);
    }
    for g in scope_groups {
        if let Some(v) = Value::new_oauthscopemap(*g, BTreeSet::from(["openid".to_string()])) {
            e.add_ava(Attribute::OAuth2RsScopeMap, v);
        }
    }
    e
}

pub fn e_application(u: Uuid, name: &str, linked: Uuid) -> EInit {
    let mut e = base(Some(u), &["object", "account", "service_account", "application"], name);
    e.add_ava(Attribute::DisplayName, Value::new_utf8s(name));
    e.add_ava(Attribute::LinkedGroup, Value::Refer(linked));
    e
}

pub fn e_sync_account(u: Uuid, name: &str) -> EInit {
    let mut e = base(Some(u), &["object", "sync_account"], name);
    e.add_ava(Attribute::Description, Value::new_utf8s("sync agreement"));
    e
}

/// A person that is owned by a sync agreement.
pub fn e_sync_person(u: Uuid, name: &str, parent: Uuid) -> EInit {
    let mut e = base(Some(u), &["object", "account", "person", "sync_object"], name);
    e.add_ava(Attribute::DisplayName, Value::new_utf8s(name));
    e.add_ava(Attribute::SyncParentUuid, Value::Refer(parent));
    e
}

#[derive(Clone, Debug)]
pub enum Recv {
    Group(Vec<Uuid>),
    EntryManager,
    /// no receiver class at all (a profile that must do nothing)
    Nobody,
}

/// One access control profile as it will be stored.
#[derive(Clone, Debug)]
pub struct AcpSpec {
    pub uuid: Uuid,
    pub name: String,
    pub search: bool,
    pub modify: bool,
    pub create: bool,
    pub delete: bool,
    pub receiver: Recv,
    /// JSON text of the target filter; None = no target class (does nothing)
    pub target: Option<String>,
    pub search_attrs: Vec<String>,
    pub pres_attrs: Vec<String>,
    pub rem_attrs: Vec<String>,
    pub modify_class: Option<Vec<String>>,
    pub pres_class: Option<Vec<String>>,
    pub rem_class: Option<Vec<String>>,
    pub create_attrs: Vec<String>,
    pub create_classes: Vec<String>,
    pub enable: Option<bool>,
}

impl AcpSpec {
    pub fn blank(uuid: Uuid, name: &str) -> Self {
        AcpSpec {
            uuid,
            name: name.to_string(),
            search: false,
            modify: false,
            create: false,
            delete: false,
            receiver: Recv::Nobody,
            target: None,
            search_attrs: vec![],
            pres_attrs: vec![],
            rem_attrs: vec![],
            modify_class: None,
            pres_class: None,
            rem_class: None,
            create_attrs: vec![],
            create_classes: vec![],
            enable: None,
        }
    }

    pub fn describe(&self) -> serde_json::Value {
        serde_json::json!({
            "name": self.name, "search": self.search, "modify": self.modify, "create": self.create,
            "delete": self.delete, "receiver": format!("{:?}", self.receiver), "target": self.target,
            "search_attrs": self.search_attrs, "pres_attrs": self.pres_attrs, "rem_attrs": self.rem_attrs,
            "modify_class": self.modify_class, "pres_class": self.pres_class, "rem_class": self.rem_class,
            "create_attrs": self.create_attrs, "create_classes": self.create_classes, "enable": self.enable,
        })
    }
}

pub fn e_acp(s: &AcpSpec) -> Option<EInit> {
    let mut e = base(Some(s.uuid), &["object", "access_control_profile"], &s.name);
    if s.search {
        e.add_ava(Attribute::Class, class_v("access_control_search"));
        // the search class requires the attribute list to exist
        for a in &s.search_attrs {
            e.add_ava(Attribute::AcpSearchAttr, Value::new_iutf8(a));
        }
    }
    if s.modify {
        e.add_ava(Attribute::Class, class_v("access_control_modify"));
        for a in &s.pres_attrs {
            e.add_ava(Attribute::AcpModifyPresentAttr, Value::new_iutf8(a));
        }
        for a in &s.rem_attrs {
            e.add_ava(Attribute::AcpModifyRemovedAttr, Value::new_iutf8(a));
        }
        for c in s.modify_class.iter().flatten() {
            e.add_ava(Attribute::AcpModifyClass, Value::new_iutf8(c));
        }
        for c in s.pres_class.iter().flatten() {
            e.add_ava(Attribute::AcpModifyPresentClass, Value::new_iutf8(c));
        }
        for c in s.rem_class.iter().flatten() {
            e.add_ava(Attribute::AcpModifyRemoveClass, Value::new_iutf8(c));
        }
    }
    if s.create {
        e.add_ava(Attribute::Class, class_v("access_control_create"));
        for a in &s.create_attrs {
            e.add_ava(Attribute::AcpCreateAttr, Value::new_iutf8(a));
        }
        for c in &s.create_classes {
            e.add_ava(Attribute::AcpCreateClass, Value::new_iutf8(c));
        }
    }
    if s.delete {
        e.add_ava(Attribute::Class, class_v("access_control_delete"));
    }
    match &s.receiver {
        Recv::Group(gs) => {
            e.add_ava(Attribute::Class, class_v("access_control_receiver_group"));
            for g in gs {
                e.add_ava(Attribute::AcpReceiverGroup, Value::Refer(*g));
            }
        }
        Recv::EntryManager => {
            e.add_ava(
                Attribute::Class,
                class_v("access_control_receiver_entry_manager"),
            );
        }
        Recv::Nobody => {}
    }
    if let Some(t) = &s.target {
        e.add_ava(Attribute::Class, class_v("access_control_target_scope"));
        e.add_ava(Attribute::AcpTargetScope, Value::new_json_filter_s(t)?);
    }
    if let Some(en) = s.enable {
        e.add_ava(Attribute::AcpEnable, Value::Bool(en));
    }
    Some(e)
}

/// A profile that grants search, every modification, creation and deletion of everything to `group`.
pub fn grant_everything(uuid: Uuid, name: &str, group: Uuid, attrs: &[String], classes: &[String]) -> AcpSpec {
    let mut s = AcpSpec::blank(uuid, name);
    s.search = true;
    s.modify = true;
    s.create = true;
    s.delete = true;
    s.receiver = Recv::Group(vec![group]);
    s.target = Some("{\"pres\":\"class\"}".to_string());
    s.search_attrs = attrs.to_vec();
    s.pres_attrs = attrs.to_vec();
    s.rem_attrs = attrs.to_vec();
    s.modify_class = Some(classes.to_vec());
    s.create_attrs = attrs.to_vec();
    s.create_classes = classes.to_vec();
    s
}

#[derive(Clone, Copy, Debug, PartialEq, Eq, PartialOrd, Ord)]
pub enum Scope {
    ReadWrite,
    ReadOnly,
    Synchronise,
}

impl Scope {
    pub fn name(&self) -> &'static str {
        match self {
            Scope::ReadWrite => "rw",
            Scope::ReadOnly => "ro",
            Scope::Synchronise => "sync",
        }
    }
}

pub fn ident_from(entry: Arc<Entry<EntrySealed, EntryCommitted>>, scope: Scope) -> Identity {
    let i = Identity::from_impersonate_entry_readwrite(entry);
    match scope {
        Scope::ReadWrite => i,
        Scope::ReadOnly => i.project_with_scope(AccessScope::ReadOnly),
        Scope::Synchronise => i.project_with_scope(AccessScope::Synchronise),
    }
}

/// Result of one write operation run in its own transaction.
#[derive(Debug, Clone)]
pub struct OpOutcome {
    pub ok: bool,
    /// Debug form of the error (class only, no data)
    pub err: Option<String>,
    #[allow(dead_code)]
    pub committed: bool,
}

impl OpOutcome {
    pub fn err_class(&self) -> String {
        match &self.err {
            None => "ok".to_string(),
            Some(e) => e.split(['(', '{', ' ']).next().unwrap_or("err").to_string(),
        }
    }
}

pub struct Server {
    pub qs: QueryServer,
    pub ct: Duration,
}

impl Server {
    pub async fn new() -> Self {
        Server {
            qs: srv::mk_mem_server().await,
            ct: srv::T0 + Duration::from_secs(10),
        }
    }

    pub fn tick(&mut self) -> Duration {
        self.ct += Duration::from_secs(1);
        self.ct
    }

    pub async fn dump(&self) -> Dump {
        srv::dump(&self.qs).await
    }

    /// Internal (system) setup step: run `f` in a write transaction and commit.
    pub async fn setup<F>(&mut self, f: F) -> Result<(), OperationError>
    where
        F: FnOnce(&mut QueryServerWriteTransaction) -> Result<(), OperationError>,
    {
        let ct = self.tick();
        let mut w = self.qs.write(ct).await?;
        f(&mut w)?;
        w.commit()
    }

    /// Load the identity of `uuid` from the committed state.
    pub async fn ident(&self, uuid: Uuid, scope: Scope) -> Result<Identity, OperationError> {
        let mut r = self.qs.read().await?;
        let e = r.internal_search_uuid(uuid)?;
        Ok(ident_from(e, scope))
    }

    /// Run one user operation in its own write transaction: commit when it returns Ok, drop the
    /// transaction when it returns Err (what the server's request handlers do).
    pub async fn user_op<F>(&mut self, f: F) -> OpOutcome
    where
        F: FnOnce(&mut QueryServerWriteTransaction) -> Result<(), OperationError>,
    {
        let ct = self.tick();
        let mut w = match self.qs.write(ct).await {
            Ok(w) => w,
            Err(e) => {
                return OpOutcome {
                    ok: false,
                    err: Some(format!("harness-write-txn:{e:?}")),
                    committed: false,
                }
            }
        };
        match f(&mut w) {
            Ok(()) => match w.commit() {
                Ok(()) => OpOutcome {
                    ok: true,
                    err: None,
                    committed: true,
                },
                Err(e) => OpOutcome {
                    ok: false,
                    err: Some(format!("commit:{e:?}")),
                    committed: false,
                },
            },
            Err(e) => OpOutcome {
                ok: false,
                err: Some(format!("{e:?}")),
                committed: false,
            },
        }
    }
}

// ---- event construction exactly as the request front ends do it -------------------------------

pub fn ev_search(
    txn_schema: &dyn SchemaTransaction,
    ident: Identity,
    f: &Filter<FilterInvalid>,
    attrs: Option<BTreeSet<Attribute>>,
    recycle: bool,
) -> Result<SearchEvent, OperationError> {
    let v = f.validate(txn_schema).map_err(OperationError::SchemaViolation)?;
    let (filter, filter_orig) = if recycle {
        let fo = v.into_recycled();
        (fo.clone(), fo)
    } else {
        (v.clone().into_ignore_hidden(), v)
    };
    Ok(SearchEvent {
        ident,
        filter,
        filter_orig,
        attrs,
        effective_access_check: false,
    })
}

pub fn ev_exists(
    txn_schema: &dyn SchemaTransaction,
    ident: Identity,
    f: &Filter<FilterInvalid>,
) -> Result<ExistsEvent, OperationError> {
    let v = f.validate(txn_schema).map_err(OperationError::SchemaViolation)?;
    Ok(ExistsEvent {
        ident,
        filter: v.clone().into_ignore_hidden(),
        filter_orig: v,
    })
}

/// `raw = true` skips the hidden-entry wrapper (stronger than any front end allows; used only to
/// probe the protected-object rules of the access layer itself).
pub fn ev_modify(
    w: &QueryServerWriteTransaction,
    ident: Identity,
    f: &Filter<FilterInvalid>,
    ml: &ModifyList<ModifyInvalid>,
    raw: bool,
) -> Result<ModifyEvent, OperationError> {
    let v = f
        .validate(w.get_schema())
        .map_err(OperationError::SchemaViolation)?;
    let modlist = ml
        .validate(w.get_schema())
        .map_err(OperationError::SchemaViolation)?;
    let filter = if raw { v.clone() } else { v.clone().into_ignore_hidden() };
    Ok(ModifyEvent {
        ident,
        filter,
        filter_orig: v,
        modlist,
    })
}

pub fn ev_batch(
    w: &QueryServerWriteTransaction,
    ident: Identity,
    mods: &[(Uuid, ModifyList<ModifyInvalid>)],
) -> Result<BatchModifyEvent, OperationError> {
    let mut modset = BTreeMap::new();
    for (u, ml) in mods {
        let v = ml
            .validate(w.get_schema())
            .map_err(OperationError::SchemaViolation)?;
        modset.insert(*u, v);
    }
    Ok(BatchModifyEvent { ident, modset })
}

pub fn ev_delete(
    w: &QueryServerWriteTransaction,
    ident: Identity,
    f: &Filter<FilterInvalid>,
    raw: bool,
) -> Result<DeleteEvent, OperationError> {
    let v = f
        .validate(w.get_schema())
        .map_err(OperationError::SchemaViolation)?;
    let filter = if raw { v.clone() } else { v.clone().into_ignore_hidden() };
    Ok(DeleteEvent {
        ident,
        filter,
        filter_orig: v,
    })
}

pub fn ev_revive(
    w: &QueryServerWriteTransaction,
    ident: Identity,
    f: &Filter<FilterInvalid>,
) -> Result<ReviveRecycledEvent, OperationError> {
    let v = f
        .validate(w.get_schema())
        .map_err(OperationError::SchemaViolation)?;
    Ok(ReviveRecycledEvent {
        ident,
        filter: v.into_recycled(),
    })
}

pub fn ev_create(ident: Identity, entries: Vec<EInit>) -> CreateEvent {
    CreateEvent {
        ident,
        entries,
        return_created_uuids: false,
    }
}

pub fn f_uuid(u: Uuid) -> Filter<FilterInvalid> {
    filter_all!(f_eq(Attribute::Uuid, PartialValue::Uuid(u)))
}

pub fn f_uuids(us: &[Uuid]) -> Filter<FilterInvalid> {
    filter_all!(f_or(
        us.iter()
            .map(|u| f_eq(Attribute::Uuid, PartialValue::Uuid(*u)))
            .collect()
    ))
}

pub fn f_name(n: &str) -> Filter<FilterInvalid> {
    filter_all!(f_eq(Attribute::Name, PartialValue::new_iname(n)))
}

/// run a closure catching panics from kanidm code; Err(message) on panic
pub fn guarded<T>(f: impl FnOnce() -> T) -> Result<T, String> {
    std::panic::catch_unwind(std::panic::AssertUnwindSafe(f)).map_err(|e| {
        e.downcast_ref::<String>()
            .cloned()
            .or_else(|| e.downcast_ref::<&str>().map(|s| s.to_string()))
            .unwrap_or_else(|| "panic".into())
    })
}
