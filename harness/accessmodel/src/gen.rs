//! Random configurations for C23 / C24: a population of entries of every kind the access rules
//! distinguish, random memberships and entry managers, and random access control profiles on top of
//! the shipped ones.

use crate::model::MF;
use crate::sim::*;
use kanidmd_lib::prelude::*;
use kvcore::Rng;
use std::collections::BTreeMap;

pub const READ_ATTRS: [&str; 30] = [
    "class",
    "uuid",
    "name",
    "spn",
    "displayname",
    "description",
    "mail",
    "legalname",
    "member",
    "memberof",
    "directmemberof",
    "dynmember",
    "entry_managed_by",
    "account_expire",
    "account_valid_from",
    "oauth2_rs_scope_map",
    "oauth2_rs_origin_landing",
    "linked_group",
    "sync_credential_portal",
    "sync_parent_uuid",
    "acp_enable",
    "acp_search_attr",
    "acp_targetscope",
    "acp_receiver_group",
    "last_modified_cid",
    "created_at_cid",
    "gidnumber",
    "name_history",
    "acp_modify_presentattr",
    "dyngroup_filter",
];

pub const WRITE_ATTRS: [&str; 14] = [
    "class",
    "name",
    "displayname",
    "description",
    "mail",
    "legalname",
    "member",
    "entry_managed_by",
    "account_expire",
    "account_valid_from",
    "acp_enable",
    "acp_search_attr",
    "uuid",
    "gidnumber",
];

pub const CLASSES: [&str; 20] = [
    "object",
    "account",
    "person",
    "group",
    "service_account",
    "posixgroup",
    "posixaccount",
    "memberof",
    "recycled",
    "tombstone",
    "system",
    "dyngroup",
    "sync_object",
    "domain_info",
    "system_info",
    "system_config",
    "builtin",
    "access_control_profile",
    "access_control_search",
    "extensibleobject",
];

pub const U_ALL_PERSONS: Uuid = uuid!("00000000-0000-0000-0000-000000000035");
pub const U_ALL_ACCOUNTS: Uuid = uuid!("00000000-0000-0000-0000-000000000036");
pub const U_DOMAIN_INFO: Uuid = uuid!("00000000-0000-0000-0000-ffffff000025");
pub const U_SYSTEM_CONFIG: Uuid = uuid!("00000000-0000-0000-0000-ffffff000027");
pub const U_ADMIN: Uuid = uuid!("00000000-0000-0000-0000-000000000000");
pub const U_IDM_ADMINS: Uuid = uuid!("00000000-0000-0000-0000-000000000001");
pub const U_ACP_SELF_READ: Uuid = uuid!("00000000-0000-0000-0000-ffffff000004");

#[derive(Clone, Debug, Default)]
pub struct Pop {
    pub persons: Vec<Uuid>,
    pub sas: Vec<Uuid>,
    pub groups: Vec<Uuid>,
    pub oauth2: Vec<Uuid>,
    pub apps: Vec<Uuid>,
    pub sync_account: Option<Uuid>,
    pub sync_person: Option<Uuid>,
    pub recycled: Vec<Uuid>,
    pub tombstone: Option<Uuid>,
    pub acps: Vec<AcpSpec>,
    pub names: BTreeMap<Uuid, String>,
}

impl Pop {
    pub fn accounts(&self) -> Vec<Uuid> {
        let mut v = self.persons.clone();
        v.extend(self.sas.iter().copied());
        v
    }
    /// everything a random target / value may refer to
    pub fn anything(&self) -> Vec<Uuid> {
        let mut v = self.accounts();
        v.extend(self.groups.iter().copied());
        v.extend(self.oauth2.iter().copied());
        v.extend(self.apps.iter().copied());
        v.extend(self.sync_account.iter().copied());
        v.extend(self.sync_person.iter().copied());
        v.extend(self.recycled.iter().copied());
        v.extend(self.tombstone.iter().copied());
        v.extend(self.acps.iter().map(|a| a.uuid));
        v.extend([U_ALL_PERSONS, U_DOMAIN_INFO, U_SYSTEM_CONFIG, U_ADMIN, U_IDM_ADMINS, U_ACP_SELF_READ]);
        v
    }
    pub fn name(&self, u: Uuid) -> String {
        self.names.get(&u).cloned().unwrap_or_else(|| u.to_string())
    }
}

fn subset(rng: &mut Rng, xs: &[&str], min: usize, p_num: u64, p_den: u64) -> Vec<String> {
    let mut v: Vec<String> = xs
        .iter()
        .filter(|_| rng.chance(p_num, p_den))
        .map(|s| s.to_string())
        .collect();
    while v.len() < min {
        let c = rng.pick(xs).to_string();
        if !v.contains(&c) {
            v.push(c);
        }
    }
    v
}

/// a random target filter over the things that distinguish entries
pub fn gen_target(rng: &mut Rng, pop: &Pop, depth: u32) -> MF {
    let atom = |rng: &mut Rng| -> MF {
        match rng.below(12) {
            0..=3 => MF::Eq(
                "class".into(),
                rng.pick(&[
                    "person",
                    "account",
                    "group",
                    "service_account",
                    "object",
                    "recycled",
                    "tombstone",
                    "oauth2_resource_server",
                    "application",
                    "sync_account",
                    "access_control_profile",
                    "system",
                    "builtin",
                    "dyngroup",
                    "sync_object",
                    "domain_info",
                ])
                .to_string(),
            ),
            4 => MF::Eq("uuid".into(), rng.pick(&pop.anything()).to_string()),
            5 => MF::Eq(
                "memberof".into(),
                rng.pick(&[pop.groups.clone(), vec![U_ALL_PERSONS, U_ALL_ACCOUNTS]].concat())
                    .to_string(),
            ),
            6 => MF::Eq("name".into(), pop.name(*rng.pick(&pop.anything()))),
            7 => MF::Eq("entry_managed_by".into(), rng.pick(&pop.anything()).to_string()),
            8 => MF::Pres(
                rng.pick(&["class", "mail", "member", "entry_managed_by", "description", "legalname"])
                    .to_string(),
            ),
            9 => MF::SelfUuid,
            10 => MF::Cnt("name".into(), rng.pick(&["p", "g", "s", "1", "idm"]).to_string()),
            _ => MF::Pres("class".into()),
        }
    };
    if depth == 0 {
        return atom(rng);
    }
    match rng.below(10) {
        0..=3 => atom(rng),
        4 | 5 => MF::And(vec![gen_target(rng, pop, depth - 1), gen_target(rng, pop, depth - 1)]),
        6 => MF::Or(vec![gen_target(rng, pop, depth - 1), gen_target(rng, pop, depth - 1)]),
        7 | 8 => MF::And(vec![
            gen_target(rng, pop, depth - 1),
            MF::AndNot(Box::new(gen_target(rng, pop, depth - 1))),
        ]),
        _ => MF::AndNot(Box::new(atom(rng))),
    }
}

pub fn gen_acp(rng: &mut Rng, pop: &Pop, idx: usize) -> AcpSpec {
    let mut s = AcpSpec::blank(rng.uuid(), &format!("zacp{idx}"));
    // kinds
    loop {
        s.search = rng.chance(1, 2);
        s.modify = rng.chance(1, 2);
        s.create = rng.chance(1, 3);
        s.delete = rng.chance(1, 3);
        if s.search || s.modify || s.create || s.delete {
            break;
        }
    }
    let recv_pool: Vec<Uuid> = [pop.groups.clone(), vec![U_ALL_PERSONS, U_ALL_ACCOUNTS]].concat();
    s.receiver = match rng.below(20) {
        0 => Recv::Nobody,
        1..=5 => Recv::EntryManager,
        _ => {
            let mut g = vec![*rng.pick(&recv_pool)];
            if rng.chance(1, 3) {
                g.push(*rng.pick(&recv_pool));
            }
            Recv::Group(g)
        }
    };
    s.target = if rng.chance(1, 25) {
        None
    } else if rng.chance(1, 4) {
        Some("{\"pres\":\"class\"}".to_string())
    } else {
        Some(gen_target(rng, pop, 2).to_json().to_string())
    };
    let wide = rng.chance(1, 3);
    let (pn, pd) = if wide { (4, 5) } else { (1, 4) };
    s.search_attrs = subset(rng, &READ_ATTRS, 1, pn, pd);
    s.pres_attrs = subset(rng, &WRITE_ATTRS, 0, pn, pd);
    s.rem_attrs = subset(rng, &WRITE_ATTRS, 0, pn, pd);
    match rng.below(3) {
        0 => s.modify_class = Some(subset(rng, &CLASSES, 0, pn, pd)),
        1 => {
            s.pres_class = Some(subset(rng, &CLASSES, 0, pn, pd));
            s.rem_class = Some(subset(rng, &CLASSES, 0, pn, pd));
        }
        _ => {
            s.modify_class = Some(subset(rng, &CLASSES, 0, pn, pd));
            if rng.bool() {
                s.pres_class = Some(subset(rng, &CLASSES, 0, 1, 4));
            } else {
                s.rem_class = Some(subset(rng, &CLASSES, 0, 1, 4));
            }
        }
    }
    s.create_attrs = subset(rng, &WRITE_ATTRS, 0, pn.max(2), pd);
    s.create_classes = subset(rng, &CLASSES, 0, pn.max(2), pd);
    s.enable = match rng.below(10) {
        0 => Some(false),
        1 => Some(true),
        _ => None,
    };
    s
}

fn mail(name: &str, k: u32) -> Value {
    Value::new_email_address_s(&format!("{name}.{k}@gen.example.com"))
        .unwrap_or_else(|| Value::new_utf8s(name))
}

/// Build the population and profiles on a fresh server. Err = the configuration could not be set up
/// (counted by the caller, never judged).
pub async fn build(sv: &mut Server, rng: &mut Rng, n_acps: usize) -> Result<Pop, String> {
    let mut pop = Pop::default();
    for i in 0..6 {
        let u = rng.uuid();
        pop.persons.push(u);
        pop.names.insert(u, format!("p{i}"));
    }
    for i in 0..3 {
        let u = rng.uuid();
        pop.sas.push(u);
        pop.names.insert(u, format!("s{i}"));
    }
    for i in 0..6 {
        let u = rng.uuid();
        pop.groups.push(u);
        pop.names.insert(u, format!("g{i}"));
    }
    let mut batch: Vec<EInit> = Vec::new();
    for u in &pop.persons {
        let n = pop.name(*u);
        let mut e = e_person(Some(*u), &n);
        if rng.chance(1, 3) {
            // unix-enabled (what the default LDAP-facing profiles release)
            e.add_ava(Attribute::Class, class_v("posixaccount"));
        }
        if rng.chance(2, 3) {
            e.add_ava(Attribute::Mail, mail(&n, 0));
        }
        if rng.chance(1, 2) {
            e.add_ava(Attribute::LegalName, Value::new_utf8s(&format!("Legal {n}")));
        }
        if rng.chance(1, 2) {
            e.add_ava(Attribute::Description, Value::new_utf8s(&format!("about {n}")));
        }
        if rng.chance(1, 4) {
            let m = *rng.pick(&[pop.persons.clone(), pop.groups.clone()].concat());
            e.add_ava(Attribute::EntryManagedBy, Value::Refer(m));
        }
        batch.push(e);
    }
    for u in &pop.sas {
        let n = pop.name(*u);
        let mgr = if rng.chance(2, 3) {
            Some(*rng.pick(&[pop.persons.clone(), pop.groups.clone()].concat()))
        } else {
            None
        };
        let mut e = e_service_account(Some(*u), &n, mgr);
        if rng.chance(1, 2) {
            e.add_ava(Attribute::Mail, mail(&n, 0));
        }
        batch.push(e);
    }
    let member_pool: Vec<Uuid> = [pop.persons.clone(), pop.sas.clone(), pop.groups.clone()].concat();
    for u in &pop.groups {
        let n = pop.name(*u);
        let members: Vec<Uuid> = member_pool
            .iter()
            .filter(|m| *m != u && rng.chance(1, 4))
            .copied()
            .collect();
        let mgr = if rng.chance(1, 2) {
            Some(*rng.pick(&[pop.persons.clone(), pop.groups.clone(), pop.sas.clone()].concat()))
        } else {
            None
        };
        let mut e = e_group(Some(*u), &n, &members, mgr);
        if rng.chance(1, 3) {
            e.add_ava(Attribute::Class, class_v("posixgroup"));
        }
        if rng.chance(1, 3) {
            e.add_ava(Attribute::Description, Value::new_utf8s(&format!("group {n}")));
        }
        batch.push(e);
    }
    // the kinds with built-in visibility rules
    for i in 0..2 {
        let u = rng.uuid();
        pop.oauth2.push(u);
        let n = format!("o{i}");
        pop.names.insert(u, n.clone());
        let gs: Vec<Uuid> = pop.groups.iter().filter(|_| rng.chance(1, 3)).copied().collect();
        batch.push(e_oauth2(u, &n, &gs));
    }
    {
        let u = rng.uuid();
        pop.apps.push(u);
        pop.names.insert(u, "a0".into());
        batch.push(e_application(u, "a0", *rng.pick(&pop.groups)));
    }
    let sy = rng.uuid();
    pop.sync_account = Some(sy);
    pop.names.insert(sy, "sy0".into());
    let mut sye = e_sync_account(sy, "sy0");
    if let Some(v) = Value::new_url_s("https://portal.example.com/creds") {
        sye.add_ava(Attribute::SyncCredentialPortal, v);
    }
    batch.push(sye);
    let sp = rng.uuid();
    pop.sync_person = Some(sp);
    pop.names.insert(sp, "sp0".into());
    batch.push(e_sync_person(sp, "sp0", sy));
    // entries that will become tombstone / recycled
    let tt = rng.uuid();
    pop.names.insert(tt, "tt0".into());
    batch.push(e_person(Some(tt), "tt0"));
    let r0 = rng.uuid();
    let rg0 = rng.uuid();
    pop.names.insert(r0, "r0".into());
    pop.names.insert(rg0, "rg0".into());
    let mut r0e = e_person(Some(r0), "r0");
    r0e.add_ava(Attribute::Mail, mail("r0", 0));
    batch.push(r0e);
    batch.push(e_group(Some(rg0), "rg0", &[pop.persons[0]], Some(pop.persons[1])));

    sv.setup(|w| w.internal_create(batch))
        .await
        .map_err(|e| format!("population create: {e:?}"))?;

    // tombstone: delete, let the recycle bin age out, purge
    sv.setup(|w| w.internal_delete_uuid(tt))
        .await
        .map_err(|e| format!("delete tt0: {e:?}"))?;
    sv.ct += Duration::from_secs(8 * 86400);
    sv.setup(|w| w.purge_recycled().map(|_| ()))
        .await
        .map_err(|e| format!("purge_recycled: {e:?}"))?;
    pop.tombstone = Some(tt);
    sv.setup(|w| {
        w.internal_delete_uuid(r0)?;
        w.internal_delete_uuid(rg0)
    })
    .await
    .map_err(|e| format!("recycle: {e:?}"))?;
    pop.recycled = vec![r0, rg0];

    // profiles: random ones, each created in its own transaction so that one the server refuses
    // does not void the configuration
    for i in 0..n_acps {
        let spec = gen_acp(rng, &pop, i);
        let Some(e) = e_acp(&spec) else { continue };
        match sv.setup(|w| w.internal_create(vec![e])).await {
            Ok(()) => {
                pop.names.insert(spec.uuid, spec.name.clone());
                pop.acps.push(spec);
            }
            Err(_) => {}
        }
    }
    Ok(pop)
}

// ---- conversion of a model filter into a kanidm filter -------------------------------------------

pub fn pv_for(attr: &str, v: &str) -> PartialValue {
    match attr {
        "uuid" => Uuid::parse_str(v)
            .map(PartialValue::Uuid)
            .unwrap_or_else(|_| PartialValue::new_utf8s(v)),
        "member" | "memberof" | "directmemberof" | "dynmember" | "entry_managed_by" | "linked_group"
        | "sync_parent_uuid" | "acp_receiver_group" => Uuid::parse_str(v)
            .map(PartialValue::Refer)
            .unwrap_or_else(|_| PartialValue::new_utf8s(v)),
        "class" | "acp_search_attr" | "acp_modify_presentattr" => PartialValue::new_iutf8(v),
        "name" => PartialValue::new_iname(v),
        "mail" => PartialValue::new_email_address_s(v),
        "acp_enable" => PartialValue::new_bool(v == "true"),
        _ => PartialValue::new_utf8s(v),
    }
}

pub fn to_fc(f: &MF) -> FC {
    match f {
        MF::Eq(a, v) => f_eq(Attribute::from(a.as_str()), pv_for(a, v)),
        MF::Cnt(a, v) => f_sub(Attribute::from(a.as_str()), pv_for(a, v)),
        MF::Pres(a) => f_pres(Attribute::from(a.as_str())),
        MF::And(v) => f_and(v.iter().map(to_fc).collect()),
        MF::Or(v) => f_or(v.iter().map(to_fc).collect()),
        MF::AndNot(x) => f_andnot(to_fc(x)),
        MF::SelfUuid => f_self(),
        MF::Opaque => f_pres(Attribute::Class),
    }
}

pub fn to_filter(f: &MF) -> Filter<FilterInvalid> {
    Filter::new(to_fc(f))
}
