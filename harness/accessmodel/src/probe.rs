//! Developer probe (not a check): prints stored forms so the model parser can be written against facts.
use kvcore::srv;

fn gen_admin() -> uuid::Uuid { crate::gen::U_ADMIN }

pub fn run(args: kvcore::Args) {
    let rt = srv::rt();
    rt.block_on(async {
        let qs = srv::mk_mem_server().await;
        let d = srv::dump(&qs).await;
        let what = args.rest.first().cloned().unwrap_or_default();
        if what == "gen" {
            let mut sv = crate::sim::Server::new().await;
            let mut rng = kvcore::Rng::new(args.seed);
            let pop = crate::gen::build(&mut sv, &mut rng, 6).await;
            match pop {
                Err(e) => println!("build failed: {e}"),
                Ok(pop) => {
                    let d = sv.dump().await;
                    let w = crate::model::World::from_dump(&d);
                    println!("entries={} acps_model={} acps_created={}", w.entries.len(), w.acps.len(), pop.acps.len());
                    for u in pop.oauth2.iter().chain(pop.apps.iter()).chain(pop.sync_person.iter()).chain(pop.tombstone.iter()).chain(pop.recycled.iter()).chain(pop.persons.iter().take(1)) {
                        println!("{}", serde_json::to_string(&srv::dump_attrs(&d.entries[u]).unwrap()).unwrap());
                    }
                    for a in &pop.acps { println!("{}", a.describe()); }
                    for p in &pop.persons { let i = w.ident(*p, crate::sim::Scope::ReadWrite).unwrap(); println!("{} memberof {:?} consistent={}", pop.name(*p), i.memberof.iter().map(|g| pop.name(*g)).collect::<Vec<_>>(), i.memberof_consistent); }
                }
            }
            return;
        }
        if what == "mo" {
            use crate::sim::*;
            use kanidmd_lib::prelude::*;
            let mut sv = Server::new().await;
            let mut rng = kvcore::Rng::new(5);
            let (p, ga, g0) = (rng.uuid(), rng.uuid(), rng.uuid());
            sv.setup(|w| w.internal_create(vec![e_person(Some(p), "pp"), e_group(Some(ga), "ga", &[p], None), e_group(Some(g0), "g0", &[ga], None)])).await.unwrap();
            let show = |d: &kvcore::srv::Dump, tag: &str| {
                println!("{tag}: p.memberof={:?} ga.memberof={:?} ga.member={:?} ga.classes={:?}", srv::dump_strs(&d.entries[&p], "memberof"), srv::dump_strs(&d.entries[&ga], "memberof"), srv::dump_strs(&d.entries[&ga], "member"), srv::dump_classes(&d.entries[&ga]));
            };
            println!("p={p} ga={ga} g0={g0}");
            show(&sv.dump().await, "initial");
            sv.setup(|w| w.internal_delete_uuid(ga)).await.unwrap();
            show(&sv.dump().await, "ga deleted");
            sv.setup(|w| { let re = kanidmd_lib::event::ReviveRecycledEvent{ ident: Identity::from_impersonate_entry_readwrite(w.internal_search_uuid(gen_admin()).unwrap()), filter: f_uuid(ga).validate(w.get_schema()).unwrap().into_recycled()}; let r = w.revive_recycled(&re); println!("revive as admin: {r:?}"); Ok(()) }).await.unwrap();
            show(&sv.dump().await, "ga revive attempted");
            return;
        }
        if what == "schema" {
            use kanidmd_lib::prelude::*;
            use kanidmd_lib::schema::SchemaTransaction;
            let r = qs.read().await.unwrap();
            let s = r.get_schema();
            for (n, c) in s.get_classes() {
                println!("CLASS {n} must={:?}/{:?} may={:?}/{:?}", c.systemmust, c.must, c.systemmay, c.may);
            }
            for (n, a) in s.get_attributes() {
                println!("ATTR {n} multi={} syntax={:?} unique={} phantom={}", a.multivalue, a.syntax, a.unique, a.phantom);
            }
            return;
        }
        for (u, e) in &d.entries {
            let classes = srv::dump_classes(e);
            let name = srv::dump_strs(e, "name").join(",");
            if what == "list" {
                println!("{u} {name} {:?}", classes);
            } else if what == "acp" {
                if classes.iter().any(|c| c == "access_control_profile") {
                    println!("{}", serde_json::to_string(e).unwrap());
                }
            } else if name == what || u.to_string() == what {
                println!("{}", serde_json::to_string_pretty(e).unwrap());
            }
        }
    });
}
