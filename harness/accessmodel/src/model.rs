//! The independent grant model.
//!
//! Everything here is computed from the database *as dumped* (storage JSON of every entry) and from
//! the plain description of an identity (uuid, scope, entry). It never calls into kanidm's access
//! module. The model answers, per (identity, entry):
//!   * which attributes a search may read (access control profiles of kind search whose receiver and
//!     target match, plus the three built-in visibility rules),
//!   * which attributes / classes a modify may present or remove,
//!   * which attributes / classes a create may carry, whether a delete is granted.
//! It is used for SOUNDNESS checks only (what the implementation allowed must be allowed here), so
//! every place where the model cannot decide (`Tri::U`) resolves in the permissive direction.

use crate::sim::Scope;
use kvcore::srv::Dump;
use serde_json::Value as Json;
use std::collections::{BTreeMap, BTreeSet};
use std::sync::atomic::{AtomicU64, Ordering};
use uuid::Uuid;

pub static UNKNOWN_EVALS: AtomicU64 = AtomicU64::new(0);

pub const UUID_ANONYMOUS: Uuid = uuid::uuid!("00000000-0000-0000-0000-ffffffffffff");

/// Classes that, per the property text and access/protected.rs, may never be added to an entry,
/// (and, except `recycled` through revive, never removed), and whose bearers may not be deleted.
pub const PROTECTED_CLASSES: [&str; 8] = [
    "system",
    "domain_info",
    "system_info",
    "system_config",
    "dyngroup",
    "sync_object",
    "tombstone",
    "recycled",
];

#[derive(Clone, Debug, PartialEq)]
pub struct AttrVal {
    /// storage tag ("I8", "N8", "U8", "RF", "UU", ...); "" when unknown
    pub tag: String,
    /// every scalar found in the stored value set, as text
    pub vals: Vec<String>,
    /// the stored value set itself, for change detection
    pub raw: Json,
}

fn collect(v: &Json, out: &mut Vec<String>, depth: usize) {
    if depth > 6 {
        return;
    }
    match v {
        Json::String(s) => out.push(s.clone()),
        Json::Bool(b) => out.push(b.to_string()),
        Json::Number(n) => out.push(n.to_string()),
        Json::Array(a) => a.iter().for_each(|x| collect(x, out, depth + 1)),
        Json::Object(m) => m.values().for_each(|x| collect(x, out, depth + 1)),
        Json::Null => {}
    }
}

impl AttrVal {
    pub fn from_stored(v: &Json) -> Self {
        let mut tag = String::new();
        if let Some(m) = v.as_object() {
            if m.len() == 1 {
                if let Some(k) = m.keys().next() {
                    tag = k.clone();
                }
            }
        }
        let mut vals = Vec::new();
        collect(v, &mut vals, 0);
        AttrVal {
            tag,
            vals,
            raw: v.clone(),
        }
    }

    pub fn synthetic(tag: &str, vals: &[String]) -> Self {
        AttrVal {
            tag: tag.to_string(),
            vals: vals.to_vec(),
            raw: serde_json::json!({ tag: vals }),
        }
    }

    /// the elements of the stored set as text, for the storage forms whose scalars are the values
    /// (strings, names, references, uuids, mail addresses, booleans); None = cannot tell elements apart
    pub fn elements(&self) -> Option<BTreeSet<String>> {
        match self.tag.as_str() {
            "I8" | "N8" | "U8" | "RF" | "UU" | "EM" | "IU" | "BO" | "U3" | "DT" | "UR" => {
                Some(self.vals.iter().cloned().collect())
            }
            _ => None,
        }
    }
}

#[derive(Clone, Debug, PartialEq)]
pub struct MEntry {
    pub uuid: Uuid,
    pub attrs: BTreeMap<String, AttrVal>,
}

impl MEntry {
    pub fn from_dump(uuid: Uuid, e: &Json) -> Self {
        let mut attrs = BTreeMap::new();
        if let Some(m) = kvcore::srv::dump_attrs(e) {
            for (k, v) in m {
                attrs.insert(k.to_lowercase(), AttrVal::from_stored(v));
            }
        }
        MEntry { uuid, attrs }
    }

    pub fn strs(&self, attr: &str) -> Vec<String> {
        self.attrs.get(attr).map(|a| a.vals.clone()).unwrap_or_default()
    }

    pub fn classes(&self) -> BTreeSet<String> {
        self.strs("class").into_iter().map(|c| c.to_lowercase()).collect()
    }

    pub fn has_class(&self, c: &str) -> bool {
        self.attrs
            .get("class")
            .map(|a| a.vals.iter().any(|x| x.eq_ignore_ascii_case(c)))
            .unwrap_or(false)
    }

    pub fn refs(&self, attr: &str) -> BTreeSet<Uuid> {
        self.strs(attr)
            .iter()
            .filter_map(|s| Uuid::parse_str(s).ok())
            .collect()
    }

    pub fn is_tombstone(&self) -> bool {
        self.has_class("tombstone")
    }
    pub fn is_recycled(&self) -> bool {
        self.has_class("recycled")
    }
    pub fn is_live(&self) -> bool {
        !self.is_tombstone() && !self.is_recycled() && !self.has_class("conflict")
    }
    pub fn name(&self) -> String {
        self.strs("name").into_iter().next().unwrap_or_default()
    }
}

// ---- filters ---------------------------------------------------------------------------------

#[derive(Clone, Debug, PartialEq)]
pub enum MF {
    Eq(String, String),
    Cnt(String, String),
    Pres(String),
    And(Vec<MF>),
    Or(Vec<MF>),
    AndNot(Box<MF>),
    SelfUuid,
    /// something the model does not understand
    Opaque,
}

#[derive(Clone, Copy, Debug, PartialEq, Eq)]
pub enum Tri {
    T,
    F,
    U,
}

impl Tri {
    fn not(self) -> Tri {
        match self {
            Tri::T => Tri::F,
            Tri::F => Tri::T,
            Tri::U => Tri::U,
        }
    }
    /// permissive reading: "may match"
    pub fn may(self) -> bool {
        self != Tri::F
    }
}

impl MF {
    pub fn parse_text(s: &str) -> MF {
        match serde_json::from_str::<Json>(s) {
            Ok(j) => MF::parse(&j),
            Err(_) => MF::Opaque,
        }
    }

    pub fn parse(j: &Json) -> MF {
        match j {
            Json::String(s) if s.eq_ignore_ascii_case("self") => MF::SelfUuid,
            Json::Object(m) if m.len() == 1 => {
                let (k, v) = match m.iter().next() {
                    Some(kv) => kv,
                    None => return MF::Opaque,
                };
                let two = |v: &Json| -> Option<(String, String)> {
                    let a = v.as_array()?;
                    if a.len() != 2 {
                        return None;
                    }
                    Some((a[0].as_str()?.to_lowercase(), a[1].as_str()?.to_string()))
                };
                match k.to_lowercase().as_str() {
                    "eq" => two(v).map(|(a, b)| MF::Eq(a, b)).unwrap_or(MF::Opaque),
                    "cnt" => two(v).map(|(a, b)| MF::Cnt(a, b)).unwrap_or(MF::Opaque),
                    "pres" => v
                        .as_str()
                        .map(|a| MF::Pres(a.to_lowercase()))
                        .unwrap_or(MF::Opaque),
                    "and" => v
                        .as_array()
                        .map(|a| MF::And(a.iter().map(MF::parse).collect()))
                        .unwrap_or(MF::Opaque),
                    "or" => v
                        .as_array()
                        .map(|a| MF::Or(a.iter().map(MF::parse).collect()))
                        .unwrap_or(MF::Opaque),
                    "andnot" => MF::AndNot(Box::new(MF::parse(v))),
                    _ => MF::Opaque,
                }
            }
            _ => MF::Opaque,
        }
    }

    pub fn to_json(&self) -> Json {
        use serde_json::json;
        match self {
            MF::Eq(a, v) => json!({"eq": [a, v]}),
            MF::Cnt(a, v) => json!({"cnt": [a, v]}),
            MF::Pres(a) => json!({ "pres": a }),
            MF::And(v) => json!({"and": v.iter().map(|f| f.to_json()).collect::<Vec<_>>()}),
            MF::Or(v) => json!({"or": v.iter().map(|f| f.to_json()).collect::<Vec<_>>()}),
            MF::AndNot(f) => json!({"andnot": f.to_json()}),
            MF::SelfUuid => json!("self"),
            MF::Opaque => json!("opaque"),
        }
    }

    /// attributes named by the filter (a `self` term names `uuid`)
    pub fn attrs(&self, out: &mut BTreeSet<String>) {
        match self {
            MF::Eq(a, _) | MF::Cnt(a, _) | MF::Pres(a) => {
                out.insert(a.clone());
            }
            MF::And(v) | MF::Or(v) => v.iter().for_each(|f| f.attrs(out)),
            MF::AndNot(f) => f.attrs(out),
            MF::SelfUuid => {
                out.insert("uuid".to_string());
            }
            MF::Opaque => {}
        }
    }

    pub fn eval(&self, e: &MEntry, self_uuid: Option<Uuid>) -> Tri {
        let r = self.eval_inner(e, self_uuid);
        if r == Tri::U {
            UNKNOWN_EVALS.fetch_add(1, Ordering::Relaxed);
        }
        r
    }

    fn eval_inner(&self, e: &MEntry, self_uuid: Option<Uuid>) -> Tri {
        match self {
            MF::Opaque => Tri::U,
            MF::SelfUuid => match self_uuid {
                Some(u) if u == e.uuid => Tri::T,
                Some(_) => Tri::F,
                None => Tri::U,
            },
            MF::Pres(a) => {
                if e.attrs.contains_key(a) {
                    Tri::T
                } else {
                    Tri::F
                }
            }
            MF::Eq(a, v) => {
                let Some(av) = e.attrs.get(a) else { return Tri::F };
                match av.tag.as_str() {
                    "I8" | "N8" | "IU" => {
                        let lv = v.to_lowercase();
                        if av.vals.iter().any(|x| x.to_lowercase() == lv) {
                            Tri::T
                        } else {
                            Tri::F
                        }
                    }
                    "U8" => {
                        if av.vals.iter().any(|x| x == v) {
                            Tri::T
                        } else {
                            Tri::F
                        }
                    }
                    "RF" | "UU" => match Uuid::parse_str(v) {
                        Ok(u) => {
                            if av.vals.iter().any(|x| Uuid::parse_str(x).ok() == Some(u)) {
                                Tri::T
                            } else {
                                Tri::F
                            }
                        }
                        // a name or spn that the server resolves to a uuid
                        Err(_) => Tri::U,
                    },
                    "BO" => {
                        let lv = v.to_lowercase();
                        if av.vals.iter().any(|x| *x == lv) {
                            Tri::T
                        } else {
                            Tri::F
                        }
                    }
                    _ => Tri::U,
                }
            }
            MF::Cnt(a, v) => {
                let Some(av) = e.attrs.get(a) else { return Tri::F };
                match av.tag.as_str() {
                    "I8" | "N8" | "IU" => {
                        let lv = v.to_lowercase();
                        if av.vals.iter().any(|x| x.to_lowercase().contains(&lv)) {
                            Tri::T
                        } else {
                            Tri::F
                        }
                    }
                    "U8" => {
                        if av.vals.iter().any(|x| x.contains(v.as_str())) {
                            Tri::T
                        } else if av
                            .vals
                            .iter()
                            .any(|x| x.to_lowercase().contains(&v.to_lowercase()))
                        {
                            Tri::U
                        } else {
                            Tri::F
                        }
                    }
                    _ => Tri::U,
                }
            }
            MF::And(v) => {
                let mut r = Tri::T;
                for f in v {
                    match f.eval_inner(e, self_uuid) {
                        Tri::F => return Tri::F,
                        Tri::U => r = Tri::U,
                        Tri::T => {}
                    }
                }
                r
            }
            MF::Or(v) => {
                let mut r = Tri::F;
                for f in v {
                    match f.eval_inner(e, self_uuid) {
                        Tri::T => return Tri::T,
                        Tri::U => r = Tri::U,
                        Tri::F => {}
                    }
                }
                r
            }
            MF::AndNot(f) => f.eval_inner(e, self_uuid).not(),
        }
    }
}

// ---- access control profiles as stored ----------------------------------------------------------

#[derive(Clone, Debug, PartialEq)]
pub enum MRecv {
    Group(BTreeSet<Uuid>),
    EntryManager,
    Nobody,
}

#[derive(Clone, Debug)]
pub struct MAcp {
    #[allow(dead_code)]
    pub uuid: Uuid,
    pub name: String,
    pub search: bool,
    pub modify: bool,
    pub create: bool,
    pub delete: bool,
    pub receiver: MRecv,
    pub target: Option<MF>,
    pub search_attrs: BTreeSet<String>,
    pub pres_attrs: BTreeSet<String>,
    pub rem_attrs: BTreeSet<String>,
    pub pres_classes: BTreeSet<String>,
    pub rem_classes: BTreeSet<String>,
    pub create_attrs: BTreeSet<String>,
    pub create_classes: BTreeSet<String>,
}

fn lset(v: Vec<String>) -> BTreeSet<String> {
    v.into_iter().map(|s| s.to_lowercase()).collect()
}

impl MAcp {
    /// Parse one stored entry; None when it is not an active access control profile.
    pub fn from_entry(e: &MEntry) -> Option<MAcp> {
        if !e.has_class("access_control_profile") || !e.is_live() {
            return None;
        }
        // disabled profiles do nothing
        if e.strs("acp_enable").iter().any(|v| v == "false") {
            return None;
        }
        let receiver = if e.has_class("access_control_receiver_group") {
            MRecv::Group(e.refs("acp_receiver_group"))
        } else if e.has_class("access_control_receiver_entry_manager") {
            MRecv::EntryManager
        } else {
            MRecv::Nobody
        };
        let target = if e.has_class("access_control_target_scope") {
            Some(
                e.strs("acp_targetscope")
                    .first()
                    .map(|s| MF::parse_text(s))
                    .unwrap_or(MF::Opaque),
            )
        } else {
            None
        };
        let mut search_attrs = lset(e.strs("acp_search_attr"));
        // documented: the right to read memberof implies the right to read directmemberof
        if search_attrs.contains("memberof") {
            search_attrs.insert("directmemberof".to_string());
        }
        // documented: acp_modify_class is the fallback for both directions
        let both = lset(e.strs("acp_modify_class"));
        let pres_classes = if e.attrs.contains_key("acp_modify_present_class") {
            lset(e.strs("acp_modify_present_class"))
        } else {
            both.clone()
        };
        let rem_classes = if e.attrs.contains_key("acp_modify_remove_class") {
            lset(e.strs("acp_modify_remove_class"))
        } else {
            both
        };
        Some(MAcp {
            uuid: e.uuid,
            name: e.name(),
            search: e.has_class("access_control_search"),
            modify: e.has_class("access_control_modify"),
            create: e.has_class("access_control_create"),
            delete: e.has_class("access_control_delete"),
            receiver,
            target,
            search_attrs,
            pres_attrs: lset(e.strs("acp_modify_presentattr")),
            rem_attrs: lset(e.strs("acp_modify_removedattr")),
            pres_classes,
            rem_classes,
            create_attrs: lset(e.strs("acp_create_attr")),
            create_classes: lset(e.strs("acp_create_class")),
        })
    }
}

// ---- the world and identities -------------------------------------------------------------------

#[derive(Clone, Debug)]
pub struct World {
    pub entries: BTreeMap<Uuid, MEntry>,
    pub acps: Vec<MAcp>,
}

impl World {
    pub fn from_dump(d: &Dump) -> World {
        let entries: BTreeMap<Uuid, MEntry> = d
            .entries
            .iter()
            .map(|(u, e)| (*u, MEntry::from_dump(*u, e)))
            .collect();
        let acps = entries.values().filter_map(MAcp::from_entry).collect();
        World { entries, acps }
    }

    /// Transitive group membership of `who`, computed from the stored `member` / `dynmember` edges of
    /// live groups (harness BFS; does not read any `memberof` attribute).
    pub fn memberof_bfs(&self, who: Uuid) -> BTreeSet<Uuid> {
        let mut out = BTreeSet::new();
        let mut frontier = vec![who];
        while let Some(x) = frontier.pop() {
            for g in self.entries.values() {
                if !g.has_class("group") || !g.is_live() || out.contains(&g.uuid) {
                    continue;
                }
                if g.refs("member").contains(&x) || g.refs("dynmember").contains(&x) {
                    out.insert(g.uuid);
                    frontier.push(g.uuid);
                }
            }
        }
        out
    }

    pub fn ident(&self, who: Uuid, scope: Scope) -> Option<MIdent> {
        let entry = self.entries.get(&who)?.clone();
        let memberof = self.memberof_bfs(who);
        let stored = entry.refs("memberof");
        Some(MIdent {
            uuid: who,
            scope,
            memberof_consistent: stored == memberof,
            memberof,
            entry,
        })
    }
}

#[derive(Clone, Debug)]
pub struct MIdent {
    pub uuid: Uuid,
    pub scope: Scope,
    pub memberof: BTreeSet<Uuid>,
    /// the BFS closure equals the stored memberof of the identity's entry (else nothing is judged
    /// for this identity: group closure exactness is another property's business)
    pub memberof_consistent: bool,
    pub entry: MEntry,
}

impl MIdent {
    pub fn is_anonymous(&self) -> bool {
        self.uuid == UUID_ANONYMOUS
    }

    fn receives(&self, acp: &MAcp, target: Option<&MEntry>) -> bool {
        match &acp.receiver {
            MRecv::Nobody => false,
            MRecv::Group(gs) => gs.iter().any(|g| self.memberof.contains(g)),
            MRecv::EntryManager => match target {
                None => false,
                Some(t) => t
                    .refs("entry_managed_by")
                    .iter()
                    .any(|m| *m == self.uuid || self.memberof.contains(m)),
            },
        }
    }

    fn applies(&self, acp: &MAcp, e: &MEntry, entry_manager_possible: bool) -> bool {
        let recv = if entry_manager_possible {
            self.receives(acp, Some(e))
        } else {
            self.receives(acp, None)
        };
        if !recv {
            return false;
        }
        match &acp.target {
            None => false,
            Some(f) => f.eval(e, Some(self.uuid)).may(),
        }
    }
}

/// Names of the profiles / rules that contributed, for witnesses.
#[derive(Clone, Debug, Default)]
pub struct Why(pub Vec<String>);

/// Attributes of `e` that `ident` may read.
pub fn search_allowed(w: &World, ident: &MIdent, e: &MEntry) -> (BTreeSet<String>, Why) {
    let mut out = BTreeSet::new();
    let mut why = Why::default();
    if ident.scope == Scope::Synchronise {
        // synchronise-scope identities may not search at all
        return (out, why);
    }
    for acp in w.acps.iter().filter(|a| a.search) {
        if ident.applies(acp, e, true) {
            out.extend(acp.search_attrs.iter().cloned());
            why.0.push(acp.name.clone());
        }
    }
    if !ident.is_anonymous() {
        // built-in rule: an OAuth2 client is visible to members of a group it maps scopes for
        if e.has_class("oauth2_resource_server")
            && e.refs("oauth2_rs_scope_map").iter().any(|g| ident.memberof.contains(g))
        {
            for a in ["class", "displayname", "uuid", "name", "oauth2_rs_origin_landing", "image"] {
                out.insert(a.to_string());
            }
            why.0.push("builtin:oauth2-scope-holder".into());
        }
        // built-in rule: an application is visible to members of its linked group
        if e.has_class("application")
            && e.refs("linked_group").iter().any(|g| ident.memberof.contains(g))
        {
            for a in ["class", "displayname", "uuid", "name", "linked_group"] {
                out.insert(a.to_string());
            }
            why.0.push("builtin:application-linked-group".into());
        }
        // built-in rule: a synchronised account may see the sync agreement it came from
        if ident.entry.has_class("sync_object")
            && ident.entry.has_class("account")
            && e.has_class("sync_account")
            && ident.entry.refs("sync_parent_uuid").contains(&e.uuid)
        {
            for a in ["class", "uuid", "sync_credential_portal"] {
                out.insert(a.to_string());
            }
            why.0.push("builtin:sync-parent".into());
        }
    }
    (out, why)
}

#[derive(Clone, Debug, Default)]
pub struct ModGrant {
    pub pres: BTreeSet<String>,
    pub rem: BTreeSet<String>,
    pub pres_cls: BTreeSet<String>,
    pub rem_cls: BTreeSet<String>,
    pub why: Vec<String>,
}

/// Union of what the matching modify profiles grant on `e` (scope is judged separately).
pub fn modify_grant(w: &World, ident: &MIdent, e: &MEntry) -> ModGrant {
    let mut g = ModGrant::default();
    for acp in w.acps.iter().filter(|a| a.modify) {
        if ident.applies(acp, e, true) {
            g.pres.extend(acp.pres_attrs.iter().cloned());
            g.rem.extend(acp.rem_attrs.iter().cloned());
            g.pres_cls.extend(acp.pres_classes.iter().cloned());
            g.rem_cls.extend(acp.rem_classes.iter().cloned());
            g.why.push(acp.name.clone());
        }
    }
    g
}

#[derive(Clone, Debug, Default)]
pub struct CreateGrant {
    pub attrs: BTreeSet<String>,
    pub classes: BTreeSet<String>,
    pub why: Vec<String>,
}

/// Union of what the matching create profiles grant for a new entry. Entry-manager receivers cannot
/// apply to an entry that does not exist yet. `views` are the forms of the entry a target filter may
/// be matched against (as submitted, and as stored afterwards).
pub fn create_grant(w: &World, ident: &MIdent, views: &[&MEntry]) -> CreateGrant {
    let mut g = CreateGrant::default();
    for acp in w.acps.iter().filter(|a| a.create) {
        if views.iter().any(|e| ident.applies(acp, e, false)) {
            g.attrs.extend(acp.create_attrs.iter().cloned());
            g.classes.extend(acp.create_classes.iter().cloned());
            g.why.push(acp.name.clone());
        }
    }
    g
}

pub fn delete_granted(w: &World, ident: &MIdent, e: &MEntry) -> (bool, Vec<String>) {
    let why: Vec<String> = w
        .acps
        .iter()
        .filter(|a| a.delete && ident.applies(a, e, true))
        .map(|a| a.name.clone())
        .collect();
    (!why.is_empty(), why)
}

pub fn is_protected_class(c: &str) -> bool {
    PROTECTED_CLASSES.iter().any(|p| p.eq_ignore_ascii_case(c))
}
