//! C20 UUIDs are immutable and the system range is protected.
//!
//! The acting users hold a grant-everything access control profile (search, modify present/remove of
//! every schema attribute and class, create, delete, on every entry). Under it:
//!  * every modification kind touching `uuid` (present / removed / purged / set / assert; single
//!    modify and batch modify; alone or after a harmless modification) leaves the set of stored uuids
//!    and every entry's own uuid unchanged, and the value-changing kinds are refused;
//!  * a create whose uuid lies below the dynamic-range minimum is refused and creates nothing;
//!  * a delete of any built-in entry (uuid in the reserved range) is refused and the entry stays live.
//! Positive controls: the same users modify `description`, create with dynamic-range uuids and delete
//! ordinary entries successfully.

use crate::sim::*;
use kanidmd_lib::prelude::*;
use kanidmd_lib::valueset::{ValueSet, ValueSetUuid};
use kvcore::rng::mix;
use kvcore::srv::{self, Dump};
use kvcore::{Acc, Args, Rng, Run};
use serde_json::json;

const U_PERSON_ACTOR: Uuid = uuid!("c2000000-0000-4000-8000-000000000001");
const U_SA_ACTOR: Uuid = uuid!("c2000000-0000-4000-8000-000000000002");
const U_GROUP_ALL: Uuid = uuid!("c2000000-0000-4000-8000-000000000003");
const U_ACP_ALL: Uuid = uuid!("c2000000-0000-4000-8000-000000000004");
const U_T_PERSON: Uuid = uuid!("c2000000-0000-4000-8000-000000000011");
const U_T_GROUP: Uuid = uuid!("c2000000-0000-4000-8000-000000000012");
/// builtin group idm_admins
const U_BUILTIN_GROUP: Uuid = uuid!("00000000-0000-0000-0000-000000000001");

#[derive(Clone, Copy, Debug, PartialEq, Eq)]
enum Kind {
    Present,
    Removed,
    Purged,
    Set,
    Assert,
    /// purge, then present the new value, in one modify list
    Replace,
}

#[derive(Clone, Copy, Debug, PartialEq, Eq)]
enum Shape {
    Single,
    AfterBenign,
    BeforeBenign,
    Batch,
    BatchSecondEntry,
    BatchAfterBenign,
    /// the same modify list first renames the target (so that none of its unique attributes stays)
    AfterRename,
    BatchAfterRename,
}

#[derive(Clone, Copy, Debug, PartialEq, Eq)]
enum Val {
    Own,
    OtherExisting,
    FreshDynamic,
    FreshReserved,
}

#[derive(Clone, Debug)]
enum Case {
    Modify {
        actor: Uuid,
        target: Uuid,
        kind: Kind,
        shape: Shape,
        val: Val,
        /// false = the positive control on `mail`
        on_uuid: bool,
    },
    Create {
        actor: Uuid,
        uuids: Vec<Option<u128>>,
        group: bool,
    },
    Delete {
        actor: Uuid,
        target: Uuid,
        by_name: Option<String>,
        with_ordinary: bool,
    },
    DeleteControl {
        actor: Uuid,
    },
}

fn uuid_mods(kind: Kind, v: Uuid) -> Vec<Modify> {
    if kind == Kind::Replace {
        return vec![Modify::Purged(Attribute::Uuid), Modify::Present(Attribute::Uuid, Value::Uuid(v))];
    }
    vec![uuid_mod(kind, v)]
}

fn uuid_mod(kind: Kind, v: Uuid) -> Modify {
    match kind {
        Kind::Replace => Modify::Purged(Attribute::Uuid),
        Kind::Present => Modify::Present(Attribute::Uuid, Value::Uuid(v)),
        Kind::Removed => Modify::Removed(Attribute::Uuid, PartialValue::Uuid(v)),
        Kind::Purged => Modify::Purged(Attribute::Uuid),
        Kind::Set => {
            let vs: ValueSet = ValueSetUuid::new(v);
            Modify::Set(Attribute::Uuid, vs)
        }
        Kind::Assert => Modify::Assert(Attribute::Uuid, PartialValue::Uuid(v)),
    }
}

fn mail_v(tag: &str) -> Value {
    Value::new_email_address_s(&format!("{tag}@c20.example.com")).unwrap_or_else(|| Value::new_utf8s(tag))
}

/// the positive-control modification: the same kind on `mail` (multi-valued, allowed on every target kind)
fn desc_mod(kind: Kind, tag: &str) -> Modify {
    match kind {
        Kind::Present | Kind::Set | Kind::Assert | Kind::Replace => Modify::Present(Attribute::Mail, mail_v(tag)),
        Kind::Removed => Modify::Removed(
            Attribute::Mail,
            PartialValue::new_email_address_s(&format!("{tag}@c20.example.com")),
        ),
        Kind::Purged => Modify::Purged(Attribute::Mail),
    }
}

/// Would applying this modification alter the stored uuid value set of an entry whose uuid is `own`?
fn would_change(kind: Kind, v: Uuid, own: Uuid) -> bool {
    match kind {
        Kind::Present | Kind::Set | Kind::Replace => v != own,
        Kind::Removed => v == own,
        Kind::Purged => true,
        Kind::Assert => false,
    }
}

/// the invariant: same uuid key set, and every entry's stored `uuid` attribute is exactly its key
fn uuid_state_problem(before: &Dump, after: &Dump) -> Option<String> {
    for u in before.entries.keys() {
        if !after.entries.contains_key(u) {
            return Some(format!("entry {u} no longer exists under its uuid"));
        }
    }
    for (u, e) in &after.entries {
        let stored = srv::dump_strs(e, "uuid");
        if stored.len() != 1 || stored[0].to_lowercase() != u.to_string() {
            return Some(format!("entry {u} stores uuid attribute {stored:?}"));
        }
    }
    None
}

fn all_cases(tier: kvcore::Tier, seed: u64, builtin: &[(Uuid, Option<String>)]) -> Vec<Case> {
    let mut cases = Vec::new();
    let actors = [U_PERSON_ACTOR, U_SA_ACTOR];
    let kinds = [Kind::Present, Kind::Removed, Kind::Purged, Kind::Set, Kind::Assert, Kind::Replace];
    let shapes = [
        Shape::Single,
        Shape::AfterBenign,
        Shape::BeforeBenign,
        Shape::Batch,
        Shape::BatchSecondEntry,
        Shape::BatchAfterBenign,
        Shape::AfterRename,
        Shape::BatchAfterRename,
    ];
    let vals = [Val::Own, Val::OtherExisting, Val::FreshDynamic, Val::FreshReserved];
    let reps = tier.pick(1, 8);
    for _rep in 0..reps {
        for actor in actors {
            for target in [actor, U_T_PERSON, U_T_GROUP, U_BUILTIN_GROUP] {
                for kind in kinds {
                    for shape in shapes {
                        for val in vals {
                            if kind == Kind::Purged && val != Val::Own {
                                continue; // purge takes no value
                            }
                            cases.push(Case::Modify {
                                actor,
                                target,
                                kind,
                                shape,
                                val,
                                on_uuid: true,
                            });
                        }
                        if target != U_BUILTIN_GROUP && kind != Kind::Assert && kind != Kind::Set && kind != Kind::Replace && !matches!(shape, Shape::AfterRename | Shape::BatchAfterRename) {
                            cases.push(Case::Modify {
                                actor,
                                target,
                                kind,
                                shape,
                                val: Val::Own,
                                on_uuid: false,
                            });
                        }
                    }
                }
            }
        }
    }
    // creates: a grid around the boundary plus random values on both sides
    let b = DYN_MIN;
    let mut grid: Vec<Option<u128>> = vec![
        None,
        Some(1),
        Some(0x7777),
        Some(0x00ff_fe00),
        Some(0xffff_0000_0000 - 1),
        Some(b / 2),
        Some(b - 0x1000),
        Some(b - 4),
        Some(b - 3),
        Some(b - 2),
        Some(b - 1),
        Some(b),
        Some(b + 1),
        Some(b + 2),
        Some(b + 0x1000),
        Some(b * 2),
        Some(b * 2 - 1),
        Some(1u128 << 64),
        Some((1u128 << 64) - 1),
        Some(1u128 << 100),
        Some(u128::MAX - 1),
    ];
    let mut rng = Rng::new(mix(seed, 20, 1));
    for _ in 0..tier.pick(60, 4000) {
        grid.push(Some((rng.next() as u128) % b)); // reserved
        grid.push(Some(b + (rng.next() as u128 % (b * 4)))); // just above
        grid.push(Some(rng.uuid().as_u128())); // v4 shaped
    }
    for (i, g) in grid.iter().enumerate() {
        let actor = actors[i % 2];
        cases.push(Case::Create {
            actor,
            uuids: vec![*g],
            group: i % 3 == 0,
        });
        if i % 4 == 0 {
            // one reserved entry hidden in an otherwise fine request
            cases.push(Case::Create {
                actor,
                uuids: vec![Some(rng.uuid().as_u128()), *g, Some(rng.uuid().as_u128())],
                group: i % 8 == 0,
            });
        }
    }
    // deletes of every builtin entry
    for (i, (u, name)) in builtin.iter().enumerate() {
        for (ai, actor) in actors.iter().enumerate() {
            if tier == kvcore::Tier::Quick && (i + ai) % 2 == 1 {
                continue;
            }
            cases.push(Case::Delete {
                actor: *actor,
                target: *u,
                by_name: None,
                with_ordinary: false,
            });
            if tier == kvcore::Tier::Thorough || i % 5 == 0 {
                cases.push(Case::Delete {
                    actor: *actor,
                    target: *u,
                    by_name: None,
                    with_ordinary: true,
                });
                if name.is_some() {
                    cases.push(Case::Delete {
                        actor: *actor,
                        target: *u,
                        by_name: name.clone(),
                        with_ordinary: false,
                    });
                }
            }
        }
        if i % 6 == 0 {
            cases.push(Case::DeleteControl {
                actor: actors[i % 2],
            });
        }
    }
    cases
}

async fn setup(sv: &mut Server, attrs: &[String], classes: &[String]) -> Result<(), OperationError> {
    let spec = grant_everything(U_ACP_ALL, "c20_grant_everything", U_GROUP_ALL, attrs, classes);
    let acp = e_acp(&spec).ok_or(OperationError::InvalidState)?;
    sv.setup(|w| {
        w.internal_create(vec![
            e_person(Some(U_PERSON_ACTOR), "c20_actor_person"),
            e_service_account(Some(U_SA_ACTOR), "c20_actor_sa", None),
            e_group(
                Some(U_GROUP_ALL),
                "c20_everything",
                &[U_PERSON_ACTOR, U_SA_ACTOR],
                None,
            ),
            e_person(Some(U_T_PERSON), "c20_target_person"),
            e_group(Some(U_T_GROUP), "c20_target_group", &[U_T_PERSON], None),
            acp,
        ])
    })
    .await
}

fn run_case(
    rt: &tokio::runtime::Runtime,
    sv: &mut Server,
    acc: &mut Acc,
    rng: &mut Rng,
    idx: usize,
    case: &Case,
    before: &mut Dump,
) {
    acc.eval();
    match case {
        Case::Modify {
            actor,
            target,
            kind,
            shape,
            val,
            on_uuid,
        } => {
            let fresh_dyn = rng.uuid();
            let fresh_res = loop {
                let c = Uuid::from_u128(0x0000_2000_0000u128 + (rng.next() as u128 % 0xffff_ffff));
                if !before.entries.contains_key(&c) {
                    break c;
                }
            };
            let other = if *target == U_T_PERSON { U_T_GROUP } else { U_T_PERSON };
            let v = match val {
                Val::Own => *target,
                Val::OtherExisting => other,
                Val::FreshDynamic => fresh_dyn,
                Val::FreshReserved => fresh_res,
            };
            let tag = format!("c20case{idx}");
            let subject: Vec<Modify> = if *on_uuid { uuid_mods(*kind, v) } else { vec![desc_mod(*kind, &tag)] };
            let benign = Modify::Present(Attribute::Mail, mail_v(&format!("b{tag}")));
            let rename = vec![Modify::Purged(Attribute::Name), Modify::Present(Attribute::Name, Value::new_iname(&format!("c20renamed{idx}")))];
            let join = |a: Vec<Modify>, b: Vec<Modify>| -> Vec<Modify> { a.into_iter().chain(b).collect() };
            // for description removal controls make sure there is something to remove
            let actor_u = *actor;
            let target_u = *target;
            let shape_c = *shape;
            let second = other;
            let out = rt.block_on(async {
                let ident = match sv.ident(actor_u, Scope::ReadWrite).await {
                    Ok(i) => i,
                    Err(e) => {
                        return OpOutcome {
                            ok: false,
                            err: Some(format!("harness-ident:{e:?}")),
                            committed: false,
                        }
                    }
                };
                sv.user_op(|w| match shape_c {
                    Shape::Single => {
                        let ml = ModifyList::new_list(subject);
                        let me = ev_modify(w, ident, &f_uuid(target_u), &ml, false)?;
                        w.modify(&me)
                    }
                    Shape::AfterBenign => {
                        let ml = ModifyList::new_list(join(vec![benign], subject));
                        let me = ev_modify(w, ident, &f_uuid(target_u), &ml, false)?;
                        w.modify(&me)
                    }
                    Shape::AfterRename => {
                        let ml = ModifyList::new_list(join(rename, subject));
                        let me = ev_modify(w, ident, &f_uuid(target_u), &ml, false)?;
                        w.modify(&me)
                    }
                    Shape::BeforeBenign => {
                        let ml = ModifyList::new_list(join(subject, vec![benign]));
                        let me = ev_modify(w, ident, &f_uuid(target_u), &ml, false)?;
                        w.modify(&me)
                    }
                    Shape::Batch => {
                        let be = ev_batch(w, ident, &[(target_u, ModifyList::new_list(subject))])?;
                        w.batch_modify(&be)
                    }
                    Shape::BatchSecondEntry => {
                        let be = ev_batch(
                            w,
                            ident,
                            &[
                                (second, ModifyList::new_list(vec![benign])),
                                (target_u, ModifyList::new_list(subject)),
                            ],
                        )?;
                        w.batch_modify(&be)
                    }
                    Shape::BatchAfterBenign => {
                        let be = ev_batch(w, ident, &[(target_u, ModifyList::new_list(join(vec![benign], subject)))])?;
                        w.batch_modify(&be)
                    }
                    Shape::BatchAfterRename => {
                        let be = ev_batch(w, ident, &[(target_u, ModifyList::new_list(join(rename, subject)))])?;
                        w.batch_modify(&be)
                    }
                })
                .await
            });
            if out.err.as_deref().is_some_and(|e| e.starts_with("harness-")) {
                acc.inconclusive(&format!("c20 harness failure: {:?}", out.err));
                return;
            }
            let after = rt.block_on(sv.dump());
            let desc = json!({"case": format!("{case:?}"), "value": v.to_string(), "result": out.err.clone().unwrap_or("Ok".into())});
            if *on_uuid {
                acc.nontrivial_distinct();
                acc.count(&format!("modify.uuid.{:?}.{}", kind, if out.ok { "ok" } else { "err" }).to_lowercase());
                acc.observe("modify_error_classes", &out.err_class());
                acc.observe("modify_shapes", &format!("{kind:?}/{shape:?}/{val:?}"));
                if let Some(p) = uuid_state_problem(before, &after) {
                    acc.violation(
                        &format!("c20/uuid-changed/{kind:?}/{shape:?}").to_lowercase(),
                        json!({"op": desc, "problem": p, "explanation": "a user modification altered the stored uuid of an existing entry"}),
                    );
                } else if out.ok && would_change(*kind, v, *target) {
                    acc.violation(
                        &format!("c20/uuid-modify-accepted/{kind:?}/{shape:?}").to_lowercase(),
                        json!({"op": desc, "explanation": "a value-changing modification of uuid returned Ok"}),
                    );
                } else if after.entries.contains_key(&fresh_dyn) || after.entries.contains_key(&fresh_res) {
                    acc.violation(
                        "c20/uuid-changed/new-uuid-appeared",
                        json!({"op": desc, "explanation": "the uuid offered in the modification now names an entry"}),
                    );
                }
                if acc.samples.len() < 3 && idx % 37 == 0 {
                    acc.sample(desc);
                }
            } else {
                acc.count(if out.ok { "control.modify.ok" } else { "control.modify.err" });
                if !out.ok {
                    acc.observe("control_modify_errors", &format!("{kind:?}:{}", out.err_class()));
                }
                if let Some(p) = uuid_state_problem(before, &after) {
                    acc.inconclusive(&format!("uuid state problem after a control modify: {p}"));
                }
            }
            *before = after;
        }
        Case::Create { actor, uuids, group } => {
            let mut entries = Vec::new();
            let mut wanted = Vec::new();
            for (k, u) in uuids.iter().enumerate() {
                let uu = u.map(Uuid::from_u128);
                let name = format!("c20c{idx}x{k}");
                wanted.push(uu);
                entries.push(if *group {
                    e_group(uu, &name, &[], None)
                } else {
                    e_person(uu, &name)
                });
            }
            let any_reserved = wanted.iter().flatten().any(|u| is_reserved(*u));
            let actor_u = *actor;
            let out = rt.block_on(async {
                let ident = match sv.ident(actor_u, Scope::ReadWrite).await {
                    Ok(i) => i,
                    Err(e) => {
                        return OpOutcome {
                            ok: false,
                            err: Some(format!("harness-ident:{e:?}")),
                            committed: false,
                        }
                    }
                };
                sv.user_op(|w| w.create(&ev_create(ident, entries)).map(|_| ())).await
            });
            if out.err.as_deref().is_some_and(|e| e.starts_with("harness-")) {
                acc.inconclusive(&format!("c20 harness failure: {:?}", out.err));
                return;
            }
            let after = rt.block_on(sv.dump());
            let new: Vec<Uuid> = after
                .entries
                .keys()
                .filter(|u| !before.entries.contains_key(u))
                .copied()
                .collect();
            let desc = json!({"case": "create", "actor": actor.to_string(), "group": group,
                "uuids": wanted.iter().map(|u| u.map(|u| u.to_string())).collect::<Vec<_>>(),
                "result": out.err.clone().unwrap_or("Ok".into()), "created": new.iter().map(|u| u.to_string()).collect::<Vec<_>>()});
            let side = if any_reserved { "reserved" } else { "dynamic" };
            acc.count(&format!("create.{side}.{}", if out.ok { "ok" } else { "err" }));
            if any_reserved {
                acc.nontrivial_distinct();
                acc.observe("create_error_classes", &out.err_class());
            }
            let boundary = wanted.iter().flatten().any(|u| {
                let d = u.as_u128() as i128 - DYN_MIN as i128;
                (-4..=2).contains(&d)
            });
            if boundary {
                acc.count(&format!("create.boundary.{side}.{}", if out.ok { "ok" } else { "err" }));
            }
            if new.iter().any(|u| is_reserved(*u)) {
                acc.violation(
                    "c20/reserved-uuid-created",
                    json!({"op": desc, "explanation": "a user create left an entry with a uuid below the dynamic-range minimum"}),
                );
            } else if any_reserved && out.ok {
                acc.violation(
                    "c20/reserved-create-accepted",
                    json!({"op": desc, "explanation": "a create naming a reserved-range uuid returned Ok"}),
                );
            } else if any_reserved && !new.is_empty() {
                acc.violation(
                    "c20/refused-create-left-entries",
                    json!({"op": desc, "explanation": "a refused create left entries behind"}),
                );
            }
            if !any_reserved && !out.ok {
                acc.observe("control_create_errors", &out.err_class());
            }
            if acc.samples.len() < 5 && boundary {
                acc.sample(desc);
            }
            *before = after;
        }
        Case::Delete {
            actor,
            target,
            by_name,
            with_ordinary,
        } => {
            // an ordinary entry to put next to the builtin one
            let ord = rng.uuid();
            if *with_ordinary {
                let name = format!("c20d{idx}");
                let r = rt.block_on(sv.setup(|w| w.internal_create(vec![e_person(Some(ord), &name)])));
                if r.is_err() {
                    acc.inconclusive("c20 could not create the ordinary companion entry");
                    return;
                }
                *before = rt.block_on(sv.dump());
            }
            let f = match (by_name, with_ordinary) {
                (Some(n), _) => f_name(n),
                (None, true) => f_uuids(&[ord, *target]),
                (None, false) => f_uuid(*target),
            };
            let actor_u = *actor;
            let out = rt.block_on(async {
                let ident = match sv.ident(actor_u, Scope::ReadWrite).await {
                    Ok(i) => i,
                    Err(e) => {
                        return OpOutcome {
                            ok: false,
                            err: Some(format!("harness-ident:{e:?}")),
                            committed: false,
                        }
                    }
                };
                sv.user_op(|w| {
                    let de = ev_delete(w, ident, &f, false)?;
                    w.delete(&de)
                })
                .await
            });
            if out.err.as_deref().is_some_and(|e| e.starts_with("harness-")) {
                acc.inconclusive(&format!("c20 harness failure: {:?}", out.err));
                return;
            }
            let after = rt.block_on(sv.dump());
            acc.nontrivial_distinct();
            acc.count(if out.ok { "delete.builtin.ok" } else { "delete.builtin.err" });
            acc.observe("delete_error_classes", &out.err_class());
            acc.observe("builtin_targets", &target.to_string());
            let classes = before.entries.get(target).map(srv::dump_classes).unwrap_or_default();
            let desc = json!({"case": "delete", "actor": actor.to_string(), "target": target.to_string(), "target_classes": classes,
                "by_name": by_name, "with_ordinary": with_ordinary, "result": out.err.clone().unwrap_or("Ok".into())});
            let still_live = after.entries.get(target).map(srv::is_live).unwrap_or(false);
            let shape = match (by_name.is_some(), with_ordinary) {
                (true, _) => "by-name",
                (false, true) => "with-ordinary",
                (false, false) => "by-uuid",
            };
            if !still_live {
                acc.violation(
                    &format!("c20/builtin-entry-deleted/{shape}"),
                    json!({"op": desc, "explanation": "a built-in entry is no longer live after a user delete"}),
                );
            } else if out.ok {
                acc.violation(
                    &format!("c20/builtin-delete-accepted/{shape}"),
                    json!({"op": desc, "explanation": "a delete whose filter selects a built-in entry returned Ok"}),
                );
            } else if *with_ordinary && !after.entries.get(&ord).map(srv::is_live).unwrap_or(false) {
                acc.violation(
                    "c20/refused-delete-removed-entries",
                    json!({"op": desc, "explanation": "a refused delete removed the ordinary entry named next to the built-in one"}),
                );
            }
            if acc.samples.len() < 6 && idx % 53 == 0 {
                acc.sample(desc);
            }
            *before = after;
        }
        Case::DeleteControl { actor } => {
            let ord = rng.uuid();
            let name = format!("c20k{idx}");
            let r = rt.block_on(sv.setup(|w| w.internal_create(vec![e_person(Some(ord), &name)])));
            if r.is_err() {
                acc.inconclusive("c20 could not create the control entry");
                return;
            }
            let actor_u = *actor;
            let out = rt.block_on(async {
                let ident = match sv.ident(actor_u, Scope::ReadWrite).await {
                    Ok(i) => i,
                    Err(e) => {
                        return OpOutcome {
                            ok: false,
                            err: Some(format!("harness-ident:{e:?}")),
                            committed: false,
                        }
                    }
                };
                sv.user_op(|w| {
                    let de = ev_delete(w, ident, &f_uuid(ord), false)?;
                    w.delete(&de)
                })
                .await
            });
            let after = rt.block_on(sv.dump());
            let gone = !after.entries.get(&ord).map(srv::is_live).unwrap_or(false);
            acc.count(if out.ok && gone { "control.delete.ok" } else { "control.delete.err" });
            if !out.ok {
                acc.observe("control_delete_errors", &out.err_class());
            }
            *before = after;
        }
    }
}

pub fn run(args: Args) {
    let mut run = Run::new(
        args.clone(),
        "exploration",
        "enumerated: {person, service-account actor under a grant-everything profile} x {self, person, group, builtin group target} x {present, removed, purged, set, assert on uuid} x {single, after/before a harmless modification, batch, batch second entry, batch after harmless} x {own, other existing, fresh dynamic, fresh reserved uuid value}; creates over a uuid grid around the dynamic-range minimum plus random reserved/dynamic uuids, alone and hidden among valid entries; deletes of every built-in entry by uuid, by name and together with an ordinary entry. Non-trivial = every uuid modification, every reserved-range create, every built-in delete (distinct by enumeration).",
    );
    run.assume("the reserved system range is [0, 00000000-0000-0000-0001-000000000000) as the Base plugin and the property text state; built-in entries are the entries whose uuid lies in it");
    run.assume("a user operation that returns Err is not committed (the request handlers drop the transaction)");
    let seed = args.seed;
    let tier = args.tier;
    // discover the builtin entries and schema names once
    let rt0 = srv::rt();
    let (builtin, attrs, classes) = rt0.block_on(async {
        let sv = Server::new().await;
        let d = sv.dump().await;
        let b: Vec<(Uuid, Option<String>)> = d
            .entries
            .iter()
            .filter(|(u, _)| is_reserved(**u))
            .map(|(u, e)| (*u, srv::dump_strs(e, "name").into_iter().next()))
            .collect();
        let (a, c) = {
            let r = sv.qs.read().await.expect("read");
            use kanidmd_lib::schema::SchemaTransaction;
            let s = r.get_schema();
            let mut a: Vec<String> = s.get_attributes().keys().map(|a| a.to_string()).collect();
            let mut c: Vec<String> = s.get_classes().keys().map(|c| c.to_string()).collect();
            a.sort();
            c.sort();
            (a, c)
        };
        (b, a, c)
    });
    drop(rt0);
    run.extra("builtin_entries", json!(builtin.len()));
    run.extra("schema_attributes_granted", json!(attrs.len()));
    run.extra("schema_classes_granted", json!(classes.len()));
    let cases = all_cases(tier, seed, &builtin);
    run.extra("cases", json!(cases.len()));
    let cases_ref = &cases;
    let attrs_ref = &attrs;
    let classes_ref = &classes;
    run.parallel(args.workers, |w, n| {
        let mut acc = Acc::new();
        let rt = srv::rt();
        let mut sv = rt.block_on(Server::new());
        if let Err(e) = rt.block_on(setup(&mut sv, attrs_ref, classes_ref)) {
            acc.inconclusive(&format!("c20 setup failed: {e:?}"));
            return acc;
        }
        let mut rng = Rng::new(mix(seed, w as u64, 20));
        let mut before = rt.block_on(sv.dump());
        for (i, c) in cases_ref.iter().enumerate() {
            if i % n != w {
                continue;
            }
            match guarded(|| run_case(&rt, &mut sv, &mut acc, &mut rng, i, c, &mut before)) {
                Ok(()) => {}
                Err(msg) => {
                    acc.count("panic_in_kanidm");
                    acc.sample(json!({"panic": msg, "case": format!("{c:?}")}));
                    // the server may hold a poisoned transaction: start over
                    sv = rt.block_on(Server::new());
                    if rt.block_on(setup(&mut sv, attrs_ref, classes_ref)).is_err() {
                        acc.inconclusive("c20 setup failed after a panic");
                        return acc;
                    }
                    before = rt.block_on(sv.dump());
                }
            }
        }
        acc
    });
    for k in ["present", "removed", "purged", "set", "assert"] {
        let n = run.acc.get(&format!("modify.uuid.{k}.ok")) + run.acc.get(&format!("modify.uuid.{k}.err"));
        run.require(n > 0, &format!("no uuid modification of kind {k} was executed"));
    }
    let c_ok = run.acc.get("control.modify.ok");
    let c_err = run.acc.get("control.modify.err");
    run.require(c_ok > 0 && c_ok >= c_err, "positive control: the grant-everything user could not modify description on most ordinary targets");
    run.require(run.acc.get("create.reserved.err") > 0, "no reserved-range create was refused");
    run.require(run.acc.get("create.dynamic.ok") > 0, "positive control: no dynamic-range create succeeded");
    run.require(run.acc.get("create.boundary.reserved.err") > 0 && run.acc.get("create.boundary.dynamic.ok") > 0, "the dynamic-range boundary was not exercised on both sides");
    run.require(run.acc.get("delete.builtin.err") > 0, "no built-in delete was attempted");
    run.require(run.acc.get("control.delete.ok") > 0, "positive control: no ordinary delete succeeded");
    let targets = run.acc.sets.get("builtin_targets").map(|s| s.len()).unwrap_or(0);
    if tier == kvcore::Tier::Thorough {
        run.require(targets == builtin.len(), "not every built-in entry was a delete target");
        run.exhaustive = Some(true);
    } else {
        run.require(targets * 2 >= builtin.len(), "fewer than half of the built-in entries were delete targets");
    }
    run.finish();
}
