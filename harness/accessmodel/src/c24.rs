//! C24 Writes need matching grants; protected objects stay protected.
//!
//! Random configurations (population + random access control profiles on top of the shipped ones),
//! random user operations (modify, batch modify, create, delete, revive) as identities of every scope.
//! Each operation runs in its own write transaction (commit on Ok, drop on Err). After every accepted
//! operation the full dump before / after is compared and judged EFFECT-based against the
//! independent grant model (`model.rs`):
//!   * every attribute whose values an accepted modify added (removed) on an entry must be in the
//!     union of present (removed) attribute grants of the profiles matching that user and that entry;
//!     every class added (removed) must be in the union of their present (remove) class grants;
//!   * every created entry's attributes and classes must be covered by the matching create profiles;
//!   * every deleted entry needs a matching delete profile; every revived one the right to remove
//!     `class` / `recycled`;
//!   * read-only and synchronise scope identities never succeed;
//!   * regardless of grants: no protected class appears on or disappears from an entry (except
//!     `recycled` through delete/revive), tombstones never change, `class` is never purged, protected
//!     or built-in entries are never deleted, no entry is created with a protected class.
//! Denied operations must leave the dump unchanged. Over-restriction is counted, not judged.

use crate::gen::{self, Pop};
use crate::model::*;
use crate::sim::*;
use kanidmd_lib::prelude::*;
use kanidmd_lib::valueset;
use kvcore::rng::mix;
use kvcore::srv::Dump;
use kvcore::{Acc, Args, Rng, Run};
use serde_json::{json, Value as Json};
use std::collections::{BTreeMap, BTreeSet};

#[derive(Clone, Debug)]
pub struct ModSpec {
    pub kind: &'static str,
    pub attr: String,
    pub val: Option<String>,
}

#[derive(Clone, Debug)]
pub struct NewEntry {
    pub uuid: Uuid,
    pub classes: Vec<String>,
    pub attrs: Vec<(String, String)>,
}

#[derive(Clone, Debug)]
pub enum Op {
    Modify { filter: MF, mods: Vec<ModSpec>, raw: bool },
    Batch { mods: Vec<(Uuid, Vec<ModSpec>)> },
    Create { entries: Vec<NewEntry> },
    Delete { filter: MF, raw: bool },
    Revive { filter: MF },
}

impl Op {
    fn kind(&self) -> &'static str {
        match self {
            Op::Modify { .. } => "modify",
            Op::Batch { .. } => "batch",
            Op::Create { .. } => "create",
            Op::Delete { .. } => "delete",
            Op::Revive { .. } => "revive",
        }
    }
    fn describe(&self) -> Json {
        let ms = |m: &Vec<ModSpec>| -> Vec<String> {
            m.iter()
                .map(|s| format!("{}({}{})", s.kind, s.attr, s.val.as_ref().map(|v| format!(", {v}")).unwrap_or_default()))
                .collect()
        };
        match self {
            Op::Modify { filter, mods, raw } => json!({"op": "modify", "filter": filter.to_json(), "mods": ms(mods), "raw_filter": raw}),
            Op::Batch { mods } => json!({"op": "batch_modify", "mods": mods.iter().map(|(u, m)| json!({"uuid": u.to_string(), "mods": ms(m)})).collect::<Vec<_>>()}),
            Op::Create { entries } => json!({"op": "create", "entries": entries.iter().map(|e| json!({"uuid": e.uuid.to_string(), "classes": e.classes, "attrs": e.attrs})).collect::<Vec<_>>()}),
            Op::Delete { filter, raw } => json!({"op": "delete", "filter": filter.to_json(), "raw_filter": raw}),
            Op::Revive { filter } => json!({"op": "revive", "filter": filter.to_json()}),
        }
    }
}

fn value_for(attr: &str, v: &str) -> Option<Value> {
    Some(match attr {
        "class" | "acp_search_attr" => Value::new_iutf8(v),
        "name" => Value::new_iname(v),
        "mail" => Value::new_email_address_s(v)?,
        "member" | "entry_managed_by" => Value::Refer(Uuid::parse_str(v).ok()?),
        "account_expire" | "account_valid_from" => Value::new_datetime_s(v)?,
        "acp_enable" => Value::new_bool(v == "true"),
        "gidnumber" => Value::new_uint32(v.parse().ok()?),
        "uuid" => Value::Uuid(Uuid::parse_str(v).ok()?),
        _ => Value::new_utf8s(v),
    })
}

fn build_mods(specs: &[ModSpec]) -> Option<ModifyList<ModifyInvalid>> {
    let mut out = Vec::new();
    for s in specs {
        let a = Attribute::from(s.attr.as_str());
        let m = match s.kind {
            "present" => Modify::Present(a, value_for(&s.attr, s.val.as_deref()?)?),
            "removed" => Modify::Removed(a, gen::pv_for(&s.attr, s.val.as_deref()?)),
            "purged" => Modify::Purged(a),
            "assert" => Modify::Assert(a, gen::pv_for(&s.attr, s.val.as_deref()?)),
            "set" => {
                let v = value_for(&s.attr, s.val.as_deref()?)?;
                Modify::Set(a, valueset::from_value_iter(std::iter::once(v)).ok()?)
            }
            _ => return None,
        };
        out.push(m);
    }
    Some(ModifyList::new_list(out))
}

fn tag_for(attr: &str) -> &'static str {
    match attr {
        "class" | "acp_search_attr" => "I8",
        "name" => "N8",
        "mail" => "EM",
        "member" | "entry_managed_by" | "sync_parent_uuid" => "RF",
        "uuid" => "UU",
        "acp_enable" => "BO",
        _ => "U8",
    }
}

impl NewEntry {
    fn to_init(&self) -> Option<EInit> {
        let mut e = EInit::new();
        for c in &self.classes {
            e.add_ava(Attribute::Class, Value::new_iutf8(c));
        }
        e.add_ava(Attribute::Uuid, Value::Uuid(self.uuid));
        for (a, v) in &self.attrs {
            let val = match a.as_str() {
                "sync_parent_uuid" => Value::Refer(Uuid::parse_str(v).ok()?),
                "dyngroup_filter" => Value::new_json_filter_s(v)?,
                _ => value_for(a, v)?,
            };
            e.add_ava(Attribute::from(a.as_str()), val);
        }
        Some(e)
    }
    /// the entry as the user submitted it, in model form
    fn to_model(&self) -> MEntry {
        let mut attrs: BTreeMap<String, AttrVal> = BTreeMap::new();
        attrs.insert("class".into(), AttrVal::synthetic("I8", &self.classes));
        attrs.insert("uuid".into(), AttrVal::synthetic("UU", &[self.uuid.to_string()]));
        let mut by: BTreeMap<String, Vec<String>> = BTreeMap::new();
        for (a, v) in &self.attrs {
            by.entry(a.clone()).or_default().push(v.clone());
        }
        for (a, vs) in by {
            attrs.insert(a.clone(), AttrVal::synthetic(tag_for(&a), &vs));
        }
        MEntry { uuid: self.uuid, attrs }
    }
}

// ---- generation -------------------------------------------------------------------------------------

fn pick_target(rng: &mut Rng, pop: &Pop) -> Uuid {
    let pools: [(&[Uuid], u32); 9] = [
        (&pop.persons, 30),
        (&pop.sas, 10),
        (&pop.groups, 25),
        (&pop.oauth2, 3),
        (&pop.apps, 2),
        (&[gen::U_DOMAIN_INFO, gen::U_SYSTEM_CONFIG, gen::U_ALL_PERSONS, gen::U_ADMIN, gen::U_IDM_ADMINS], 10),
        (&pop.recycled, 8),
        (&[], 0),
        (&[], 0),
    ];
    let extra: Vec<Uuid> = pop
        .sync_person
        .iter()
        .chain(pop.sync_account.iter())
        .chain(pop.tombstone.iter())
        .copied()
        .chain(pop.acps.iter().map(|a| a.uuid))
        .collect();
    let ws: Vec<u32> = pools.iter().map(|(p, w)| if p.is_empty() { 0 } else { *w }).chain([12]).collect();
    let i = rng.weighted(&ws);
    if i < pools.len() {
        *rng.pick(pools[i].0)
    } else if extra.is_empty() {
        pop.persons[0]
    } else {
        *rng.pick(&extra)
    }
}

fn target_filter(rng: &mut Rng, pop: &Pop, t: Uuid) -> MF {
    match rng.below(20) {
        0 | 1 => MF::Eq("name".into(), pop.name(t)),
        2 | 3 => MF::Or(vec![
            MF::Eq("uuid".into(), t.to_string()),
            MF::Eq("uuid".into(), pick_target(rng, pop).to_string()),
        ]),
        4 => MF::And(vec![MF::Eq("uuid".into(), t.to_string()), MF::Pres("class".into())]),
        5 => MF::Eq("class".into(), rng.pick(&["group", "person", "service_account"]).to_string()),
        _ => MF::Eq("uuid".into(), t.to_string()),
    }
}

fn fresh_mail(rng: &mut Rng) -> String {
    format!("m{}@c24.example.com", rng.below(1_000_000))
}

/// one random modification on `attr`, aware of the current state of `e` (so that it changes something)
fn mod_on(rng: &mut Rng, pop: &Pop, e: Option<&MEntry>, attr: &str, want_rem: Option<bool>) -> Vec<ModSpec> {
    let ms = |kind: &'static str, val: Option<String>| ModSpec { kind, attr: attr.to_string(), val };
    let existing: Vec<String> = e.map(|e| e.strs(attr)).unwrap_or_default();
    let rem = want_rem.unwrap_or_else(|| rng.chance(2, 5));
    match attr {
        "class" => {
            if rem {
                let pool: Vec<String> = e.map(|e| e.classes().into_iter().collect()).unwrap_or_default();
                let c = if pool.is_empty() || rng.chance(1, 5) {
                    rng.pick(&gen::CLASSES).to_string()
                } else {
                    rng.pick(&pool).clone()
                };
                if rng.chance(1, 12) {
                    vec![ms("purged", None)]
                } else {
                    vec![ms("removed", Some(c))]
                }
            } else {
                vec![ms("present", Some(rng.pick(&gen::CLASSES).to_string()))]
            }
        }
        "member" | "entry_managed_by" => {
            let single = attr == "entry_managed_by";
            if rem {
                if existing.is_empty() || rng.chance(1, 4) {
                    vec![ms("purged", None)]
                } else {
                    vec![ms("removed", Some(rng.pick(&existing).clone()))]
                }
            } else {
                let v = rng.pick(&[pop.persons.clone(), pop.groups.clone(), pop.sas.clone()].concat()).to_string();
                if single {
                    if rng.bool() {
                        vec![ms("set", Some(v))]
                    } else {
                        vec![ms("purged", None), ms("present", Some(v))]
                    }
                } else {
                    vec![ms("present", Some(v))]
                }
            }
        }
        "mail" => {
            if rem {
                if existing.is_empty() || rng.chance(1, 3) {
                    vec![ms("purged", None)]
                } else {
                    vec![ms("removed", Some(rng.pick(&existing).clone()))]
                }
            } else if rng.chance(1, 6) {
                vec![ms("set", Some(fresh_mail(rng)))]
            } else {
                vec![ms("present", Some(fresh_mail(rng)))]
            }
        }
        "name" => {
            let v = format!("n{}", rng.below(100_000));
            if rng.bool() {
                vec![ms("set", Some(v))]
            } else {
                vec![ms("purged", None), ms("present", Some(v))]
            }
        }
        "account_expire" | "account_valid_from" => {
            if rem {
                vec![ms("purged", None)]
            } else {
                vec![ms("set", Some(format!("20{}-01-01T00:00:00Z", 30 + rng.below(40))))]
            }
        }
        "acp_enable" => vec![ms("set", Some(rng.pick(&["true", "false"]).to_string()))],
        "acp_search_attr" => {
            if rem && !existing.is_empty() {
                vec![ms("removed", Some(rng.pick(&existing).clone()))]
            } else {
                vec![ms("present", Some(rng.pick(&gen::READ_ATTRS).to_string()))]
            }
        }
        "gidnumber" => {
            if rem {
                vec![ms("purged", None)]
            } else {
                vec![ms("set", Some(format!("{}", 70000 + rng.below(100000))))]
            }
        }
        // single valued utf8 attributes: displayname, description, legalname
        _ => {
            let v = format!("text {}", rng.below(100_000));
            if rem {
                if existing.is_empty() || rng.bool() {
                    vec![ms("purged", None)]
                } else {
                    vec![ms("removed", Some(existing[0].clone()))]
                }
            } else {
                match rng.below(4) {
                    0 => vec![ms("set", Some(v))],
                    1 if !existing.is_empty() => vec![ms("assert", Some(existing[0].clone())), ms("set", Some(v))],
                    2 if existing.is_empty() => vec![ms("present", Some(v))],
                    _ => vec![ms("purged", None), ms("present", Some(v))],
                }
            }
        }
    }
}

const MOD_ATTRS: [&str; 12] = [
    "class",
    "name",
    "displayname",
    "description",
    "mail",
    "legalname",
    "member",
    "entry_managed_by",
    "account_expire",
    "acp_enable",
    "acp_search_attr",
    "gidnumber",
];

fn random_mods(rng: &mut Rng, pop: &Pop, e: Option<&MEntry>, grant: Option<&ModGrant>) -> Vec<ModSpec> {
    let n = 1 + rng.below(3);
    let mut out = Vec::new();
    for _ in 0..n {
        // with a grant at hand, mostly stay inside it
        if let Some(g) = grant {
            if rng.chance(5, 6) {
                let pres: Vec<&String> = g.pres.iter().filter(|a| MOD_ATTRS.contains(&a.as_str())).collect();
                let rem: Vec<&String> = g.rem.iter().filter(|a| MOD_ATTRS.contains(&a.as_str())).collect();
                let both: Vec<&String> = pres.iter().filter(|a| rem.contains(a)).copied().collect();
                let choice = match rng.below(3) {
                    0 if !both.is_empty() => Some(((*rng.pick(&both)).clone(), None)),
                    1 if !rem.is_empty() => Some(((*rng.pick(&rem)).clone(), Some(true))),
                    _ if !pres.is_empty() => Some(((*rng.pick(&pres)).clone(), Some(false))),
                    _ => None,
                };
                if let Some((a, dir)) = choice {
                    if a == "class" {
                        // choose a class from the class grants when there are any
                        let rem_dir = dir.unwrap_or_else(|| rng.bool());
                        let pool: Vec<&String> = if rem_dir { g.rem_cls.iter().collect() } else { g.pres_cls.iter().collect() };
                        if !pool.is_empty() && rng.chance(3, 4) {
                            let mut cands: Vec<String> = pool.iter().map(|s| (*s).clone()).collect();
                            if rem_dir {
                                let have = e.map(|e| e.classes()).unwrap_or_default();
                                let inter: Vec<String> = cands.iter().filter(|c| have.contains(*c)).cloned().collect();
                                if !inter.is_empty() {
                                    cands = inter;
                                }
                            }
                            out.push(ModSpec {
                                kind: if rem_dir { "removed" } else { "present" },
                                attr: "class".into(),
                                val: Some(rng.pick(&cands).clone()),
                            });
                            continue;
                        }
                    }
                    out.extend(mod_on(rng, pop, e, &a, dir));
                    continue;
                }
            }
        }
        let a = *rng.pick(&MOD_ATTRS);
        out.extend(mod_on(rng, pop, e, a, None));
    }
    out
}

fn random_new_entry(rng: &mut Rng, pop: &Pop, idx: u64) -> NewEntry {
    let uuid = if rng.chance(1, 25) {
        Uuid::from_u128(0x0000_3000_0000u128 + rng.below(1 << 30) as u128)
    } else {
        rng.uuid()
    };
    let name = format!("c{}x{}", idx, rng.below(100_000));
    let mut attrs = vec![("name".to_string(), name.clone())];
    let mut classes: Vec<String> = match rng.below(10) {
        0..=3 => {
            attrs.push(("displayname".into(), name.clone()));
            vec!["object".into(), "account".into(), "person".into()]
        }
        4..=6 => vec!["object".into(), "group".into()],
        7 | 8 => {
            attrs.push(("displayname".into(), name.clone()));
            vec!["object".into(), "account".into(), "service_account".into()]
        }
        _ => vec!["group".into()],
    };
    if classes.contains(&"group".to_string()) && rng.chance(1, 2) {
        attrs.push(("member".into(), rng.pick(&pop.accounts()).to_string()));
    }
    if rng.chance(1, 3) {
        attrs.push(("description".into(), format!("made {idx}")));
    }
    if rng.chance(1, 4) {
        attrs.push(("mail".into(), fresh_mail(rng)));
    }
    if rng.chance(1, 5) {
        attrs.push(("entry_managed_by".into(), rng.pick(&pop.anything()).to_string()));
    }
    // sometimes a protected class rides along
    if rng.chance(1, 6) {
        let c = *rng.pick(&["system", "recycled", "tombstone", "sync_object", "dyngroup", "domain_info", "system_info", "system_config"]);
        classes.push(c.to_string());
        if c == "sync_object" {
            if let Some(sy) = pop.sync_account {
                attrs.push(("sync_parent_uuid".into(), sy.to_string()));
            }
        }
        if c == "dyngroup" {
            attrs.push(("dyngroup_filter".into(), "{\"eq\":[\"class\",\"person\"]}".into()));
        }
    }
    NewEntry { uuid, classes, attrs }
}

struct Planned {
    actor: Uuid,
    scope: Scope,
    op: Op,
    guided: bool,
}

fn plan(rng: &mut Rng, pop: &Pop, world: &World, idx: u64) -> Planned {
    let actors: Vec<Uuid> = pop.accounts().into_iter().chain(pop.sync_person.iter().copied()).collect();
    let scope = match rng.below(25) {
        0..=2 => Scope::ReadOnly,
        3 | 4 => Scope::Synchronise,
        _ => Scope::ReadWrite,
    };
    let kind = rng.weighted(&[45, 10, 18, 15, 12]);
    let guided = rng.chance(3, 5);
    // guided: look (with the model) for an actor/target pair that has some grant, so that accepted
    // operations are frequent enough to be judged
    let tries = if guided { 10 } else { 1 };
    match kind {
        0 | 1 => {
            let mut best: Option<(Uuid, Uuid, Option<ModGrant>)> = None;
            for _ in 0..tries {
                let actor = *rng.pick(&actors);
                let t = pick_target(rng, pop);
                if !guided {
                    best = Some((actor, t, None));
                    break;
                }
                if let (Some(id), Some(e)) = (world.ident(actor, Scope::ReadWrite), world.entries.get(&t)) {
                    let g = modify_grant(world, &id, e);
                    let (s, _) = search_allowed(world, &id, e);
                    if s.contains("uuid") && (!g.pres.is_empty() || !g.rem.is_empty()) {
                        best = Some((actor, t, Some(g)));
                        break;
                    }
                }
                if best.is_none() {
                    best = Some((actor, t, None));
                }
            }
            let (actor, t, g) = best.unwrap_or((actors[0], pop.persons[0], None));
            let e = world.entries.get(&t);
            let hidden = e.map(|e| !e.is_live()).unwrap_or(false);
            let raw = hidden && rng.chance(2, 3) || rng.chance(1, 40);
            if kind == 0 {
                let filter = if g.is_some() && rng.chance(4, 5) { MF::Eq("uuid".into(), t.to_string()) } else { target_filter(rng, pop, t) };
                Planned { actor, scope, op: Op::Modify { filter, mods: random_mods(rng, pop, e, g.as_ref()), raw }, guided }
            } else {
                let mut mods = vec![(t, random_mods(rng, pop, e, g.as_ref()))];
                if rng.chance(1, 2) {
                    let t2 = pick_target(rng, pop);
                    if t2 != t {
                        let e2 = world.entries.get(&t2);
                        let g2 = world.ident(actor, Scope::ReadWrite).zip(e2).map(|(id, e2)| modify_grant(world, &id, e2));
                        mods.push((t2, random_mods(rng, pop, e2, if guided { g2.as_ref() } else { None })));
                    }
                }
                Planned { actor, scope, op: Op::Batch { mods }, guided }
            }
        }
        2 => {
            let mut chosen: Option<(Uuid, Vec<NewEntry>)> = None;
            for _ in 0..tries {
                let actor = *rng.pick(&actors);
                let n = if rng.chance(1, 5) { 2 } else { 1 };
                let es: Vec<NewEntry> = (0..n).map(|_| random_new_entry(rng, pop, idx)).collect();
                if !guided {
                    chosen = Some((actor, es));
                    break;
                }
                if let Some(id) = world.ident(actor, Scope::ReadWrite) {
                    let ok = es.iter().all(|ne| {
                        let m = ne.to_model();
                        let g = create_grant(world, &id, &[&m]);
                        m.attrs.keys().all(|a| g.attrs.contains(a)) && m.classes().iter().all(|c| g.classes.contains(c))
                    });
                    if ok {
                        chosen = Some((actor, es));
                        break;
                    }
                }
                if chosen.is_none() {
                    chosen = Some((actor, es));
                }
            }
            let (actor, entries) = chosen.unwrap_or((actors[0], vec![random_new_entry(rng, pop, idx)]));
            Planned { actor, scope, op: Op::Create { entries }, guided }
        }
        3 => {
            let mut chosen: Option<(Uuid, Uuid)> = None;
            for _ in 0..tries {
                let actor = *rng.pick(&actors);
                let t = pick_target(rng, pop);
                if !guided {
                    chosen = Some((actor, t));
                    break;
                }
                if let (Some(id), Some(e)) = (world.ident(actor, Scope::ReadWrite), world.entries.get(&t)) {
                    if delete_granted(world, &id, e).0 && search_allowed(world, &id, e).0.contains("uuid") {
                        chosen = Some((actor, t));
                        break;
                    }
                }
                if chosen.is_none() {
                    chosen = Some((actor, t));
                }
            }
            let (actor, t) = chosen.unwrap_or((actors[0], pop.persons[0]));
            let hidden = world.entries.get(&t).map(|e| !e.is_live()).unwrap_or(false);
            let raw = hidden && rng.chance(2, 3) || rng.chance(1, 40);
            let filter = if guided && rng.chance(3, 4) { MF::Eq("uuid".into(), t.to_string()) } else { target_filter(rng, pop, t) };
            Planned { actor, scope, op: Op::Delete { filter, raw }, guided }
        }
        _ => {
            // revive: aim at whatever is recycled right now
            let rec: Vec<Uuid> = world.entries.values().filter(|e| e.is_recycled()).map(|e| e.uuid).collect();
            let mut chosen: Option<(Uuid, Uuid)> = None;
            for _ in 0..tries {
                let actor = *rng.pick(&actors);
                let t = if rec.is_empty() || rng.chance(1, 8) { pick_target(rng, pop) } else { *rng.pick(&rec) };
                if !guided {
                    chosen = Some((actor, t));
                    break;
                }
                if let (Some(id), Some(e)) = (world.ident(actor, Scope::ReadWrite), world.entries.get(&t)) {
                    let g = modify_grant(world, &id, e);
                    let s = search_allowed(world, &id, e).0;
                    if g.rem.contains("class") && g.rem_cls.contains("recycled") && s.contains("uuid") && s.contains("class") {
                        chosen = Some((actor, t));
                        break;
                    }
                }
                if chosen.is_none() {
                    chosen = Some((actor, t));
                }
            }
            let (actor, t) = chosen.unwrap_or((actors[0], pop.persons[0]));
            let filter = if rng.chance(1, 5) { MF::Eq("name".into(), pop.name(t)) } else { MF::Eq("uuid".into(), t.to_string()) };
            Planned { actor, scope, op: Op::Revive { filter }, guided }
        }
    }
}

// ---- profiles that make accepted operations likely (still random in receiver and detail) ---------------

fn helper_acps(rng: &mut Rng, pop: &Pop) -> Vec<AcpSpec> {
    let all = |xs: &[&str]| -> Vec<String> { xs.iter().map(|s| s.to_string()).collect() };
    let mut out = Vec::new();
    let g = |rng: &mut Rng| Recv::Group(vec![*rng.pick(&pop.groups)]);
    // read (nearly) everything
    let mut a = AcpSpec::blank(rng.uuid(), "zhelp_read");
    a.search = true;
    a.receiver = if rng.chance(1, 3) { Recv::Group(vec![gen::U_ALL_ACCOUNTS]) } else { g(rng) };
    a.target = Some("{\"pres\":\"class\"}".into());
    a.search_attrs = all(&gen::READ_ATTRS);
    out.push(a);
    // modify people / groups broadly
    let mut a = AcpSpec::blank(rng.uuid(), "zhelp_modify");
    a.modify = true;
    a.search = rng.bool();
    a.receiver = g(rng);
    a.target = Some(
        rng.pick(&[
            "{\"or\":[{\"eq\":[\"class\",\"person\"]},{\"eq\":[\"class\",\"group\"]}]}",
            "{\"pres\":\"class\"}",
            "{\"and\":[{\"eq\":[\"class\",\"account\"]},{\"andnot\":{\"eq\":[\"class\",\"recycled\"]}}]}",
        ])
        .to_string(),
    );
    a.search_attrs = all(&["class", "uuid", "name"]);
    a.pres_attrs = all(&gen::WRITE_ATTRS).into_iter().filter(|_| rng.chance(4, 5)).collect();
    a.rem_attrs = all(&gen::WRITE_ATTRS).into_iter().filter(|_| rng.chance(4, 5)).collect();
    a.modify_class = Some(all(&gen::CLASSES).into_iter().filter(|_| rng.chance(3, 4)).collect());
    out.push(a);
    // create
    let mut a = AcpSpec::blank(rng.uuid(), "zhelp_create");
    a.create = true;
    a.receiver = g(rng);
    a.target = Some(rng.pick(&["{\"pres\":\"class\"}", "{\"or\":[{\"eq\":[\"class\",\"person\"]},{\"eq\":[\"class\",\"group\"]}]}"]).to_string());
    a.create_attrs = all(&["class", "uuid", "name", "displayname", "description", "mail", "member", "entry_managed_by", "sync_parent_uuid", "dyngroup_filter"])
        .into_iter()
        .filter(|x| x == "class" || x == "uuid" || x == "name" || rng.chance(5, 6))
        .collect();
    a.create_classes = all(&gen::CLASSES).into_iter().filter(|_| rng.chance(5, 6)).collect();
    out.push(a);
    // delete
    let mut a = AcpSpec::blank(rng.uuid(), "zhelp_delete");
    a.delete = true;
    a.receiver = g(rng);
    a.target = Some(rng.pick(&["{\"pres\":\"class\"}", "{\"or\":[{\"eq\":[\"class\",\"person\"]},{\"eq\":[\"class\",\"group\"]}]}"]).to_string());
    out.push(a);
    // recycle bin
    let mut a = AcpSpec::blank(rng.uuid(), "zhelp_revive");
    a.modify = true;
    a.search = true;
    a.receiver = g(rng);
    a.target = Some("{\"eq\":[\"class\",\"recycled\"]}".into());
    a.search_attrs = all(&["class", "uuid", "name"]);
    a.rem_attrs = all(&["class"]);
    a.rem_class = Some(all(&["recycled"]));
    if rng.bool() {
        a.pres_attrs = all(&["class", "description"]);
        a.modify_class = Some(all(&["recycled", "tombstone", "person"]));
    }
    out.push(a);
    out
}

// ---- execution and judgement -----------------------------------------------------------------------

fn run_op(rt: &tokio::runtime::Runtime, sv: &mut Server, p: &Planned) -> OpOutcome {
    rt.block_on(async {
        let ident = match sv.ident(p.actor, p.scope).await {
            Ok(i) => i,
            Err(e) => {
                return OpOutcome { ok: false, err: Some(format!("harness-ident:{e:?}")), committed: false };
            }
        };
        let op = p.op.clone();
        sv.user_op(move |w| match &op {
            Op::Modify { filter, mods, raw } => {
                let ml = build_mods(mods).ok_or(OperationError::InvalidRequestState)?;
                let me = ev_modify(w, ident, &gen::to_filter(filter), &ml, *raw)?;
                w.modify(&me)
            }
            Op::Batch { mods } => {
                let mut v = Vec::new();
                for (u, m) in mods {
                    v.push((*u, build_mods(m).ok_or(OperationError::InvalidRequestState)?));
                }
                let be = ev_batch(w, ident, &v)?;
                w.batch_modify(&be)
            }
            Op::Create { entries } => {
                let mut es = Vec::new();
                for ne in entries {
                    es.push(ne.to_init().ok_or(OperationError::InvalidRequestState)?);
                }
                w.create(&ev_create(ident, es)).map(|_| ())
            }
            Op::Delete { filter, raw } => {
                let de = ev_delete(w, ident, &gen::to_filter(filter), *raw)?;
                w.delete(&de)
            }
            Op::Revive { filter } => {
                let re = ev_revive(w, ident, &gen::to_filter(filter))?;
                w.revive_recycled(&re)
            }
        })
        .await
    })
}

fn set_of(e: Option<&MEntry>, attr: &str) -> (bool, Option<BTreeSet<String>>, Option<Json>) {
    match e.and_then(|e| e.attrs.get(attr)) {
        None => (false, Some(BTreeSet::new()), None),
        Some(a) => (true, a.elements(), Some(a.raw.clone())),
    }
}

struct Verdicts {
    v: Vec<(String, Json)>,
}

impl Verdicts {
    fn add(&mut self, sig: &str, detail: Json) {
        self.v.push((sig.to_string(), detail));
    }
}

/// Judge one ACCEPTED operation from the dumps around it.
fn judge_ok(
    acc: &mut Acc,
    p: &Planned,
    pre: &World,
    post: &World,
    pop: &Pop,
) -> Verdicts {
    let mut out = Verdicts { v: Vec::new() };
    let kind = p.op.kind();
    let base = |extra: Json| -> Json {
        json!({"actor": pop.name(p.actor), "actor_uuid": p.actor.to_string(), "scope": p.scope.name(), "operation": p.op.describe(), "finding": extra})
    };
    // scope
    if p.scope != Scope::ReadWrite {
        out.add(
            &format!("c24/{}-scope-{}-succeeded", p.scope.name(), kind),
            base(json!("an identity without read-write scope completed a write operation")),
        );
    }
    let ident = pre.ident(p.actor, p.scope);
    let judge_grants = match &ident {
        Some(i) if i.memberof_consistent => true,
        _ => {
            acc.count("skipped.memberof_inconsistent_or_missing_ident");
            if let Some(i) = &ident {
                let stored = i.entry.refs("memberof");
                acc.observe(
                    "memberof_mismatch",
                    &format!(
                        "bfs-only={:?} stored-only={:?}",
                        i.memberof.difference(&stored).map(|u| (pop.name(*u), pre.entries.get(u).map(|e| e.classes()))).collect::<Vec<_>>(),
                        stored.difference(&i.memberof).map(|u| (pop.name(*u), pre.entries.get(u).map(|e| e.classes()))).collect::<Vec<_>>()
                    ),
                );
            }
            false
        }
    };
    // which attributes each entry's modlist named
    let mut named: BTreeMap<Option<Uuid>, BTreeSet<String>> = BTreeMap::new();
    // classes the request itself asked to add / remove, per entry (plugins also edit `class`: the
    // membership plugin adds `memberof`, the base plugin restores `object`; those are not the user's)
    let mut cls_req: BTreeMap<Option<Uuid>, (BTreeSet<String>, BTreeSet<String>, bool)> = BTreeMap::new();
    let class_req = |ms: &Vec<ModSpec>| -> (BTreeSet<String>, BTreeSet<String>, bool) {
        let mut add = BTreeSet::new();
        let mut rem = BTreeSet::new();
        let mut wipe = false;
        for m in ms.iter().filter(|m| m.attr == "class") {
            match m.kind {
                "present" => {
                    add.extend(m.val.iter().map(|v| v.to_lowercase()));
                }
                "removed" => {
                    rem.extend(m.val.iter().map(|v| v.to_lowercase()));
                }
                "set" => {
                    add.extend(m.val.iter().map(|v| v.to_lowercase()));
                    wipe = true;
                }
                "purged" => wipe = true,
                _ => {}
            }
        }
        (add, rem, wipe)
    };
    let mut purged_class = false;
    match &p.op {
        Op::Modify { mods, .. } => {
            named.insert(None, mods.iter().map(|m| m.attr.clone()).collect());
            cls_req.insert(None, class_req(mods));
            purged_class = mods.iter().any(|m| m.kind == "purged" && m.attr == "class");
        }
        Op::Batch { mods } => {
            for (u, ms) in mods {
                named.insert(Some(*u), ms.iter().map(|m| m.attr.clone()).collect());
                cls_req.insert(Some(*u), class_req(ms));
                purged_class |= ms.iter().any(|m| m.kind == "purged" && m.attr == "class");
            }
        }
        _ => {}
    }
    if purged_class {
        out.add("c24/purge-class-accepted", base(json!("a modification list purging `class` returned Ok")));
    }

    // -------- protected-object rules, on every entry, whatever the operation
    for (u, pe) in &pre.entries {
        let qe = post.entries.get(u);
        if pe.is_tombstone() {
            if qe.map(|q| q.attrs != pe.attrs).unwrap_or(true) {
                out.add(
                    &format!("c24/tombstone-changed-by-{kind}"),
                    base(json!({"entry": u.to_string(), "explanation": "a tombstone differs after an accepted user operation"})),
                );
            }
            continue;
        }
        let Some(qe) = qe else { continue };
        let pc = pe.classes();
        let qc = qe.classes();
        for c in qc.difference(&pc) {
            if is_protected_class(c) && !(c == "recycled" && kind == "delete") {
                out.add(
                    &format!("c24/protected-class-added/{c}/by-{kind}"),
                    base(json!({"entry": pop.name(*u), "entry_uuid": u.to_string(), "classes_before": pc, "classes_after": qc})),
                );
            }
        }
        for c in pc.difference(&qc) {
            if is_protected_class(c) && !(c == "recycled" && kind == "revive") {
                out.add(
                    &format!("c24/protected-class-removed/{c}/by-{kind}"),
                    base(json!({"entry": pop.name(*u), "entry_uuid": u.to_string(), "classes_before": pc, "classes_after": qc})),
                );
            }
        }
    }

    match &p.op {
        Op::Modify { .. } | Op::Batch { .. } => {
            for (u, pe) in &pre.entries {
                let Some(qe) = post.entries.get(u) else { continue };
                let attrs = match named.get(&Some(*u)).or_else(|| named.get(&None)) {
                    Some(a) => a,
                    None => continue,
                };
                let mut grant: Option<ModGrant> = None;
                for a in attrs {
                    let (_, pset, praw) = set_of(Some(pe), a);
                    let (_, qset, qraw) = set_of(Some(qe), a);
                    if praw == qraw {
                        continue;
                    }
                    acc.count("modify.effective_attr_changes");
                    if !judge_grants {
                        continue;
                    }
                    let Some(id) = &ident else { continue };
                    let g = grant.get_or_insert_with(|| modify_grant(pre, id, pe));
                    let witness = |what: &str, g: &ModGrant| {
                        json!({"entry": pop.name(*u), "entry_uuid": u.to_string(), "entry_classes": pe.classes(), "attribute": a, "what": what,
                               "before": praw, "after": qraw,
                               "model_matching_profiles": g.why, "model_present_attrs": g.pres, "model_removed_attrs": g.rem,
                               "model_present_classes": g.pres_cls, "model_remove_classes": g.rem_cls,
                               "actor_memberof": id.memberof.iter().map(|m| pop.name(*m)).collect::<Vec<_>>()})
                    };
                    match (pset, qset) {
                        (Some(ps), Some(qs)) => {
                            let mut added: Vec<&String> = qs.difference(&ps).collect();
                            let mut removed: Vec<&String> = ps.difference(&qs).collect();
                            {
                                // a direction the request did not ask for on this attribute is a plugin's doing
                                // (e.g. the gid plugin regenerating a purged gidnumber)
                                let ms: Vec<&ModSpec> = match &p.op {
                                    Op::Modify { mods, .. } => mods.iter().filter(|m| &m.attr == a).collect(),
                                    Op::Batch { mods } => mods.iter().filter(|(bu, _)| bu == u).flat_map(|(_, ms)| ms.iter()).filter(|m| &m.attr == a).collect(),
                                    _ => vec![],
                                };
                                let asks_add = ms.iter().any(|m| m.kind == "present" || m.kind == "set");
                                let asks_rem = ms.iter().any(|m| m.kind == "removed" || m.kind == "purged" || m.kind == "set");
                                if !asks_add && !added.is_empty() {
                                    added.clear();
                                    acc.count("modify.value_changes_by_plugins(not judged)");
                                }
                                if !asks_rem && !removed.is_empty() {
                                    removed.clear();
                                    acc.count("modify.value_changes_by_plugins(not judged)");
                                }
                            }
                            if a == "class" {
                                // only the class changes the request asked for are the user's doing
                                let (radd, rrem, wipe) = cls_req.get(&Some(*u)).or_else(|| cls_req.get(&None)).cloned().unwrap_or_default();
                                let before = (added.len(), removed.len());
                                added.retain(|c| radd.contains(&c.to_lowercase()));
                                removed.retain(|c| wipe || rrem.contains(&c.to_lowercase()));
                                if before != (added.len(), removed.len()) {
                                    acc.count("modify.class_changes_by_plugins(not judged)");
                                }
                            }
                            if !added.is_empty() && !g.pres.contains(a) {
                                out.add("c24/modify-added-values-without-present-grant", base(witness("values were added", g)));
                            }
                            if !removed.is_empty() && !g.rem.contains(a) {
                                out.add("c24/modify-removed-values-without-remove-grant", base(witness("values were removed", g)));
                            }
                            if a == "class" {
                                for c in added {
                                    if !g.pres_cls.contains(&c.to_lowercase()) {
                                        out.add("c24/modify-added-class-without-class-grant", base(witness(&format!("class {c} was added"), g)));
                                    }
                                }
                                for c in removed {
                                    if !g.rem_cls.contains(&c.to_lowercase()) {
                                        out.add("c24/modify-removed-class-without-class-grant", base(witness(&format!("class {c} was removed"), g)));
                                    }
                                }
                            }
                        }
                        _ => {
                            // cannot tell added from removed: at least one direction must be granted
                            if !g.pres.contains(a) && !g.rem.contains(a) {
                                out.add("c24/modify-changed-attr-without-any-grant", base(witness("the stored value changed", g)));
                            }
                        }
                    }
                }
            }
        }
        Op::Create { entries } => {
            for (u, qe) in &post.entries {
                if pre.entries.contains_key(u) {
                    continue;
                }
                acc.count("create.entries_created");
                let qc = qe.classes();
                for c in &qc {
                    if is_protected_class(c) {
                        out.add(
                            &format!("c24/created-with-protected-class/{c}"),
                            base(json!({"entry_uuid": u.to_string(), "classes": qc})),
                        );
                    }
                }
                let Some(ne) = entries.iter().find(|e| e.uuid == *u) else {
                    acc.count("create.unexpected_extra_entry");
                    continue;
                };
                if !judge_grants {
                    continue;
                }
                let Some(id) = &ident else { continue };
                let sub = ne.to_model();
                let g = create_grant(pre, id, &[&sub, qe]);
                let missing_a: Vec<&String> = sub.attrs.keys().filter(|a| !g.attrs.contains(*a)).collect();
                let missing_c: Vec<String> = sub.classes().into_iter().filter(|c| !g.classes.contains(c)).collect();
                if !missing_a.is_empty() || !missing_c.is_empty() {
                    let sig = if g.why.is_empty() { "c24/create-without-matching-profile" } else if !missing_c.is_empty() { "c24/create-class-not-granted" } else { "c24/create-attr-not-granted" };
                    out.add(
                        sig,
                        base(json!({"entry_uuid": u.to_string(), "attrs_not_granted": missing_a, "classes_not_granted": missing_c,
                                    "model_matching_profiles": g.why, "model_attrs": g.attrs, "model_classes": g.classes,
                                    "actor_memberof": id.memberof.iter().map(|m| pop.name(*m)).collect::<Vec<_>>()})),
                    );
                }
            }
        }
        Op::Delete { .. } => {
            for (u, pe) in &pre.entries {
                let Some(qe) = post.entries.get(u) else { continue };
                if !(pe.is_live() && !qe.is_live()) {
                    continue;
                }
                acc.count("delete.entries_deleted");
                if qe.attrs.contains_key("cascade_deleted") {
                    acc.count("delete.cascade_not_judged");
                    continue;
                }
                let pc = pe.classes();
                if pc.iter().any(|c| is_protected_class(c)) {
                    out.add("c24/protected-entry-deleted", base(json!({"entry": pop.name(*u), "entry_uuid": u.to_string(), "classes": pc})));
                }
                if is_reserved(*u) {
                    out.add("c24/builtin-entry-deleted", base(json!({"entry": pop.name(*u), "entry_uuid": u.to_string(), "classes": pc})));
                }
                if !judge_grants {
                    continue;
                }
                let Some(id) = &ident else { continue };
                let (ok, why) = delete_granted(pre, id, pe);
                if !ok {
                    out.add(
                        "c24/delete-without-matching-profile",
                        base(json!({"entry": pop.name(*u), "entry_uuid": u.to_string(), "classes": pc, "model_matching_profiles": why,
                                    "actor_memberof": id.memberof.iter().map(|m| pop.name(*m)).collect::<Vec<_>>()})),
                    );
                }
            }
        }
        Op::Revive { .. } => {
            for (u, pe) in &pre.entries {
                let Some(qe) = post.entries.get(u) else { continue };
                if !(pe.is_recycled() && qe.is_live()) {
                    continue;
                }
                acc.count("revive.entries_revived");
                if pe.attrs.contains_key("cascade_deleted") {
                    acc.count("revive.cascade_not_judged");
                    continue;
                }
                if !judge_grants {
                    continue;
                }
                let Some(id) = &ident else { continue };
                let g = modify_grant(pre, id, pe);
                if !g.rem.contains("class") || !g.rem_cls.contains("recycled") {
                    out.add(
                        "c24/revive-without-remove-recycled-grant",
                        base(json!({"entry": pop.name(*u), "entry_uuid": u.to_string(), "model_matching_profiles": g.why,
                                    "model_removed_attrs": g.rem, "model_remove_classes": g.rem_cls,
                                    "actor_memberof": id.memberof.iter().map(|m| pop.name(*m)).collect::<Vec<_>>()})),
                    );
                }
            }
        }
    }
    out
}

/// What the model would have said about a refused operation (only counted: over-restriction is not judged).
fn count_refused(acc: &mut Acc, p: &Planned, out: &OpOutcome) {
    acc.count(&format!("{}.err", p.op.kind()));
    acc.observe(&format!("{}_errors", p.op.kind()), &out.err_class());
    if p.scope != Scope::ReadWrite {
        acc.count(&format!("scope.{}.refused", p.scope.name()));
    }
}

pub fn run(args: Args) {
    let mut run = Run::new(
        args.clone(),
        "exploration",
        "random configurations (6 persons, 3 service accounts, 6 groups with random nesting and entry managers, OAuth2 clients, application, sync agreement + synced person, recycled entries, a tombstone, built-in protected entries) x 5 biased + 1..6 random access control profiles on top of the shipped ones x random modify / batch modify / create / delete / revive operations as random identities of rw / ro / synchronise scope, 60% of them steered by the model towards actor/target pairs that hold some grant. Non-trivial = an accepted operation (judged against the model) or a refused one aimed at a protected object; distinct by (configuration, operation).",
    );
    run.assume("an operation that returns Err is dropped, one that returns Ok is committed (as the request handlers do)");
    run.assume("the identity of the acting user is loaded from the committed state just before each operation, so its memberof is current");
    run.assume("protected classes are restated from access/protected.rs: system, domain_info, system_info, system_config, dyngroup, sync_object, tombstone, recycled");
    let seed = args.seed;
    let tier = args.tier;
    let configs_per_worker = tier.pick(4usize, 60usize);
    let ops_per_config = tier.pick(70u64, 120u64);
    // --replay <file>: re-run exactly the configuration of the witness (its config_seed)
    let replay_seed: Option<u64> = args
        .replay
        .as_ref()
        .and_then(|p| kvcore::run::load_replay(p))
        .and_then(|w| w.get("config_seed").and_then(|v| v.as_u64()));
    if args.replay.is_some() && replay_seed.is_none() {
        run.require(false, "the replay file carries no config_seed");
    }
    run.parallel(if replay_seed.is_some() { 1 } else { args.workers }, |w, _n| {
        let mut acc = Acc::new();
        let rt = kvcore::srv::rt();
        for c in 0..(if replay_seed.is_some() { 1 } else { configs_per_worker }) {
            let cseed = replay_seed.unwrap_or_else(|| mix(seed, w as u64, 2400 + c as u64));
            let mut rng = Rng::new(cseed);
            let mut sv = rt.block_on(Server::new());
            let n_acps = 1 + rng.below(6) as usize;
            let mut pop = match rt.block_on(gen::build(&mut sv, &mut rng, n_acps)) {
                Ok(p) => p,
                Err(e) => {
                    acc.count("config.setup_failed");
                    acc.observe("setup_errors", &e);
                    continue;
                }
            };
            for spec in helper_acps(&mut rng, &pop) {
                if let Some(e) = e_acp(&spec) {
                    if rt.block_on(sv.setup(|w| w.internal_create(vec![e]))).is_ok() {
                        pop.names.insert(spec.uuid, spec.name.clone());
                        pop.acps.push(spec);
                    }
                }
            }
            acc.count("config.built");
            let mut dump: Dump = rt.block_on(sv.dump());
            let mut world = World::from_dump(&dump);
            for i in 0..ops_per_config {
                let p = plan(&mut rng, &pop, &world, i);
                acc.eval();
                let kind = p.op.kind();
                let res = guarded(|| run_op(&rt, &mut sv, &p));
                let out = match res {
                    Ok(o) => o,
                    Err(msg) => {
                        acc.count("panic_in_kanidm");
                        acc.sample(json!({"panic": msg, "operation": p.op.describe(), "config_seed": cseed}));
                        break; // server state unknown: next configuration
                    }
                };
                if out.err.as_deref().is_some_and(|e| e.starts_with("harness-")) {
                    acc.count("harness.ident_unavailable");
                    continue;
                }
                if out.ok {
                    let ndump = rt.block_on(sv.dump());
                    let nworld = World::from_dump(&ndump);
                    acc.count(&format!("{kind}.ok"));
                    if p.guided {
                        acc.count("ok.guided");
                    }
                    acc.nontrivial(&format!("{cseed}:{i}"));
                    let vs = judge_ok(&mut acc, &p, &world, &nworld, &pop);
                    for (sig, mut detail) in vs.v {
                        if let Some(m) = detail.as_object_mut() {
                            m.insert("config_seed".into(), json!(cseed));
                            m.insert("op_index".into(), json!(i));
                            m.insert("extra_profiles".into(), json!(pop.acps.iter().map(|a| a.describe()).collect::<Vec<_>>()));
                        }
                        acc.violation(&sig, detail);
                    }
                    if acc.samples.len() < 4 && i % 17 == 3 {
                        acc.sample(json!({"accepted": p.op.describe(), "actor": pop.name(p.actor), "scope": p.scope.name()}));
                    }
                    dump = ndump;
                    world = nworld;
                } else {
                    count_refused(&mut acc, &p, &out);
                    // after a denial the dump is unchanged (sampled: it costs a full dump)
                    if i % 4 == 0 {
                        let ndump = rt.block_on(sv.dump());
                        acc.count("denied.dump_compared");
                        if ndump != dump {
                            acc.violation(
                                &format!("c24/state-changed-after-refused-{kind}"),
                                json!({"operation": p.op.describe(), "error": out.err, "diff": dump.diff(&ndump), "config_seed": cseed, "op_index": i}),
                            );
                            dump = ndump;
                            world = World::from_dump(&dump);
                        }
                    }
                    // refused operations on protected objects are the negative cases of the "regardless of grants" clause
                    let protected_aim = match &p.op {
                        Op::Modify { mods, .. } => mods.iter().any(|m| m.attr == "class"),
                        Op::Batch { mods } => mods.iter().any(|(_, ms)| ms.iter().any(|m| m.attr == "class")),
                        Op::Create { entries } => entries.iter().any(|e| e.classes.iter().any(|c| is_protected_class(c)) || is_reserved(e.uuid)),
                        Op::Delete { .. } | Op::Revive { .. } => true,
                    };
                    if protected_aim {
                        acc.nontrivial(&format!("{cseed}:{i}"));
                        acc.count("refused.aimed_at_protected_rule");
                    }
                }
            }
        }
        acc.count_n("model.unknown_filter_evaluations", UNKNOWN_EVALS.swap(0, std::sync::atomic::Ordering::Relaxed));
        acc
    });
    for k in ["modify", "batch", "create", "delete", "revive"] {
        run.require(run.acc.get(&format!("{k}.ok")) > 0, &format!("no {k} operation was ever accepted (nothing judged against the model)"));
        run.require(run.acc.get(&format!("{k}.err")) > 0, &format!("no {k} operation was ever refused"));
    }
    run.require(run.acc.get("scope.ro.refused") > 0 && run.acc.get("scope.sync.refused") > 0, "read-only / synchronise scope identities were not exercised");
    run.require(run.acc.get("modify.effective_attr_changes") > 0, "no accepted modify changed a named attribute");
    run.require(run.acc.get("create.entries_created") > 0 && run.acc.get("delete.entries_deleted") > 0 && run.acc.get("revive.entries_revived") > 0, "create / delete / revive effects were not observed");
    run.require(run.acc.get("refused.aimed_at_protected_rule") > 0, "no refused operation aimed at a protected rule");
    run.require(run.acc.get("config.built") > run.acc.get("config.setup_failed"), "most configurations failed to set up");
    run.finish();
}
