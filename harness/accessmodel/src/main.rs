//! accessmodel engine. See /verif/DESIGN.md section 2 and /verif/harness/AGENT_GUIDE.md.
#[macro_use]
extern crate kanidmd_lib;

mod c20;
mod c23;
mod c24;
mod c25;
mod gen;
mod model;
mod probe;
mod sim;

fn main() {
    let args = kvcore::parse_args();
    match args.prop.as_str() {
        "C20" => c20::run(args),
        "C23" => c23::run(args),
        "C24" => c24::run(args),
        "C25" => c25::run(args),
        "PROBE" => probe::run(args),
        p => {
            println!("INCONCLUSIVE property={p} reason=accessmodel does not serve this property yet");
            std::process::exit(2);
        }
    }
}
