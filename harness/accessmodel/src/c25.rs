//! C25 Default roles cannot act on high-privilege accounts.
//!
//! Default server, shipped access control profiles only. The built-in role groups are read from the
//! live database (groups named idm_*, not dynamic, not themselves inside the closure of
//! idm_high_privilege). For every enumerated subset of them the acting user (a person, and a service
//! account) is made a member (directly, or through an intermediate ordinary group) and then tries every
//! credential-, session- and account-detail-bearing attribute x {present, remove, purge} on
//! high-privilege persons / service accounts, and `member` x {present, remove, purge} on high-privilege
//! groups. Oracle: acting user outside the high-privilege closure + target inside it (and not
//! delegated to a non-high-privilege entry manager) => the modify must not return Ok.
//! Non-high-privilege controls (the user itself, a service account and a group it manages, and a
//! high-privilege actor doing the same operations) show that the operations are well formed.

use crate::model::{MEntry, World};
use crate::sim::*;
use kanidm_lib_crypto::CryptoPolicy;
use kanidmd_lib::credential::Credential;
use kanidmd_lib::prelude::*;
use kvcore::{Acc, Args, Run};
use serde_json::json;
use std::collections::BTreeSet;

const U_HP: Uuid = uuid!("00000000-0000-0000-0000-000000001000");
const U_PEOPLE_ADMINS: Uuid = uuid!("00000000-0000-0000-0000-000000000013");
const U_IDM_ADMINS: Uuid = uuid!("00000000-0000-0000-0000-000000000001");
const U_SERVICE_DESK: Uuid = uuid!("00000000-0000-0000-0000-000000000041");
const U_ACCESS_CONTROL_ADMINS: Uuid = uuid!("00000000-0000-0000-0000-000000000011");
const U_IDM_ADMIN_ACCOUNT: Uuid = uuid!("00000000-0000-0000-0000-000000000018");

const U_ACT_P: Uuid = uuid!("c2500000-0000-4000-8000-000000000001");
const U_ACT_S: Uuid = uuid!("c2500000-0000-4000-8000-000000000002");
const U_VIA: Uuid = uuid!("c2500000-0000-4000-8000-000000000003");
const U_HP_DIRECT: Uuid = uuid!("c2500000-0000-4000-8000-000000000011");
const U_HP_ROLE: Uuid = uuid!("c2500000-0000-4000-8000-000000000012");
const U_HP_NESTED: Uuid = uuid!("c2500000-0000-4000-8000-000000000013");
const U_HP_SA: Uuid = uuid!("c2500000-0000-4000-8000-000000000014");
const U_HP_CG: Uuid = uuid!("c2500000-0000-4000-8000-000000000015");
const U_NP: Uuid = uuid!("c2500000-0000-4000-8000-000000000021");
const U_NS: Uuid = uuid!("c2500000-0000-4000-8000-000000000022");
const U_NG: Uuid = uuid!("c2500000-0000-4000-8000-000000000023");
const U_HP_ACTOR: Uuid = uuid!("c2500000-0000-4000-8000-000000000031");
const U_SPARE: Uuid = uuid!("c2500000-0000-4000-8000-000000000041");

const SSH_KEY: &str = "ssh-ed25519 AAAAC3NzaC1lZDI1NTE5AAAAIAeGW1P6Pc2rPq0XqbRaDKBcXZUPRklo0L1EyR30CwoP c25@example";

/// credential-, session- and account-detail-bearing attributes of accounts
const ACCOUNT_ATTRS: [&str; 24] = [
    // credentials
    "primary_credential",
    "passkeys",
    "attested_passkeys",
    "unix_password",
    "radius_secret",
    "ssh_publickey",
    "application_password",
    "credential_update_intent_token",
    // sessions
    "user_auth_token_session",
    "api_token_session",
    "oauth2_session",
    "oauth2_consent_scope_map",
    // account details
    "name",
    "displayname",
    "legalname",
    "mail",
    "account_expire",
    "account_valid_from",
    "entry_managed_by",
    "gidnumber",
    "loginshell",
    "description",
    "class",
    "account_softlock_expire",
];

fn present_value(attr: &str, tag: u64) -> Option<Value> {
    Some(match attr {
        "primary_credential" | "unix_password" => {
            let c = Credential::new_password_only(&CryptoPolicy::danger_test_minimum(), "c25 password value", time::OffsetDateTime::UNIX_EPOCH).ok()?;
            Value::new_credential(if attr == "primary_credential" { "primary" } else { "unix" }, c)
        }
        "radius_secret" => Value::new_secret_str("c25-radius-secret"),
        "ssh_publickey" => Value::new_sshkey_str("c25key", SSH_KEY).ok()?,
        "name" => Value::new_iname(&format!("c25renamed{tag}")),
        "displayname" | "legalname" | "description" => Value::new_utf8s(&format!("c25 text {tag}")),
        "loginshell" => Value::new_iutf8("/bin/c25sh"),
        "mail" => Value::new_email_address_s(&format!("c25.{tag}@example.com"))?,
        "account_expire" | "account_valid_from" | "account_softlock_expire" => Value::new_datetime_s("2031-01-01T00:00:00Z")?,
        "entry_managed_by" => Value::Refer(U_SPARE),
        "gidnumber" => Value::new_uint32(80000 + (tag % 10000) as u32),
        "class" => Value::new_iutf8("posixaccount"),
        "member" => Value::Refer(U_SPARE),
        _ => return None,
    })
}

fn remove_value(attr: &str, target: &MEntry) -> Option<PartialValue> {
    let first = target.strs(attr).into_iter().next();
    Some(match attr {
        "primary_credential" => PartialValue::Cred("primary".into()),
        "unix_password" => PartialValue::Cred("unix".into()),
        "radius_secret" => PartialValue::SecretValue,
        "ssh_publickey" => PartialValue::SshKey("c25key".into()),
        "passkeys" => PartialValue::Passkey(U_SPARE),
        "attested_passkeys" => PartialValue::AttestedPasskey(U_SPARE),
        "credential_update_intent_token" => PartialValue::IntentToken("c25-token".into()),
        "user_auth_token_session" | "api_token_session" | "oauth2_session" | "oauth2_consent_scope_map" | "application_password" => PartialValue::Refer(U_SPARE),
        "name" => PartialValue::new_iname(&first.unwrap_or_else(|| "nobody".into())),
        "displayname" | "legalname" | "description" => PartialValue::new_utf8s(&first.unwrap_or_else(|| "nothing".into())),
        "loginshell" => PartialValue::new_iutf8("/bin/c25sh"),
        "mail" => PartialValue::new_email_address_s(&first.unwrap_or_else(|| "nobody@example.com".into())),
        "entry_managed_by" | "member" => PartialValue::Refer(first.and_then(|s| Uuid::parse_str(&s).ok()).unwrap_or(U_SPARE)),
        "gidnumber" => PartialValue::new_uint32(80000),
        "class" => PartialValue::new_iutf8("posixaccount"),
        _ => return None,
    })
}

#[derive(Clone, Copy, Debug, PartialEq, Eq)]
enum MKind {
    Present,
    Remove,
    Purge,
}

fn build(attr: &str, kind: MKind, target: &MEntry, tag: u64) -> Option<ModifyList<ModifyInvalid>> {
    let a = Attribute::from(attr);
    let m = match kind {
        MKind::Present => Modify::Present(a, present_value(attr, tag)?),
        MKind::Remove => Modify::Removed(a, remove_value(attr, target)?),
        MKind::Purge => Modify::Purged(a),
    };
    Some(ModifyList::new_list(vec![m]))
}

#[derive(Clone, Debug)]
struct Target {
    uuid: Uuid,
    label: &'static str,
    /// "person" | "service-account" | "group"
    kind: &'static str,
    hp_expected: bool,
}

fn targets() -> Vec<Target> {
    vec![
        Target { uuid: U_HP_DIRECT, label: "hp person (direct member of idm_high_privilege)", kind: "person", hp_expected: true },
        Target { uuid: U_HP_ROLE, label: "hp person (member of idm_people_admins)", kind: "person", hp_expected: true },
        Target { uuid: U_HP_NESTED, label: "hp person (via ordinary group inside idm_service_desk)", kind: "person", hp_expected: true },
        Target { uuid: U_HP_SA, label: "hp service account (member of idm_admins)", kind: "service-account", hp_expected: true },
        Target { uuid: U_IDM_ADMIN_ACCOUNT, label: "builtin idm_admin", kind: "service-account", hp_expected: true },
        Target { uuid: U_PEOPLE_ADMINS, label: "hp group idm_people_admins", kind: "group", hp_expected: true },
        Target { uuid: U_HP, label: "hp group idm_high_privilege", kind: "group", hp_expected: true },
        Target { uuid: U_HP_CG, label: "hp ordinary group (member of idm_service_desk)", kind: "group", hp_expected: true },
        Target { uuid: U_NP, label: "control: other non-hp person", kind: "person", hp_expected: false },
        Target { uuid: U_NS, label: "control: non-hp service account managed by the actor", kind: "service-account", hp_expected: false },
        Target { uuid: U_NG, label: "control: non-hp group managed by the actor", kind: "group", hp_expected: false },
    ]
}

async fn setup(sv: &mut Server, actor: Uuid, roles: &[Uuid], nested: bool) -> Result<(), OperationError> {
    sv.setup(|w| {
        w.internal_create(vec![
            e_person(Some(U_ACT_P), "c25_actor_person"),
            e_service_account(Some(U_ACT_S), "c25_actor_sa", None),
            e_person(Some(U_SPARE), "c25_spare"),
            e_person(Some(U_HP_DIRECT), "c25_hp_direct"),
            e_person(Some(U_HP_ROLE), "c25_hp_role"),
            e_person(Some(U_HP_NESTED), "c25_hp_nested"),
            e_service_account(Some(U_HP_SA), "c25_hp_sa", None),
            e_group(Some(U_HP_CG), "c25_hp_cg", &[U_HP_NESTED], None),
            e_person(Some(U_NP), "c25_np"),
            e_service_account(Some(U_NS), "c25_ns", Some(actor)),
            e_group(Some(U_NG), "c25_ng", &[U_NP], Some(actor)),
            e_person(Some(U_HP_ACTOR), "c25_hp_actor"),
            e_group(Some(U_VIA), "c25_via", if nested { &[U_ACT_P, U_ACT_S] } else { &[] }, None),
        ])?;
        let add = |w: &mut QueryServerWriteTransaction, g: Uuid, m: Uuid| {
            w.internal_modify_uuid(g, &ModifyList::new_list(vec![Modify::Present(Attribute::Member, Value::Refer(m))]))
        };
        add(w, U_HP, U_HP_DIRECT)?;
        add(w, U_PEOPLE_ADMINS, U_HP_ROLE)?;
        add(w, U_SERVICE_DESK, U_HP_CG)?;
        add(w, U_IDM_ADMINS, U_HP_SA)?;
        // the high-privilege actor of the positive controls holds the broad admin roles
        add(w, U_PEOPLE_ADMINS, U_HP_ACTOR)?;
        add(w, U_IDM_ADMINS, U_HP_ACTOR)?;
        add(w, U_ACCESS_CONTROL_ADMINS, U_HP_ACTOR)?;
        for r in roles {
            add(w, *r, if nested { U_VIA } else { actor })?;
        }
        Ok(())
    })
    .await
}

/// the role groups a user may hold without becoming high-privilege, from the live database
fn discover_roles(world: &World) -> (Vec<(Uuid, String)>, BTreeSet<Uuid>) {
    // downward closure of idm_high_privilege
    let mut hp: BTreeSet<Uuid> = BTreeSet::new();
    let mut frontier = vec![U_HP];
    while let Some(g) = frontier.pop() {
        if let Some(e) = world.entries.get(&g) {
            for m in e.refs("member").into_iter().chain(e.refs("dynmember")) {
                if hp.insert(m) {
                    frontier.push(m);
                }
            }
        }
    }
    let roles = world
        .entries
        .values()
        .filter(|e| e.is_live() && e.has_class("group") && !e.has_class("dyngroup"))
        .filter(|e| e.name().starts_with("idm_"))
        .filter(|e| e.uuid != U_HP && !hp.contains(&e.uuid))
        .map(|e| (e.uuid, e.name()))
        .collect();
    (roles, hp)
}

struct Config {
    actor: Uuid,
    roles: Vec<usize>,
    nested: bool,
}

fn run_config(rt: &tokio::runtime::Runtime, acc: &mut Acc, cfg: &Config, role_groups: &[(Uuid, String)]) {
    let roles: Vec<Uuid> = cfg.roles.iter().map(|i| role_groups[*i].0).collect();
    let role_names: Vec<String> = cfg.roles.iter().map(|i| role_groups[*i].1.clone()).collect();
    let mut sv = rt.block_on(Server::new());
    if let Err(e) = rt.block_on(setup(&mut sv, cfg.actor, &roles, cfg.nested)) {
        acc.inconclusive(&format!("c25 setup failed for roles {role_names:?}: {e:?}"));
        return;
    }
    let mut world = World::from_dump(&rt.block_on(sv.dump()));
    // the precondition of the property, checked on the live state
    let actor_mo = world.memberof_bfs(cfg.actor);
    let actor_stored = world.entries.get(&cfg.actor).map(|e| e.refs("memberof")).unwrap_or_default();
    if actor_mo != actor_stored {
        acc.count("skipped.actor_memberof_inconsistent");
        return;
    }
    if actor_mo.contains(&U_HP) {
        acc.count("skipped.actor_is_high_privilege");
        acc.observe("roles_that_make_hp", &format!("{role_names:?}"));
        return;
    }
    for r in &roles {
        if !actor_mo.contains(r) {
            acc.inconclusive("c25 actor did not become a member of an assigned role group");
            return;
        }
    }
    acc.count("configs_run");
    acc.observe("role_subsets", &format!("{role_names:?}"));
    let actor_kind = if cfg.actor == U_ACT_P { "person" } else { "service-account" };
    let mut tag = 0u64;
    for t in targets() {
        let Some(te) = world.entries.get(&t.uuid).cloned() else { continue };
        let is_hp = te.refs("memberof").contains(&U_HP) && world.memberof_bfs(t.uuid).contains(&U_HP);
        if is_hp != t.hp_expected {
            acc.inconclusive(&format!("c25 target {} has unexpected high-privilege status", t.label));
            continue;
        }
        if is_hp {
            // not delegated to a non-high-privilege entry manager
            let delegated = te.refs("entry_managed_by").iter().any(|m| !world.memberof_bfs(*m).contains(&U_HP) && *m != U_HP);
            if delegated {
                acc.count("skipped.hp_target_delegated_to_non_hp_manager");
                continue;
            }
        }
        let attrs: Vec<&str> = if t.kind == "group" { vec!["member"] } else { ACCOUNT_ATTRS.to_vec() };
        for attr in attrs {
            for kind in [MKind::Present, MKind::Remove, MKind::Purge] {
                tag += 1;
                let Some(ml) = build(attr, kind, &te, tag) else {
                    acc.count("cells.no_value_constructible");
                    continue;
                };
                acc.eval();
                let actor = cfg.actor;
                let tu = t.uuid;
                let out = rt.block_on(async {
                    let ident = match sv.ident(actor, Scope::ReadWrite).await {
                        Ok(i) => i,
                        Err(e) => return OpOutcome { ok: false, err: Some(format!("harness-ident:{e:?}")), committed: false },
                    };
                    sv.user_op(|w| {
                        let me = ev_modify(w, ident, &f_uuid(tu), &ml, false)?;
                        w.modify(&me)
                    })
                    .await
                });
                if out.err.as_deref().is_some_and(|e| e.starts_with("harness-")) {
                    acc.inconclusive(&format!("c25 harness failure: {:?}", out.err));
                    return;
                }
                let cell = format!("{}/{attr}/{kind:?}", t.kind).to_lowercase();
                if acc.samples.len() < 5 && tag % 41 == 7 {
                    acc.sample(json!({"actor": actor_kind, "actor_roles": role_names, "target": t.label, "high_privilege_target": is_hp, "attribute": attr, "modification": format!("{kind:?}"), "accepted": out.ok, "error": out.err}));
                }
                if is_hp {
                    acc.nontrivial_distinct();
                    acc.observe("hp_cells", &cell);
                    acc.count(if out.ok { "hp.ok" } else { "hp.denied" });
                    acc.observe("hp_denial_classes", &out.err_class());
                    if !out.ok {
                        acc.count(&format!("hp.denied.{}", out.err_class()));
                    }
                    if out.err_class() == "SchemaViolation" {
                        acc.count("hp.denied_by_schema_before_access(not a test of access)");
                        acc.observe("schema_rejected_cells", &cell);
                    }
                    if out.ok {
                        acc.violation(
                            &format!("c25/hp-{}-modified/{attr}", t.kind),
                            json!({"actor": actor_kind, "actor_roles": role_names, "membership_nested": cfg.nested, "actor_memberof": actor_mo.iter().map(|u| world.entries.get(u).map(|e| e.name()).unwrap_or_default()).collect::<Vec<_>>(),
                                   "target": t.label, "target_uuid": t.uuid.to_string(), "attribute": attr, "modification": format!("{kind:?}"),
                                   "explanation": "a user outside the high-privilege closure modified this attribute of a high-privilege entry with the shipped access controls"}),
                        );
                        world = World::from_dump(&rt.block_on(sv.dump()));
                    }
                } else {
                    acc.count(if out.ok { "control.ok" } else { "control.denied" });
                    if out.ok {
                        acc.observe("control_successes", &format!("{}:{cell}", if t.uuid == U_NP { "other-person" } else { "managed" }));
                        world = World::from_dump(&rt.block_on(sv.dump()));
                    }
                }
            }
        }
    }
    // positive controls: (a) the actor on itself, (b) a high-privilege actor on the same HP targets
    for (who, whom, label) in [(cfg.actor, cfg.actor, "self"), (U_HP_ACTOR, U_HP_ROLE, "hp-actor-on-hp-person"), (U_HP_ACTOR, U_NP, "hp-actor-on-non-hp-person"), (U_HP_ACTOR, U_PEOPLE_ADMINS, "hp-actor-on-hp-group")] {
        let Some(te) = world.entries.get(&whom).cloned() else { continue };
        let attrs: Vec<&str> = if te.has_class("group") { vec!["member"] } else { ACCOUNT_ATTRS.to_vec() };
        for attr in attrs {
            for kind in [MKind::Present, MKind::Remove, MKind::Purge] {
                tag += 1;
                let Some(ml) = build(attr, kind, &te, tag) else { continue };
                let out = rt.block_on(async {
                    let ident = match sv.ident(who, Scope::ReadWrite).await {
                        Ok(i) => i,
                        Err(e) => return OpOutcome { ok: false, err: Some(format!("harness-ident:{e:?}")), committed: false },
                    };
                    sv.user_op(|w| {
                        let me = ev_modify(w, ident, &f_uuid(whom), &ml, false)?;
                        w.modify(&me)
                    })
                    .await
                });
                acc.count(&format!("control.{label}.{}", if out.ok { "ok" } else { "denied" }));
                if out.ok {
                    acc.observe("control_successes", &format!("{label}:{attr}/{kind:?}").to_lowercase());
                }
            }
        }
    }
}

pub fn run(args: Args) {
    let mut run = Run::new(
        args.clone(),
        "exploration",
        "enumerated: {person, service-account actor} x subsets of the built-in role groups that do not themselves confer high privilege (read from the live database) [quick: size <= 2; thorough: all, also with membership through an intermediate ordinary group] x {3 high-privilege persons (direct / via role / nested), 2 high-privilege service accounts, 3 high-privilege groups, non-high-privilege controls} x {24 credential / session / account-detail attributes, or member for groups} x {present, remove, purge}. Non-trivial = every cell aimed at a high-privilege target (distinct by enumeration).",
    );
    run.assume("shipped access control profiles only; no high-privilege target is delegated to a non-high-privilege entry manager (checked on the live state per target)");
    run.assume("a modify that is refused for any reason (access, no visible target, schema) counts as not having changed the target; cells refused by schema before the access check are listed in schema_rejected_cells");
    let tier = args.tier;
    // discover the role groups on a default server
    let rt0 = kvcore::srv::rt();
    let (role_groups, hp_closure) = rt0.block_on(async {
        let sv = Server::new().await;
        let w = World::from_dump(&sv.dump().await);
        discover_roles(&w)
    });
    drop(rt0);
    run.extra("role_groups_enumerated", json!(role_groups.iter().map(|(_, n)| n.clone()).collect::<Vec<_>>()));
    run.extra("high_privilege_closure_size", json!(hp_closure.len()));
    let n = role_groups.len();
    run.require(n >= 2, "fewer than two non-high-privilege role groups were found in the live database");
    let max_subsets: u64 = 1 << 10;
    let mut configs: Vec<Config> = Vec::new();
    let total: u64 = if n >= 63 { u64::MAX } else { 1u64 << n };
    let mut enumerated_all = true;
    for mask in 0..total.min(1 << 20) {
        let bits = mask.count_ones();
        let take = match tier {
            kvcore::Tier::Quick => bits <= 2,
            kvcore::Tier::Thorough => true,
        };
        if !take {
            continue;
        }
        if configs.len() as u64 >= max_subsets * 4 {
            enumerated_all = false;
            break;
        }
        let roles: Vec<usize> = (0..n).filter(|i| mask & (1 << i) != 0).collect();
        for actor in [U_ACT_P, U_ACT_S] {
            configs.push(Config { actor, roles: roles.clone(), nested: false });
            if tier == kvcore::Tier::Thorough && !roles.is_empty() {
                configs.push(Config { actor, roles: roles.clone(), nested: true });
            }
        }
    }
    if total > (1 << 20) {
        enumerated_all = false;
    }
    run.extra("configurations", json!(configs.len()));
    let cfgs = &configs;
    let rg = &role_groups;
    run.parallel(args.workers, |w, nw| {
        let mut acc = Acc::new();
        let rt = kvcore::srv::rt();
        for (i, c) in cfgs.iter().enumerate() {
            if i % nw != w {
                continue;
            }
            if let Err(msg) = guarded(|| run_config(&rt, &mut acc, c, rg)) {
                acc.count("panic_in_kanidm");
                acc.sample(json!({"panic": msg, "roles": c.roles}));
            }
        }
        acc
    });
    run.require(run.acc.get("configs_run") as usize * 10 >= configs.len() * 9, "more than a tenth of the configurations were skipped");
    run.require(run.acc.get("hp.denied") > 0, "no cell aimed at a high-privilege target was executed");
    run.require(run.acc.get("hp.denied.AccessDenied") > 0, "the modify access decision itself was never reached for a high-privilege target (every refusal was 'no matching entries')");
    run.require(run.acc.get("control.ok") > 0, "non-high-privilege controls never succeeded for any role (the matrix would be vacuous)");
    run.require(run.acc.get("control.self.ok") > 0, "the acting user could not even modify itself");
    run.require(run.acc.get("control.hp-actor-on-hp-person.ok") > 0 && run.acc.get("control.hp-actor-on-hp-group.ok") > 0, "a high-privilege actor could not perform the same operations on high-privilege targets (operations may be ill-formed)");
    let cells = run.acc.sets.get("hp_cells").map(|s| s.len()).unwrap_or(0);
    run.require(cells >= 2 * 3 * 20 + 3, "too few distinct (target kind, attribute, modification) cells were exercised");
    if tier == kvcore::Tier::Thorough && enumerated_all {
        run.exhaustive = Some(true);
    }
    run.finish();
}
