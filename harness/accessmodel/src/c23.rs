//! C23 Searches never disclose what the caller may not read.
//!
//! Random configurations (population, memberships, entry managers, random access control profiles on
//! top of the shipped ones) x random identities (person / service account / synced person /
//! anonymous; read-write, read-only, synchronise scope) x random filters x requested attribute lists,
//! through `search_ext`, `search`, `exists`, the recycle-bin search, and the LDAP gateway (search and
//! compare, anonymous bind). SOUNDNESS ONLY against the independent grant model of `model.rs`:
//!   * every returned entry must be one on which the model grants the caller read on EVERY attribute
//!     named by the caller's filter;
//!   * every attribute present on a returned entry must be granted by the model on that entry;
//!   * `exists` / LDAP compare may answer "true" only if some entry that may match has all filter
//!     attributes granted;
//!   * recycled / tombstone entries never appear outside recycle-bin searches.
//! Entries the model would release but the implementation withholds are counted, never judged.

use crate::gen::{self, Pop};
use crate::model::*;
use crate::model::UUID_ANONYMOUS;
use crate::sim::*;
use kanidmd_lib::idm::ldap::{LdapBoundToken, LdapResponseState, LdapServer, LdapSession};
use kanidmd_lib::prelude::*;
use kvcore::rng::mix;
use kvcore::{Acc, Args, Rng, Run};
use ldap3_proto::simple::*;
use ldap3_proto::proto::LdapOp;
use serde_json::{json, Value as Json};
use std::collections::BTreeSet;
use std::net::{IpAddr, Ipv4Addr};
use std::str::FromStr;

fn existing_vals(world: &World, attr: &str) -> Vec<String> {
    let mut v: Vec<String> = world
        .entries
        .values()
        .filter_map(|e| e.attrs.get(attr))
        .filter(|a| matches!(a.tag.as_str(), "U8" | "N8" | "I8" | "EM" | "RF"))
        .flat_map(|a| a.vals.clone())
        .collect();
    v.sort();
    v.dedup();
    v
}

/// a caller's filter: terms on attributes that may or may not be readable
fn gen_user_filter(rng: &mut Rng, pop: &Pop, world: &World, depth: u32) -> MF {
    let atom = |rng: &mut Rng| -> MF {
        match rng.below(16) {
            0 | 1 => MF::Eq(
                "class".into(),
                rng.pick(&["person", "account", "group", "service_account", "object", "oauth2_resource_server", "application", "sync_account", "access_control_profile", "recycled", "tombstone", "posixaccount"])
                    .to_string(),
            ),
            2 | 3 => MF::Eq("uuid".into(), rng.pick(&pop.anything()).to_string()),
            4 => MF::Eq("name".into(), pop.name(*rng.pick(&pop.anything()))),
            5 => MF::Eq("memberof".into(), rng.pick(&[pop.groups.clone(), vec![gen::U_ALL_PERSONS]].concat()).to_string()),
            6 => MF::Eq("member".into(), rng.pick(&pop.accounts()).to_string()),
            7 => MF::Eq("entry_managed_by".into(), rng.pick(&[pop.persons.clone(), pop.groups.clone()].concat()).to_string()),
            8 => {
                let a = *rng.pick(&["mail", "legalname", "displayname", "description"]);
                let vals = existing_vals(world, a);
                if vals.is_empty() {
                    MF::Pres(a.to_string())
                } else {
                    MF::Eq(a.to_string(), rng.pick(&vals).clone())
                }
            }
            9 | 10 => MF::Pres(
                rng.pick(&["class", "mail", "legalname", "member", "entry_managed_by", "oauth2_rs_scope_map", "sync_credential_portal", "acp_targetscope", "description", "linked_group", "gidnumber", "memberof"])
                    .to_string(),
            ),
            11 => MF::SelfUuid,
            12 => MF::Cnt("name".into(), rng.pick(&["p", "g", "s", "o", "idm", "0"]).to_string()),
            13 => MF::Cnt("displayname".into(), rng.pick(&["p", "s", "a"]).to_string()),
            _ => MF::Pres("class".into()),
        }
    };
    if depth == 0 {
        return atom(rng);
    }
    match rng.below(10) {
        0..=4 => atom(rng),
        5 | 6 => MF::And(vec![gen_user_filter(rng, pop, world, depth - 1), gen_user_filter(rng, pop, world, depth - 1)]),
        7 => MF::Or(vec![gen_user_filter(rng, pop, world, depth - 1), gen_user_filter(rng, pop, world, depth - 1)]),
        _ => MF::And(vec![gen_user_filter(rng, pop, world, depth - 1), MF::AndNot(Box::new(atom(rng)))]),
    }
}

#[derive(Clone, Copy, Debug, PartialEq, Eq)]
enum Path {
    SearchExt,
    Search,
    Exists,
    RecycleExt,
}

struct Query {
    who: Uuid,
    scope: Scope,
    filter: MF,
    attrs: Option<BTreeSet<String>>,
    path: Path,
}

impl Query {
    fn describe(&self, pop: &Pop) -> Json {
        json!({"identity": pop.name(self.who), "identity_uuid": self.who.to_string(), "scope": self.scope.name(),
               "filter": self.filter.to_json(), "requested_attrs": self.attrs, "path": format!("{:?}", self.path)})
    }
}

enum Answer {
    /// (uuid, attribute names present) per returned entry
    Entries(Vec<(Uuid, BTreeSet<String>)>),
    Bool(bool),
    Err(String),
}

fn run_query(rt: &tokio::runtime::Runtime, sv: &Server, q: &Query) -> Answer {
    rt.block_on(async {
        let mut r = match sv.qs.read().await {
            Ok(r) => r,
            Err(e) => return Answer::Err(format!("harness-read:{e:?}")),
        };
        let entry = match r.internal_search_uuid(q.who) {
            Ok(e) => e,
            Err(e) => return Answer::Err(format!("harness-ident:{e:?}")),
        };
        let ident = ident_from(entry, q.scope);
        let f = gen::to_filter(&q.filter);
        let attrs: Option<BTreeSet<Attribute>> = q
            .attrs
            .as_ref()
            .map(|s| s.iter().map(|a| Attribute::from(a.as_str())).collect());
        use kanidmd_lib::schema::SchemaTransaction;
        let schema: &dyn SchemaTransaction = r.get_schema();
        match q.path {
            Path::SearchExt | Path::RecycleExt => {
                let se = match ev_search(schema, ident, &f, attrs, q.path == Path::RecycleExt) {
                    Ok(se) => se,
                    Err(e) => return Answer::Err(format!("{e:?}")),
                };
                match r.search_ext(&se) {
                    Ok(es) => Answer::Entries(
                        es.iter()
                            .map(|e| (e.get_uuid(), e.get_ava_names().map(|s| s.to_lowercase()).collect()))
                            .collect(),
                    ),
                    Err(e) => Answer::Err(format!("{e:?}")),
                }
            }
            Path::Search => {
                let se = match ev_search(schema, ident, &f, None, false) {
                    Ok(se) => se,
                    Err(e) => return Answer::Err(format!("{e:?}")),
                };
                match r.search(&se) {
                    // `search` is the entry-level decision only; attributes are not reduced here
                    Ok(es) => Answer::Entries(es.iter().map(|e| (e.get_uuid(), BTreeSet::new())).collect()),
                    Err(e) => Answer::Err(format!("{e:?}")),
                }
            }
            Path::Exists => {
                let ee = match ev_exists(schema, ident, &f) {
                    Ok(ee) => ee,
                    Err(e) => return Answer::Err(format!("{e:?}")),
                };
                match r.exists(&ee) {
                    Ok(b) => Answer::Bool(b),
                    Err(e) => Answer::Err(format!("{e:?}")),
                }
            }
        }
    })
}

fn judge_query(acc: &mut Acc, q: &Query, ans: &Answer, world: &World, pop: &Pop, cseed: u64) {
    let Some(ident) = world.ident(q.who, q.scope) else {
        acc.count("skipped.ident_missing");
        return;
    };
    if !ident.memberof_consistent {
        acc.count("skipped.memberof_inconsistent");
        return;
    }
    let mut fattrs = BTreeSet::new();
    q.filter.attrs(&mut fattrs);
    let pname = format!("{:?}", q.path).to_lowercase();
    let wit = |extra: Json| -> Json {
        json!({"query": q.describe(pop), "finding": extra, "config_seed": cseed,
               "identity_memberof": ident.memberof.iter().map(|m| pop.name(*m)).collect::<Vec<_>>(),
               "extra_profiles": pop.acps.iter().map(|a| a.describe()).collect::<Vec<_>>()})
    };
    match ans {
        Answer::Err(e) => {
            acc.count(&format!("{pname}.err"));
            acc.observe("query_errors", e.split(['(', '{', ' ']).next().unwrap_or("err"));
        }
        Answer::Entries(es) => {
            acc.count(&format!("{pname}.ok"));
            if !es.is_empty() {
                acc.count(&format!("{pname}.nonempty"));
                acc.nontrivial(&format!("{cseed}:{}", q.describe(pop)));
            }
            let mut returned = BTreeSet::new();
            for (u, names) in es {
                returned.insert(*u);
                acc.count("entries_returned");
                let Some(e) = world.entries.get(u) else {
                    acc.inconclusive("a returned entry is not in the dump taken in the same state");
                    continue;
                };
                let (allowed, why) = search_allowed(world, &ident, e);
                if q.path != Path::RecycleExt && !e.is_live() {
                    acc.violation(
                        &format!("c23/hidden-entry-in-normal-search/{}", if e.is_tombstone() { "tombstone" } else { "recycled" }),
                        wit(json!({"entry": pop.name(*u), "entry_uuid": u.to_string(), "classes": e.classes()})),
                    );
                }
                if q.path == Path::RecycleExt {
                    acc.count(if e.is_recycled() { "recycle_search.recycled_entry_returned" } else { "recycle_search.other_entry_returned" });
                }
                let unread: Vec<&String> = fattrs.iter().filter(|a| !allowed.contains(*a)).collect();
                if !unread.is_empty() {
                    acc.violation(
                        &format!("c23/entry-released-through-unreadable-filter-attr/{pname}"),
                        wit(json!({"entry": pop.name(*u), "entry_uuid": u.to_string(), "entry_classes": e.classes(), "filter_attrs_not_granted": unread,
                                   "model_readable_attrs": allowed, "model_matching_rules": why.0})),
                    );
                }
                let leaked: Vec<&String> = names.iter().filter(|a| !allowed.contains(*a)).collect();
                if !leaked.is_empty() {
                    acc.violation(
                        &format!("c23/attribute-returned-without-grant/{pname}"),
                        wit(json!({"entry": pop.name(*u), "entry_uuid": u.to_string(), "entry_classes": e.classes(), "attrs_not_granted": leaked,
                                   "attrs_returned": names, "model_readable_attrs": allowed, "model_matching_rules": why.0})),
                    );
                }
                if let Some(req) = &q.attrs {
                    if names.iter().any(|a| !req.contains(a)) {
                        acc.count("attrs_returned_beyond_request(granted,not judged)");
                    }
                }
                acc.count_n("attrs_returned", names.len() as u64);
                let present: BTreeSet<&String> = e.attrs.keys().collect();
                let withheld = present.iter().filter(|a| !names.contains(**a)).count();
                if withheld > 0 && q.path != Path::Search {
                    acc.count("entries_with_attrs_withheld");
                }
                if why.0.iter().any(|w| w.starts_with("builtin:")) {
                    acc.count("entries_released_with_builtin_rule_applicable");
                    for w in why.0.iter().filter(|w| w.starts_with("builtin:")) {
                        acc.observe("builtin_rules_seen", w);
                    }
                }
            }
            // completeness is not judged: only counted
            for (u, e) in &world.entries {
                if returned.contains(u) {
                    continue;
                }
                let visible_kind = if q.path == Path::RecycleExt { e.is_recycled() } else { e.is_live() };
                if !visible_kind {
                    continue;
                }
                if q.filter.eval(e, Some(ident.uuid)) == Tri::T {
                    let (allowed, _) = search_allowed(world, &ident, e);
                    let need: BTreeSet<String> = if q.path == Path::RecycleExt {
                        fattrs.iter().cloned().chain(["class".to_string()]).collect()
                    } else {
                        fattrs.clone()
                    };
                    if need.iter().all(|a| allowed.contains(a)) {
                        acc.count("over_restricted(model would release, not judged)");
                    } else {
                        acc.count("entries_withheld_for_unreadable_filter_attr");
                    }
                }
            }
        }
        Answer::Bool(b) => {
            acc.count(&format!("exists.{b}"));
            if *b {
                acc.nontrivial(&format!("{cseed}:{}", q.describe(pop)));
                let ok = world.entries.values().any(|e| {
                    e.is_live() && q.filter.eval(e, Some(ident.uuid)).may() && {
                        let (allowed, _) = search_allowed(world, &ident, e);
                        fattrs.iter().all(|a| allowed.contains(a))
                    }
                });
                if !ok {
                    acc.violation(
                        "c23/exists-true-without-readable-match",
                        wit(json!("exists() answered true although no live entry that can match has every filter attribute readable")),
                    );
                }
            }
        }
    }
}

// ---- LDAP ------------------------------------------------------------------------------------------

#[derive(Clone, Debug)]
enum LF {
    Eq(String, String),
    Pres(String),
    And(Vec<LF>),
    Or(Vec<LF>),
    Not(Box<LF>),
}

/// LDAP attribute name -> directory attribute, restated from the gateway's documentation
fn ldap_attr(a: &str) -> String {
    let l = a.to_lowercase();
    match l.as_str() {
        "cn" | "uid" | "entrydn" | "dn" => "name",
        "gecos" => "displayname",
        "email" | "emailaddress" | "emailalternative" | "emailprimary" | "mail;alternative" | "mail;primary" => "mail",
        "entryuuid" => "uuid",
        "keys" | "sshpublickey" => "ssh_publickey",
        "objectclass" => "class",
        "uidnumber" => "gidnumber",
        "homedirectory" => "uuid",
        other => return other.to_string(),
    }
    .to_string()
}

impl LF {
    fn to_ldap(&self) -> LdapFilter {
        match self {
            LF::Eq(a, v) => LdapFilter::Equality(a.clone(), v.clone()),
            LF::Pres(a) => LdapFilter::Present(a.clone()),
            LF::And(v) => LdapFilter::And(v.iter().map(|f| f.to_ldap()).collect()),
            LF::Or(v) => LdapFilter::Or(v.iter().map(|f| f.to_ldap()).collect()),
            LF::Not(f) => LdapFilter::Not(Box::new(f.to_ldap())),
        }
    }
    fn to_model(&self) -> MF {
        match self {
            LF::Eq(a, v) => MF::Eq(ldap_attr(a), v.clone()),
            LF::Pres(a) => MF::Pres(ldap_attr(a)),
            LF::And(v) => MF::And(v.iter().map(|f| f.to_model()).collect()),
            LF::Or(v) => MF::Or(v.iter().map(|f| f.to_model()).collect()),
            LF::Not(f) => MF::AndNot(Box::new(f.to_model())),
        }
    }
}

fn gen_ldap_filter(rng: &mut Rng, pop: &Pop, world: &World, depth: u32) -> LF {
    let atom = |rng: &mut Rng| -> LF {
        match rng.below(10) {
            0 | 1 => LF::Pres(rng.pick(&["objectclass", "class", "cn", "mail", "uidnumber", "gidnumber", "member", "legalname", "entryuuid"]).to_string()),
            2 | 3 => LF::Eq(rng.pick(&["objectclass", "class"]).to_string(), rng.pick(&["person", "account", "group", "posixaccount", "posixgroup", "service_account"]).to_string()),
            4 | 5 => LF::Eq(rng.pick(&["cn", "uid", "name"]).to_string(), pop.name(*rng.pick(&pop.anything()))),
            6 => LF::Eq("entryuuid".into(), rng.pick(&pop.anything()).to_string()),
            7 => {
                let a = *rng.pick(&["mail", "legalname", "displayname"]);
                let vals = existing_vals(world, a);
                if vals.is_empty() {
                    LF::Pres(a.to_string())
                } else {
                    LF::Eq(if a == "displayname" && rng.bool() { "gecos".into() } else { a.to_string() }, rng.pick(&vals).clone())
                }
            }
            8 => LF::Eq("memberof".into(), rng.pick(&pop.groups).to_string()),
            _ => LF::Pres("objectclass".into()),
        }
    };
    if depth == 0 {
        return atom(rng);
    }
    match rng.below(8) {
        0..=3 => atom(rng),
        4 => LF::And(vec![gen_ldap_filter(rng, pop, world, depth - 1), gen_ldap_filter(rng, pop, world, depth - 1)]),
        5 => LF::Or(vec![gen_ldap_filter(rng, pop, world, depth - 1), gen_ldap_filter(rng, pop, world, depth - 1)]),
        _ => LF::And(vec![gen_ldap_filter(rng, pop, world, depth - 1), LF::Not(Box::new(atom(rng)))]),
    }
}

struct Ldap {
    idms: IdmServer,
    _delayed: IdmServerDelayed,
    _audit: IdmServerAudit,
    server: LdapServer,
}

async fn mk_ldap(sv: &Server) -> Result<Ldap, String> {
    let url = Url::from_str("https://idm.example.com").map_err(|e| format!("{e:?}"))?;
    let (idms, d, a) = IdmServer::new(sv.qs.clone(), &url, true, sv.ct)
        .await
        .map_err(|e| format!("idm server: {e:?}"))?;
    let server = LdapServer::new(&idms).await.map_err(|e| format!("ldap server: {e:?}"))?;
    Ok(Ldap { idms, _delayed: d, _audit: a, server })
}

fn anon_token() -> LdapBoundToken {
    LdapBoundToken {
        spn: "anonymous@example.com".to_string(),
        session_id: Uuid::from_u128(0xc23),
        effective_session: LdapSession::UnixBind(UUID_ANONYMOUS),
    }
}

/// which entry a DN names: `spn=name@domain,...` or `uuid=...`
fn entry_of_dn<'a>(world: &'a World, dn: &str) -> Option<&'a MEntry> {
    let rdn = dn.split(',').next()?;
    let (a, v) = rdn.split_once('=')?;
    match a.to_lowercase().as_str() {
        "uuid" => world.entries.get(&Uuid::parse_str(v).ok()?),
        "spn" => {
            let name = v.split('@').next()?.to_lowercase();
            world.entries.values().find(|e| e.is_live() && e.name().to_lowercase() == name)
        }
        _ => None,
    }
}

fn ldap_round(rt: &tokio::runtime::Runtime, ldap: &Ldap, acc: &mut Acc, rng: &mut Rng, world: &World, pop: &Pop, cseed: u64) {
    let Some(ident) = world.ident(UUID_ANONYMOUS, Scope::ReadOnly) else { return };
    if !ident.memberof_consistent {
        acc.count("skipped.memberof_inconsistent");
        return;
    }
    let ip = IpAddr::V4(Ipv4Addr::new(127, 0, 0, 1));
    let compare = rng.chance(1, 4);
    acc.eval();
    if compare {
        let target = *rng.pick(&pop.anything());
        let tname = pop.name(target);
        let (atype, val) = match rng.below(5) {
            0 => ("name".to_string(), tname.clone()),
            1 => ("class".to_string(), rng.pick(&["person", "group", "account", "posixaccount"]).to_string()),
            2 => {
                let vals = existing_vals(world, "mail");
                ("mail".to_string(), if vals.is_empty() { "x@y.z".into() } else { rng.pick(&vals).clone() })
            }
            3 => {
                let vals = existing_vals(world, "legalname");
                ("legalname".to_string(), if vals.is_empty() { "x".into() } else { rng.pick(&vals).clone() })
            }
            _ => ("displayname".to_string(), tname.clone()),
        };
        let cr = CompareRequest { msgid: 1, entry: format!("name={tname},dc=example,dc=com"), atype: atype.clone(), val: val.clone() };
        let res = rt.block_on(ldap.server.do_op(&ldap.idms, ServerOps::Compare(cr), Some(anon_token()), ip, Uuid::from_u128(1)));
        let code = match res {
            Ok(LdapResponseState::MultiPartResponse(ms)) | Ok(LdapResponseState::BindMultiPartResponse(_, ms)) => ms.into_iter().find_map(|m| match m.op {
                LdapOp::CompareResult(r) => Some(r.code),
                _ => None,
            }),
            Ok(LdapResponseState::Respond(m)) => match m.op {
                LdapOp::CompareResult(r) => Some(r.code),
                _ => None,
            },
            _ => None,
        };
        let wit = |extra: Json| json!({"ldap_compare": {"entry": format!("name={tname}"), "atype": atype, "val": val}, "identity": "anonymous (unix bind)", "finding": extra, "config_seed": cseed,
            "extra_profiles": pop.acps.iter().map(|a| a.describe()).collect::<Vec<_>>()});
        let dn_f = MF::Eq("name".into(), tname.clone());
        let readable = |e: &MEntry, attrs: &[&str]| {
            let (allowed, _) = search_allowed(world, &ident, e);
            attrs.iter().all(|a| allowed.contains(*a))
        };
        match code {
            Some(LdapResultCode::CompareTrue) => {
                acc.count("ldap.compare.true");
                acc.nontrivial(&format!("{cseed}:cmp:{tname}:{atype}:{val}"));
                let full = MF::And(vec![dn_f.clone(), MF::Eq(ldap_attr(&atype), val.clone())]);
                let ok = world.entries.values().any(|e| e.is_live() && full.eval(e, Some(ident.uuid)).may() && readable(e, &["name", &ldap_attr(&atype)]));
                if !ok {
                    acc.violation("c23/ldap-compare-true-without-readable-match", wit(json!("compareTrue although no live entry that can match has both the naming attribute and the compared attribute readable")));
                }
            }
            Some(LdapResultCode::CompareFalse) => {
                acc.count("ldap.compare.false");
                let ok = world.entries.values().any(|e| e.is_live() && dn_f.eval(e, Some(ident.uuid)).may() && readable(e, &["name"]));
                if !ok {
                    acc.violation("c23/ldap-compare-false-discloses-existence", wit(json!("compareFalse (entry exists) although no live entry of that name has its naming attribute readable")));
                }
            }
            Some(_) => acc.count("ldap.compare.other"),
            None => acc.count("ldap.compare.no_result"),
        }
        return;
    }
    let lf = gen_ldap_filter(rng, pop, world, 2);
    let (base, base_attr) = if rng.chance(1, 4) {
        let t = pop.name(*rng.pick(&pop.anything()));
        if rng.bool() {
            (format!("name={t},dc=example,dc=com"), Some("name"))
        } else {
            (format!("spn={t}@example.com,dc=example,dc=com"), Some("spn"))
        }
    } else {
        ("dc=example,dc=com".to_string(), None)
    };
    let attrs: Vec<String> = match rng.below(6) {
        0 => vec![],
        1 => vec!["*".into()],
        2 => vec!["+".into()],
        3 => vec!["1.1".into()],
        _ => {
            let pool = ["cn", "uid", "mail", "entryuuid", "objectclass", "memberof", "uidnumber", "gidnumber", "displayname", "gecos", "legalname", "member", "description", "homedirectory", "dn", "name", "spn", "entry_managed_by", "emailprimary", "mail;alternative", "mail;primary", "keys", "emailaddress"];
            let mut v: Vec<String> = pool.iter().filter(|_| rng.chance(1, 4)).map(|s| s.to_string()).collect();
            if v.is_empty() {
                v.push("cn".into());
            }
            v
        }
    };
    let sr = SearchRequest { msgid: 1, base: base.clone(), scope: LdapSearchScope::Subtree, filter: lf.to_ldap(), attrs: attrs.clone() };
    let res = rt.block_on(ldap.server.do_op(&ldap.idms, ServerOps::Search(sr), Some(anon_token()), ip, Uuid::from_u128(2)));
    let msgs = match res {
        Ok(LdapResponseState::MultiPartResponse(ms)) | Ok(LdapResponseState::BindMultiPartResponse(_, ms)) => ms,
        Ok(LdapResponseState::Respond(m)) => vec![m],
        _ => vec![],
    };
    let mut fattrs = BTreeSet::new();
    lf.to_model().attrs(&mut fattrs);
    if let Some(a) = base_attr {
        fattrs.insert(a.to_string());
    }
    let mut n = 0;
    for m in msgs {
        match m.op {
            LdapOp::SearchResultEntry(sre) => {
                n += 1;
                acc.count("ldap.search.entries_returned");
                let wit = |extra: Json| json!({"ldap_search": {"base": base, "filter": format!("{lf:?}"), "attrs": attrs}, "identity": "anonymous (unix bind)", "finding": extra, "config_seed": cseed,
                    "extra_profiles": pop.acps.iter().map(|a| a.describe()).collect::<Vec<_>>()});
                let Some(e) = entry_of_dn(world, &sre.dn) else {
                    acc.count("ldap.search.dn_not_resolved(not judged)");
                    continue;
                };
                let (allowed, why) = search_allowed(world, &ident, e);
                if !e.is_live() {
                    acc.violation("c23/hidden-entry-in-normal-search/ldap", wit(json!({"dn": sre.dn})));
                }
                let unread: Vec<&String> = fattrs.iter().filter(|a| !allowed.contains(*a)).collect();
                if !unread.is_empty() {
                    acc.violation(
                        "c23/entry-released-through-unreadable-filter-attr/ldap",
                        wit(json!({"dn": sre.dn, "entry_classes": e.classes(), "filter_attrs_not_granted": unread, "model_readable_attrs": allowed, "model_matching_rules": why.0})),
                    );
                }
                if !allowed.contains("name") && !allowed.contains("spn") && sre.dn.to_lowercase().starts_with("spn=") {
                    acc.count("ldap.dn_carries_spn_without_name_or_spn_grant(not judged)");
                }
                for pa in &sre.attributes {
                    let l = pa.atype.to_lowercase();
                    if l == "dn" || l == "entrydn" {
                        continue; // the DN itself is not an attribute of the entry
                    }
                    acc.count("ldap.search.attrs_returned");
                    let k = ldap_attr(&l);
                    if l == "homedirectory" && !allowed.contains("uuid") {
                        // the gateway synthesises homeDirectory = /home/<uuid> from the entry's uuid
                        acc.violation(
                            "c23/ldap-homedirectory-discloses-uuid-without-grant",
                            wit(json!({"dn": sre.dn, "ldap_attribute": pa.atype, "value": pa.vals.iter().map(|v| String::from_utf8_lossy(v).to_string()).collect::<Vec<_>>(),
                                       "entry_classes": e.classes(), "model_readable_attrs": allowed, "model_matching_rules": why.0,
                                       "explanation": "homeDirectory carries the entry's uuid although no read grant covers uuid on this entry"})),
                        );
                    } else if !allowed.contains(&k) {
                        acc.violation(
                            "c23/attribute-returned-without-grant/ldap",
                            wit(json!({"dn": sre.dn, "ldap_attribute": pa.atype, "directory_attribute": k, "entry_classes": e.classes(), "model_readable_attrs": allowed, "model_matching_rules": why.0})),
                        );
                    }
                }
            }
            LdapOp::SearchResultDone(r) => {
                acc.observe("ldap_search_result_codes", &format!("{:?}", r.code));
            }
            _ => {}
        }
    }
    acc.count("ldap.search.done");
    if n > 0 {
        acc.count("ldap.search.nonempty");
        acc.nontrivial(&format!("{cseed}:ldap:{lf:?}:{base}:{attrs:?}"));
    }
}

/// A fixed, minimal configuration for the LDAP virtual attribute `homeDirectory`: the default server
/// plus ONE search profile that lets every account read class / name / spn (not uuid) of groups; an
/// anonymous LDAP search for groups asking for homeDirectory. Judged by the same rule as every other
/// LDAP result (attribute -> directory attribute it is derived from -> must be granted).
fn minimal_ldap_virtual_attr_case(rt: &tokio::runtime::Runtime, acc: &mut Acc) {
    let mut sv = rt.block_on(Server::new());
    let gu = uuid!("c2300000-0000-4000-8000-000000000001");
    let mut a = AcpSpec::blank(uuid!("c2300000-0000-4000-8000-000000000002"), "c23_min_group_names");
    a.search = true;
    a.receiver = Recv::Group(vec![gen::U_ALL_ACCOUNTS]);
    a.target = Some("{\"eq\":[\"class\",\"group\"]}".into());
    a.search_attrs = vec!["class".into(), "name".into(), "spn".into()];
    let Some(ae) = e_acp(&a) else { return };
    if rt
        .block_on(sv.setup(|w| w.internal_create(vec![e_group(Some(gu), "c23_min_group", &[], None), ae])))
        .is_err()
    {
        acc.count("minimal_case.setup_failed");
        return;
    }
    let world = World::from_dump(&rt.block_on(sv.dump()));
    let Some(ident) = world.ident(UUID_ANONYMOUS, Scope::ReadOnly) else { return };
    let Ok(ldap) = rt.block_on(mk_ldap(&sv)) else { return };
    let sr = SearchRequest {
        msgid: 1,
        base: "dc=example,dc=com".into(),
        scope: LdapSearchScope::Subtree,
        filter: LdapFilter::Equality("name".into(), "c23_min_group".into()),
        attrs: vec!["homedirectory".into(), "cn".into()],
    };
    let ip = IpAddr::V4(Ipv4Addr::new(127, 0, 0, 1));
    let res = rt.block_on(ldap.server.do_op(&ldap.idms, ServerOps::Search(sr), Some(anon_token()), ip, Uuid::from_u128(3)));
    let msgs = match res {
        Ok(LdapResponseState::MultiPartResponse(ms)) | Ok(LdapResponseState::BindMultiPartResponse(_, ms)) => ms,
        _ => vec![],
    };
    acc.count("minimal_case.ran");
    for m in msgs {
        if let LdapOp::SearchResultEntry(sre) = m.op {
            let Some(e) = entry_of_dn(&world, &sre.dn) else { continue };
            let (allowed, why) = search_allowed(&world, &ident, e);
            for pa in &sre.attributes {
                if pa.atype.to_lowercase() == "homedirectory" && !allowed.contains("uuid") {
                    acc.violation(
                        "c23/ldap-homedirectory-discloses-uuid-without-grant",
                        json!({"minimal_case": true,
                               "configuration": "default server + one search profile: receiver idm_all_accounts, target {eq:[class,group]}, search attrs [class,name,spn]; one group c23_min_group",
                               "ldap_search": {"bind": "anonymous", "base": "dc=example,dc=com", "filter": "(name=c23_min_group)", "attrs": ["homedirectory", "cn"]},
                               "returned_dn": sre.dn,
                               "returned": sre.attributes.iter().map(|a| json!({"atype": a.atype, "vals": a.vals.iter().map(|v| String::from_utf8_lossy(v).to_string()).collect::<Vec<_>>()})).collect::<Vec<_>>(),
                               "entry_uuid": e.uuid.to_string(),
                               "model_readable_attrs": allowed, "model_matching_rules": why.0,
                               "explanation": "the gateway documents homeDirectory as derived from uuid; Entry::to_ldap emits /home/<uuid> from the entry's own uuid whether or not uuid survived access-control reduction"}),
                    );
                }
            }
        }
    }
}

pub fn run(args: Args) {
    let mut run = Run::new(
        args.clone(),
        "exploration",
        "random configurations (population with every entry kind that has a visibility rule, random nesting / entry managers, 1..6 random access control profiles plus sometimes one wide read profile, on top of the shipped ones) x random identities {person, service account, synced person, anonymous} x {rw, ro, synchronise} x random filters (depth <= 2 over readable and unreadable attributes) x requested attribute lists x {search_ext, search, exists, recycle-bin search_ext} plus LDAP search / compare as anonymous. Non-trivial = a query that returned at least one entry or answered true; distinct by (configuration, query).",
    );
    run.assume("the dump and the queries see the same committed state (no writes happen between them)");
    run.assume("LDAP unix binds act with the anonymous account's rights (documented gateway behaviour), so the model identity for LDAP is anonymous/read-only");
    run.assume("the DN of an LDAP result (which carries the entry's spn) and DN-valued references are not attributes of the entry and are not judged; counted under ldap.dn_carries_spn_without_name_or_spn_grant");
    let seed = args.seed;
    let tier = args.tier;
    let configs_per_worker = tier.pick(8usize, 150usize);
    let queries_per_config = tier.pick(220u64, 400u64);
    let ldap_per_config = tier.pick(40u64, 80u64);
    // --replay <file>: re-run exactly the configuration of the witness (its config_seed)
    let replay_seed: Option<u64> = args
        .replay
        .as_ref()
        .and_then(|p| kvcore::run::load_replay(p))
        .and_then(|w| w.get("config_seed").and_then(|v| v.as_u64()));
    run.parallel(if replay_seed.is_some() { 1 } else { args.workers }, |w, _n| {
        let mut acc = Acc::new();
        let rt = kvcore::srv::rt();
        if w == 0 {
            if let Err(msg) = guarded(|| minimal_ldap_virtual_attr_case(&rt, &mut acc)) {
                acc.count("panic_in_kanidm");
                acc.sample(json!({"panic": msg, "where": "minimal ldap case"}));
            }
        }
        for c in 0..(if replay_seed.is_some() { 1 } else { configs_per_worker }) {
            let cseed = replay_seed.unwrap_or_else(|| mix(seed, w as u64, 2300 + c as u64));
            let mut rng = Rng::new(cseed);
            let mut sv = rt.block_on(Server::new());
            let n_acps = 1 + rng.below(6) as usize;
            let mut pop = match rt.block_on(gen::build(&mut sv, &mut rng, n_acps)) {
                Ok(p) => p,
                Err(e) => {
                    acc.count("config.setup_failed");
                    acc.observe("setup_errors", &e);
                    continue;
                }
            };
            if rng.chance(1, 3) {
                // one wide read profile for a random group, so that attribute reduction has something to reduce
                let mut a = AcpSpec::blank(rng.uuid(), "zwide_read");
                a.search = true;
                a.receiver = Recv::Group(vec![*rng.pick(&[pop.groups.clone(), vec![gen::U_ALL_ACCOUNTS]].concat())]);
                a.target = Some(rng.pick(&["{\"pres\":\"class\"}", "{\"andnot\":{\"eq\":[\"class\",\"tombstone\"]}}", "{\"or\":[{\"eq\":[\"class\",\"person\"]},{\"eq\":[\"class\",\"recycled\"]}]}"]).to_string());
                a.search_attrs = gen::READ_ATTRS.iter().filter(|_| rng.chance(2, 3)).map(|s| s.to_string()).collect();
                if a.search_attrs.is_empty() {
                    a.search_attrs.push("class".into());
                }
                if let Some(e) = e_acp(&a) {
                    if rt.block_on(sv.setup(|w| w.internal_create(vec![e]))).is_ok() {
                        pop.names.insert(a.uuid, a.name.clone());
                        pop.acps.push(a);
                    }
                }
            }
            acc.count("config.built");
            let dump = rt.block_on(sv.dump());
            let world = World::from_dump(&dump);
            let idents: Vec<Uuid> = pop.accounts().into_iter().chain(pop.sync_person.iter().copied()).chain([UUID_ANONYMOUS]).collect();
            for _ in 0..queries_per_config {
                let who = if rng.chance(1, 8) { UUID_ANONYMOUS } else if rng.chance(1, 8) { pop.sync_person.unwrap_or(UUID_ANONYMOUS) } else { *rng.pick(&idents) };
                let scope = match rng.below(20) {
                    0 | 1 => Scope::Synchronise,
                    2..=9 => Scope::ReadOnly,
                    _ => Scope::ReadWrite,
                };
                let path = match rng.below(20) {
                    0..=8 => Path::SearchExt,
                    9 | 10 => Path::Search,
                    11..=14 => Path::Exists,
                    _ => Path::RecycleExt,
                };
                let filter = gen_user_filter(&mut rng, &pop, &world, 2);
                let attrs = if rng.chance(2, 5) {
                    None
                } else {
                    let k = 1 + rng.below(5);
                    Some((0..k).map(|_| rng.pick(&gen::READ_ATTRS).to_string()).collect::<BTreeSet<_>>())
                };
                let q = Query { who, scope, filter, attrs, path };
                acc.eval();
                match guarded(|| run_query(&rt, &sv, &q)) {
                    Ok(ans) => {
                        if let Answer::Err(e) = &ans {
                            if e.starts_with("harness-") {
                                acc.count("harness.query_setup_failed");
                                continue;
                            }
                        }
                        if scope == Scope::Synchronise {
                            acc.count("queries.synchronise_scope");
                        }
                        if who == UUID_ANONYMOUS {
                            acc.count("queries.anonymous");
                        }
                        judge_query(&mut acc, &q, &ans, &world, &pop, cseed);
                        if acc.samples.len() < 4 {
                            if let Answer::Entries(es) = &ans {
                                if es.len() == 2 {
                                    acc.sample(json!({"query": q.describe(&pop), "returned": es.iter().map(|(u, a)| json!({"entry": pop.name(*u), "attrs": a})).collect::<Vec<_>>()}));
                                }
                            }
                        }
                    }
                    Err(msg) => {
                        acc.count("panic_in_kanidm");
                        acc.sample(json!({"panic": msg, "query": q.describe(&pop), "config_seed": cseed}));
                    }
                }
            }
            // LDAP gateway on the same state
            match rt.block_on(mk_ldap(&sv)) {
                Ok(ldap) => {
                    for _ in 0..ldap_per_config {
                        if let Err(msg) = guarded(|| ldap_round(&rt, &ldap, &mut acc, &mut rng, &world, &pop, cseed)) {
                            acc.count("panic_in_kanidm");
                            acc.sample(json!({"panic": msg, "where": "ldap", "config_seed": cseed}));
                        }
                    }
                    drop(ldap);
                }
                Err(e) => {
                    acc.count("ldap.setup_failed");
                    acc.observe("setup_errors", &e);
                }
            }
        }
        acc.count_n("model.unknown_filter_evaluations", UNKNOWN_EVALS.swap(0, std::sync::atomic::Ordering::Relaxed));
        acc
    });
    for p in ["searchext", "search", "recycleext"] {
        run.require(run.acc.get(&format!("{p}.nonempty")) > 0, &format!("path {p} never returned an entry"));
    }
    run.require(run.acc.get("exists.true") > 0 && run.acc.get("exists.false") > 0, "exists() did not answer both ways");
    run.require(run.acc.get("entries_with_attrs_withheld") > 0, "attribute reduction was never observed (no entry returned with attributes withheld)");
    run.require(run.acc.get("entries_withheld_for_unreadable_filter_attr") > 0, "no entry was ever withheld because of an unreadable filter attribute");
    run.require(run.acc.get("recycle_search.recycled_entry_returned") > 0, "no recycle-bin search returned a recycled entry");
    run.require(run.acc.get("entries_released_with_builtin_rule_applicable") > 0, "built-in visibility rules were never applicable to a returned entry");
    run.require(run.acc.get("queries.anonymous") > 0 && run.acc.get("queries.synchronise_scope") > 0, "anonymous / synchronise-scope identities were not exercised");
    run.require(run.acc.get("ldap.search.nonempty") > 0, "the LDAP gateway never returned an entry");
    run.require(run.acc.get("ldap.compare.true") + run.acc.get("ldap.compare.false") > 0, "LDAP compare never produced a compare result");
    run.require(run.acc.get("config.built") > run.acc.get("config.setup_failed"), "most configurations failed to set up");
    run.finish();
}
