//! C47 under Miri (also runs natively with `cargo run`, which is how the oracle was mutation tested).
//!
//! argv / env: C47_SEED (tree seed base, default 1), C47_TREES (trees per execution, default 6),
//! C47_FLAVOR = current | multi | both (default both: even trees on a current-thread runtime, odd
//! trees on a 2-worker multi-thread runtime). Under `-Zmiri-many-seeds` every Miri seed re-executes
//! the same trees under a different schedule / select! order / allocation layout.
//!
//! Output (one line each): `C47MIRI trees=<n> stop_events=<n> nontrivial=<n> ...` then one of
//! `C47MIRI RESULT held`, `VIOLATION property=C47 replay=...` (exit 1), `INCONCLUSIVE ...` (exit 2).

#[path = "../../../actorsim/src/tree.rs"]
mod tree;

use std::sync::Arc;
use std::time::Duration;
use tree::{run_case, GenCfg, SRng, Stats, TreeSpec};

fn envu(k: &str, d: u64) -> u64 {
    std::env::var(k).ok().and_then(|s| s.trim().parse().ok()).unwrap_or(d)
}

fn main() {
    let mut argv = std::env::args().skip(1);
    let seed = argv.next().and_then(|s| s.parse().ok()).unwrap_or_else(|| envu("C47_SEED", 1));
    let trees = argv.next().and_then(|s| s.parse().ok()).unwrap_or_else(|| envu("C47_TREES", 6));
    let flavor = std::env::var("C47_FLAVOR").unwrap_or_else(|_| "both".to_string());
    // Miri executes ~10^3-10^4 times slower than native: the watchdog is wall-clock and generous.
    let watchdog = Duration::from_secs(envu("C47_WATCHDOG_S", 600));
    let cfg = GenCfg {
        max_sups: 4,
        max_actors: 5,
        max_spin: 0,
        naps: false,
        owner_p16: 4,
        owner_drop_p16: 2,
    };
    let mk = |multi: bool| {
        let r = if multi {
            tokio::runtime::Builder::new_multi_thread().worker_threads(2).enable_time().build()
        } else {
            tokio::runtime::Builder::new_current_thread().enable_time().build()
        };
        match r {
            Ok(rt) => rt,
            Err(e) => {
                println!("INCONCLUSIVE property=C47 reason=cannot build runtime: {e}");
                std::process::exit(2);
            }
        }
    };
    let rt_current = mk(false);
    let rt_multi = mk(true);
    let mut tot = Stats::default();
    let mut nontrivial = 0u64;
    let mut violated = false;
    let mut inconclusive = false;
    for t in 0..trees {
        let cs = seed.wrapping_mul(0x9E37_79B9_7F4A_7C15) ^ (t + 1).wrapping_mul(0xC2B2_AE3D_27D4_EB4F);
        let mut rng = SRng::new(cs);
        let spec = Arc::new(TreeSpec::generate(&mut rng, &cfg));
        let multi = match flavor.as_str() {
            "current" => false,
            "multi" => true,
            _ => t % 2 == 1,
        };
        let rt = if multi { &rt_multi } else { &rt_current };
        let r = rt.block_on(run_case(spec.clone(), watchdog));
        let s = &r.stats;
        tot.actors += s.actors;
        tot.sups += s.sups;
        tot.stops_sub += s.stops_sub;
        tot.stops_by_actor += s.stops_by_actor;
        tot.stops_exec += s.stops_exec;
        tot.stop_events_judged += s.stop_events_judged;
        tot.actor_judgements += s.actor_judgements;
        tot.actors_mid_run_at_stop += s.actors_mid_run_at_stop;
        tot.events += s.events;
        nontrivial += s.nontrivial_stops;
        for v in &r.violations {
            violated = true;
            println!(
                "VIOLATION property=C47 replay=miri:tree_seed={seed},tree={t},flavor={} signature={} explanation={} tree={} log={}",
                if multi { "multi" } else { "current" },
                v.signature,
                v.explanation,
                spec.describe(),
                r.log_tail
            );
        }
        for m in &r.inconclusive {
            inconclusive = true;
            println!("INCONCLUSIVE property=C47 reason=miri tree_seed={seed} tree={t}: {m}");
        }
    }
    println!(
        "C47MIRI tree_seed={seed} trees={trees} actors={} supervisors={} stop_events={} (sub={} by_actor={} exec={}) actor_judgements={} mid_step_at_stop={} nontrivial={} log_events={}",
        tot.actors, tot.sups, tot.stop_events_judged, tot.stops_sub, tot.stops_by_actor, tot.stops_exec,
        tot.actor_judgements, tot.actors_mid_run_at_stop, nontrivial, tot.events
    );
    if violated {
        std::process::exit(1);
    }
    if inconclusive {
        std::process::exit(2);
    }
    println!("C47MIRI RESULT held");
}
