//! `cargo +nightly miri run` smoke test (see README in the report): undefined behaviour / out of
//! bounds in the codec's buffer arithmetic and in the peg parser, on small inputs.
#[macro_use]
extern crate tracing;

#[path = "/repo/server/core/src/repl/codec.rs"]
#[allow(dead_code, unused_imports)]
mod codec;

use bytes::BytesMut;
use codec::{ConsumerCodec, ConsumerRequest, SupplierCodec, SupplierResponse};
use kanidmd_lib::repl::proto::{ReplIncrementalContext, ReplRefreshContext, ReplRuvRange};
use std::str::FromStr;
use tokio_util::codec::{Decoder, Encoder};

fn reqs() -> Vec<ConsumerRequest> {
    vec![
        ConsumerRequest::Ping,
        ConsumerRequest::Refresh,
        ConsumerRequest::Incremental(ReplRuvRange::V1 { domain_uuid: "d".into(), ranges: [("s".to_string(), (1, 2))].into_iter().collect() }),
    ]
}
fn resps() -> Vec<SupplierResponse> {
    vec![
        SupplierResponse::Pong,
        SupplierResponse::Incremental(ReplIncrementalContext::NoChangesAvailable),
        SupplierResponse::Incremental(ReplIncrementalContext::V1 { domain_uuid: "d".into(), entries: vec!["e1".into(), "e\"2".into()] }),
        SupplierResponse::Refresh(ReplRefreshContext::V1 { domain_uuid: "d".into(), entries: vec!["x".repeat(40)] }),
    ]
}

fn feed<M: serde::Serialize, D: Decoder<Item = M, Error = std::io::Error>>(dec: &mut D, stream: &[u8], cuts: &[usize]) -> (Vec<String>, bool, usize) {
    let mut buf = BytesMut::new();
    let mut out = Vec::new();
    let mut prev = 0;
    for b in cuts.iter().copied().chain(std::iter::once(stream.len())) {
        if b <= prev {
            continue;
        }
        buf.extend_from_slice(&stream[prev..b]);
        prev = b;
        loop {
            match dec.decode(&mut buf) {
                Ok(Some(m)) => out.push(serde_json::to_string(&m).unwrap()),
                Ok(None) => break,
                Err(_) => return (out, true, buf.len()),
            }
        }
    }
    (out, false, buf.len())
}

fn main() {
    // ---- codec: every <= 2-cut chunking of two short streams, plus bad frames
    let mut s1 = BytesMut::new();
    let mut want1 = Vec::new();
    for m in reqs() {
        want1.push(serde_json::to_string(&m).unwrap());
        ConsumerCodec::new(1 << 20).encode(m, &mut s1).unwrap();
    }
    let mut s2 = BytesMut::new();
    let mut want2 = Vec::new();
    for m in resps() {
        want2.push(serde_json::to_string(&m).unwrap());
        SupplierCodec::new(1 << 20).encode(m, &mut s2).unwrap();
    }
    let mut cases = 0u64;
    for (stream, want, to_supplier) in [(&s1[..], &want1, true), (&s2[..], &want2, false)] {
        let n = stream.len();
        let step = if cfg!(miri) { 11 } else if n > 120 { 5 } else { 1 };
        let mut cutsets: Vec<Vec<usize>> = vec![vec![], (1..n).collect()];
        for i in (1..n).step_by(step) {
            cutsets.push(vec![i]);
            for j in ((i + 1)..n).step_by(step * 3) {
                cutsets.push(vec![i, j]);
            }
        }
        for cuts in &cutsets {
            let (got, err, left) =
                if to_supplier { feed(&mut SupplierCodec::new(1 << 20), stream, cuts) } else { feed(&mut ConsumerCodec::new(1 << 20), stream, cuts) };
            assert!(!err && left == 0 && &got == want, "chunking {cuts:?} decoded {got:?}");
            cases += 1;
        }
    }
    for (declared, limit, expect_err) in [(0u64, 32usize, true), (33, 32, true), (32, 32, false), (31, 32, false)] {
        let mut f = declared.to_be_bytes().to_vec();
        let mut body = b"\"Ping\"".to_vec();
        body.resize(declared as usize, b' ');
        f.extend_from_slice(&body);
        for cut in 1..f.len().max(2) {
            let (got, err, _) = feed(&mut SupplierCodec::new(limit), &f, &[cut.min(f.len())]);
            assert_eq!(err, expect_err, "declared {declared} limit {limit} cut {cut}");
            assert_eq!(got.len(), usize::from(!expect_err));
            cases += 1;
        }
    }
    println!("codec: {cases} cases ok");

    // ---- SCIM filter parser (stand-alone copy; kanidm_proto's grammar is the same peg source shape)
    let texts = [
        "a pr",
        "a eq \"x\" or b.c ne 1 and not (d sw \"q\\\"z\")",
        "emails[type eq \"work\" and value co \"@example.com\"] or (x ge 1.5 and y le null)",
        "((((((a pr))))))",
        "a eq",
        "a[b pr",
        "",
    ];
    let mut parsed = 0;
    for t in texts {
        if let Ok(f) = scim_proto::filter::ScimFilter::from_str(t) {
            #[allow(clippy::to_string_trait_impl)]
            let printed = f.to_string();
            let again = scim_proto::filter::ScimFilter::from_str(&printed).expect("printed form parses");
            assert_eq!(again, f);
            parsed += 1;
        }
    }
    for depth in [10usize, 127, 129] {
        let t = format!("{}a pr{}", "(".repeat(depth), ")".repeat(depth));
        let r = scim_proto::filter::ScimFilter::from_str(&t);
        assert_eq!(r.is_ok(), depth <= 127, "depth {depth}");
    }
    println!("scim: {parsed} filters parsed and round tripped, depth limit ok");
}
