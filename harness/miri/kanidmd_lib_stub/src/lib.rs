//! Miri cannot build the real kanidmd_lib (C dependencies). The codec only needs *some*
//! serialisable payload types behind these names; its buffer arithmetic is what Miri checks.
pub mod repl {
    pub mod proto {
        use serde::{Deserialize, Serialize};
        use std::collections::BTreeMap;
        #[derive(Serialize, Deserialize, Debug, PartialEq, Eq, Clone)]
        pub enum ReplRuvRange {
            V1 { domain_uuid: String, ranges: BTreeMap<String, (u64, u64)> },
        }
        #[derive(Serialize, Deserialize, Debug, PartialEq, Eq, Clone)]
        pub enum ReplIncrementalContext {
            NoChangesAvailable,
            RefreshRequired,
            V1 { domain_uuid: String, entries: Vec<String> },
        }
        #[derive(Serialize, Deserialize, Debug, PartialEq, Eq, Clone)]
        pub enum ReplRefreshContext {
            V1 { domain_uuid: String, entries: Vec<String> },
        }
    }
}
