#!/bin/bash
# C47 (stopping a supervisor stops everything under it) under Miri.
#   run_actors.sh <quick|thorough>        tree seed base from $VERIF_SEED (default 1)
# Runs /verif/harness/miri/actors (same trees + oracle as actorsim, see its src/main.rs) under
# `cargo +nightly miri run`, once per (round, miri seed): every Miri seed re-executes that round's
# trees under a different schedule (thread pre-emption, select! order, allocation addresses) with
# Miri's data-race and UB detection on. Executions run as parallel processes (-Zmiri-many-seeds is
# sequential in this toolchain), after one sequential execution that also does the build.
# exit 0 held / 1 violated (prints `VIOLATION property=C47 replay=...`) / 2 inconclusive.
# $C47_MIRI_CARGO_CONFIG (optional) is passed to cargo as --config (used to point kanidm_actors at a
# mutated copy when the oracle was mutation tested); $C47_MIRI_PAR = parallel processes (default 8).
# A hang (Miri "deadlock", in-program watchdog, outer timeout), a build failure or a Miri UB/data-race
# report is INCONCLUSIVE for C47 (the report is printed; it is not what C47 states).
set -u
tier="${1:-quick}"
seed="${VERIF_SEED:-1}"
case "$tier" in
  quick)    rounds=1; mseeds=6;  trees=10; limit=600  ;;
  thorough) rounds=2; mseeds=16; trees=40; limit=1500 ;;
  *) echo "usage: $0 <quick|thorough>"; exit 2 ;;
esac
par="${C47_MIRI_PAR:-8}"
cd "$(dirname "$0")/actors" || { echo "INCONCLUSIVE property=C47 reason=miri crate missing"; exit 2; }
export CARGO_TARGET_DIR="${C47_MIRI_TARGET_DIR:-/verif/harness/target-miri}"
export C47_TREES="$trees"
out="$(mktemp -d "${VERIF_ROOT:-/verif}/scratch/c47-miri.XXXXXX" 2>/dev/null || mktemp -d)"
trap 'rm -rf "$out"' EXIT
start=$(date +%s)
one() { # round miri_seed
  C47_SEED=$(( seed * 1000 + $1 )) MIRIFLAGS="-Zmiri-disable-isolation -Zmiri-seed=$2" \
    timeout -k 10 "$limit" cargo +nightly miri run --offline ${C47_MIRI_CARGO_CONFIG:+--config "$C47_MIRI_CARGO_CONFIG"} >"$out/r$1-s$2.log" 2>&1
  echo "$?" >"$out/r$1-s$2.rc"
}
export -f one; export seed limit out
# first execution sequentially: builds the crate (or finds it fresh)
one 1 0
if [ "$(cat "$out/r1-s0.rc")" = "0" ]; then
  for r in $(seq 1 "$rounds"); do for s in $(seq 0 $(( mseeds - 1 ))); do
    [ "$r" = 1 ] && [ "$s" = 0 ] && continue
    echo "$r $s"
  done; done | xargs -P "$par" -L 1 bash -c 'one $0 $1'
fi
end=$(date +%s)
cat "$out"/*.log > "$out/all" 2>/dev/null
held=$(grep -c '^C47MIRI RESULT held' "$out/all")
bad=$(grep -L '^0$' "$out"/*.rc 2>/dev/null | head -1)
grep -h '^C47MIRI tree_seed' "$out/all" | sed 's/ mid_step.*//' | sort | uniq -c | sed 's/^/  /' | head -6
echo "  distinct (mid_step_at_stop, nontrivial, log_events) outcomes over the miri seeds: $(grep -h '^C47MIRI tree_seed' "$out/all" | sed 's/.* mid_step/mid_step/' | sort -u | wc -l)"
echo "C47-MIRI tier=$tier tree_seed_base=$seed rounds=$rounds miri_seeds_per_round=$mseeds trees_per_execution=$trees executions_held=$held tree_executions=$(( held * trees )) wall_s=$(( end - start ))"
if grep -q '^VIOLATION property=C47' "$out/all"; then
  grep -h '^VIOLATION property=C47' "$out/all" | cut -c1-1500 | head -3
  exit 1
fi
if [ -n "$bad" ]; then
  rc=$(cat "$bad"); l="${bad%.rc}.log"
  if [ "$rc" = 124 ] || [ "$rc" = 137 ]; then
    why="outer timeout of ${limit}s hit"
  elif grep -q '^INCONCLUSIVE' "$l"; then
    why="$(grep -h '^INCONCLUSIVE' "$l" | head -1 | sed 's/^INCONCLUSIVE property=C47 reason=//')"
  elif grep -q 'deadlock' "$l"; then
    why="miri reported a deadlock (a stop that never returns is inconclusive, not a verdict)"
  elif grep -q 'Undefined Behavior\|Data race' "$l"; then
    why="miri reported undefined behaviour or a data race (outside what C47 states; report above)"
  else
    why="cargo miri run failed with exit code $rc"
  fi
  grep -v '^C47MIRI' "$l" | tail -40
  echo "INCONCLUSIVE property=C47 reason=$(basename "$l"): $why"
  exit 2
fi
if [ "$held" -ne $(( rounds * mseeds )) ]; then
  echo "INCONCLUSIVE property=C47 reason=expected $(( rounds * mseeds )) executions, saw $held"
  exit 2
fi
echo "C47-MIRI RESULT held"
exit 0
