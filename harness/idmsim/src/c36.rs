//! C36 Removing a credential revokes its sessions.
//!
//! Workload: scenarios on a long-lived server: a fresh person with a primary credential (password or
//! password+TOTP) and 0..2 software passkeys, several logins with each credential (session records
//! written immediately, or left queued and written after the removal), optional explicit logout of one
//! session and time jumps; then one or two credential changes: replace the primary through a
//! credential update session, change only the password, add TOTP, delete the primary, remove a
//! passkey, `recover_account`, purge the attribute through the directory API.
//!
//! Oracle, recomputed from the storage dump of the account taken before and after the commit:
//! removed = credential ids(before) − credential ids(after). Every session that was live before and
//! whose cred_id ∈ removed must be in state revoked afterwards, revoked at exactly the change id that
//! the commit wrote for the credential attribute. After EVERY commit (also those of late delayed
//! session records) no live session may reference a credential id that is not on the account. Tokens
//! whose session the dump shows revoked must be refused.
//!
//! Not covered here: OAuth2 sessions whose parent login session is revoked (needs a client, consent
//! and token exchange - idmsim2 drives those flows for C39).

use crate::sim::*;
use compact_jwt::JwsCompact;
use kanidm_proto::v1::{AuthCredential as C, AuthMech};
use kanidmd_lib::idm::account::DestroySessionTokenEvent;
use kanidmd_lib::idm::delayed::DelayedAction;
use kanidmd_lib::prelude::*;
use kvcore::{Acc, Args, Rng, Run};
use serde_json::{json, Value as Json};
use std::collections::BTreeSet;
use webauthn_authenticator_rs::softpasskey::SoftPasskey;

struct Login {
    jws: JwsCompact,
    session: String,
    via: &'static str,
    t: u64,
}

struct World {
    sim: Sim,
    t: u64,
    n: u64,
}

fn creds_of(e: &Json) -> BTreeSet<String> {
    let (p, pk) = dump_cred_ids(e);
    p.into_iter().chain(pk).collect()
}

fn brief_sessions(e: &Json) -> Vec<Json> {
    dump_sessions(e)
        .iter()
        .map(|s| json!({"id": s.id, "state": s.state, "at": if s.state == "revoked" { json!(cid_str(&s.state_val)) } else { s.state_val.clone() }, "cred_id": s.cred_id}))
        .collect()
}

/// every live session references a credential that exists
fn invariant(acc: &mut Acc, e: &Json, when: &str, hist: &[Json]) {
    let creds = creds_of(e);
    for s in dump_sessions(e) {
        if s.state != "revoked" {
            acc.count("invariant.live_session_checked");
            if !creds.contains(&s.cred_id) {
                acc.violation(
                    "c36/live-session-references-missing-credential",
                    json!({"why": "after a commit the account carries a live session whose credential id is not on the account",
                           "when": when, "session": s.id, "session_cred_id": s.cred_id, "credentials_on_account": creds,
                           "sessions": brief_sessions(e), "history": hist}),
                );
            }
        }
    }
}

fn judge_change(acc: &mut Acc, before: &Json, after: &Json, op: &str, hist: &[Json]) -> BTreeSet<String> {
    let (p0, k0) = dump_cred_ids(before);
    let (p1, k1) = dump_cred_ids(after);
    let mut removed: BTreeSet<(String, &'static str)> = BTreeSet::new();
    if let Some(p) = &p0 {
        if p1.as_ref() != Some(p) {
            removed.insert((p.clone(), "primary_credential"));
        }
    }
    for k in &k0 {
        if !k1.contains(k) {
            removed.insert((k.clone(), "passkeys"));
        }
    }
    acc.count(&format!("op.{op}.removed_{}", removed.len()));
    let after_sessions = dump_sessions(after);
    for s in dump_sessions(before) {
        if s.state == "revoked" {
            continue;
        }
        let hit = removed.iter().find(|(c, _)| *c == s.cred_id);
        match hit {
            Some((cred, attr)) => {
                acc.count(&format!("judged.session_of_removed_{attr}"));
                let now = after_sessions.iter().find(|x| x.id == s.id);
                let attr_cid = dump_attr_cid(after, attr);
                let witness = |why: &str| {
                    json!({"why": why, "operation": op, "removed_credential": cred, "attribute": attr,
                           "session": s.id, "attribute_change_id": attr_cid,
                           "sessions_before": brief_sessions(before), "sessions_after": brief_sessions(after),
                           "history": hist})
                };
                match now {
                    None => acc.violation(
                        &format!("c36/session-record-vanished-instead-of-revoked/{attr}"),
                        witness("the session record is gone: a revocation must stay on the account (and replicate)"),
                    ),
                    Some(x) if x.state != "revoked" => acc.violation(
                        &format!("c36/session-survives-removal-of-its-credential/{attr}"),
                        witness("credential removed, session issued with it still live"),
                    ),
                    Some(x) => {
                        if Some(cid_str(&x.state_val)) != attr_cid {
                            acc.violation(
                                &format!("c36/session-revoked-in-a-different-change/{attr}"),
                                witness("session revoked, but not at the change id that removed the credential"),
                            );
                        } else {
                            acc.count("held.revoked_in_same_change");
                        }
                    }
                }
            }
            None => {
                // sessions of credentials that stayed: surviving is the expected control, not a demand
                if let Some(x) = after_sessions.iter().find(|x| x.id == s.id) {
                    if x.state != "revoked" {
                        acc.count("control.session_of_kept_credential_survived");
                        if k0.contains(&s.cred_id) {
                            acc.count("control.passkey_session_survived_other_change");
                        }
                    } else {
                        acc.count("control.session_of_kept_credential_revoked_too");
                    }
                }
            }
        }
    }
    removed.into_iter().map(|(c, _)| c).collect()
}

async fn scenario(w: &mut World, rng: &mut Rng, acc: &mut Acc, use_passkeys: bool) {
    w.n += 1;
    w.t += 30;
    let name = format!("c36p{}", w.n);
    let uuid = rng.uuid();
    let mut pw = gen_password(rng);
    let with_totp = rng.chance(1, 3);
    let npk = if use_passkeys { *rng.pick(&[0usize, 0, 1, 1, 2]) } else { 0 };
    let mut hist: Vec<Json> = Vec::new();
    macro_rules! setup {
        ($e:expr, $what:expr) => {
            match $e {
                Ok(x) => x,
                Err(e) => {
                    acc.inconclusive(&format!("scenario setup {}: {:?}", $what, e));
                    return;
                }
            }
        };
    }
    setup!(w.sim.create_person(&name, uuid, false, secs(w.t)).await, "create");
    if rng.chance(1, 4) {
        // short sessions so that some expire before the removal
        setup!(
            w.sim
                .create_policy_group(&format!("c36g{}", w.n), rng.uuid(), &[uuid], None, Some(400), secs(w.t))
                .await,
            "policy"
        );
        hist.push(json!({"t": w.t, "op": "policy authsession_expiry=400"}));
    }
    let out = setup!(
        w.sim.set_credentials(uuid, secs(w.t), &pw, with_totp, false, false).await,
        "creds"
    );
    let mut totp = out.totp;
    let mut keys: Vec<SoftPasskey> = Vec::new();
    for i in 0..npk {
        w.t += 1;
        keys.push(setup!(
            w.sim.add_soft_passkey(uuid, &format!("k{i}"), secs(w.t)).await,
            "passkey"
        ));
    }
    hist.push(json!({"t": w.t, "op": "setup", "totp": with_totp, "passkeys": npk}));
    // ---- logins
    let mut logins: Vec<Login> = Vec::new();
    let mut pending: Vec<DelayedAction> = Vec::new();
    let nlogins = rng.range(1, 5);
    for _ in 0..nlogins {
        w.t += *rng.pick(&[1u64, 2, 20, 100, 350]);
        let t = w.t;
        let via_pk = !keys.is_empty() && rng.bool();
        let r = if via_pk {
            // with several passkeys the authenticator answering is the one that owns a listed credential
            let ki = rng.usize(keys.len());
            let r = w.sim.login_passkey(&name, &mut keys[ki], secs(t)).await;
            r.map(|j| (j, "passkey"))
        } else {
            let (mech, creds) = match &totp {
                Some(s) => (
                    AuthMech::PasswordTotp,
                    vec![C::Totp(totp_at(s, t, 0).unwrap_or(0)), C::Password(pw.clone())],
                ),
                None => (AuthMech::Password, vec![C::Password(pw.clone())]),
            };
            w.sim.login(&name, false, mech, creds, secs(t)).await.map(|j| (j, "primary"))
        };
        match r {
            Ok((jws, via)) => {
                let Some(u) = parse_uat(&jws) else { continue };
                acc.count(&format!("login.{via}"));
                let mut das = w.sim.take_delayed();
                let write_now = rng.chance(3, 4);
                hist.push(json!({"t": t, "op": "login", "via": via, "session": u.session_id.to_string(), "record_written_now": write_now}));
                if write_now {
                    let d = w.sim.apply_delayed(das, secs(t)).await;
                    if !d.errors.is_empty() {
                        acc.inconclusive(&format!("delayed action failed: {:?}", d.errors));
                    }
                } else {
                    acc.count("login.record_left_queued");
                    pending.append(&mut das);
                }
                logins.push(Login {
                    jws,
                    session: u.session_id.to_string(),
                    via,
                    t,
                });
            }
            Err(e) => {
                acc.count("login.failed");
                acc.observe("login_failures", &e.chars().take(70).collect::<String>());
                let _ = w.sim.take_delayed();
            }
        }
    }
    if let Some(e) = w.sim.dump_entry(uuid).await {
        invariant(acc, &e, "after logins", &hist);
    }
    // explicit logout of one session (already revoked sessions must simply stay revoked)
    if !logins.is_empty() && rng.chance(1, 4) {
        w.t += 1;
        let li = rng.usize(logins.len());
        if let (Ok(ident), Ok(sid)) = (w.sim.ident_of(uuid).await, Uuid::parse_str(&logins[li].session)) {
            let ct = secs(w.t);
            let r = async {
                let mut wr = w.sim.idms.proxy_write(ct).await?;
                wr.account_destroy_session_token(&DestroySessionTokenEvent {
                    ident,
                    target: uuid,
                    token_id: sid,
                })?;
                wr.commit()
            }
            .await;
            hist.push(json!({"t": w.t, "op": "logout", "session": logins[li].session, "result": format!("{r:?}")}));
        }
    }
    if rng.chance(1, 3) {
        let d = *rng.pick(&[10u64, 290, 310, 450, 5000]);
        w.t += d;
        hist.push(json!({"t": w.t, "op": "advance", "by": d}));
    }
    // ---- credential changes
    let nops = rng.range(1, 2);
    for _ in 0..nops {
        w.t += 2;
        let t = w.t;
        let ct = secs(t);
        let Some(before) = w.sim.dump_entry(uuid).await else { return };
        let (p0, k0) = dump_cred_ids(&before);
        let mut cands: Vec<&'static str> = vec!["recover_account", "purge_primary_directly"];
        if p0.is_some() {
            cands.extend(["replace_primary", "replace_primary", "change_password_only", "add_totp"]);
            if !k0.is_empty() {
                cands.extend(["delete_primary", "delete_primary"]);
            }
        } else {
            cands.push("set_new_primary");
        }
        if !k0.is_empty() {
            cands.extend(["remove_passkey", "remove_passkey", "purge_passkeys_directly"]);
        }
        let op = *rng.pick(&cands);
        let r: Result<(), OperationError> = match op {
            "replace_primary" | "set_new_primary" => {
                let npw = gen_password(rng);
                let tt = totp.is_some() || rng.chance(1, 4);
                match w.sim.set_credentials(uuid, ct, &npw, tt, false, true).await {
                    Ok(o) => {
                        pw = npw;
                        totp = o.totp;
                        Ok(())
                    }
                    Err(e) => Err(e),
                }
            }
            "change_password_only" => {
                let npw = gen_password(rng);
                let npw2 = npw.clone();
                let r = w
                    .sim
                    .cred_update(uuid, ct, "change password only", move |cu, cust, _| {
                        cu.credential_primary_set_password(cust, ct, &npw2).map(|_| ())
                    })
                    .await;
                if r.is_ok() {
                    pw = npw;
                }
                r.map(|_| ())
            }
            "add_totp" => {
                if totp.is_some() {
                    Ok(())
                } else {
                    let r = w
                        .sim
                        .cred_update(uuid, ct, "add totp", move |cu, cust, out| add_totp(cu, cust, ct, "late", out))
                        .await;
                    match r {
                        Ok(o) => {
                            totp = o.totp;
                            Ok(())
                        }
                        Err(e) => Err(e),
                    }
                }
            }
            "delete_primary" => {
                let r = w
                    .sim
                    .cred_update(uuid, ct, "delete primary", move |cu, cust, _| {
                        cu.credential_primary_delete(cust, ct).map(|_| ())
                    })
                    .await;
                if r.is_ok() {
                    totp = None;
                }
                r.map(|_| ())
            }
            "remove_passkey" => {
                let victim = rng.pick(&k0).clone();
                let vu = Uuid::parse_str(&victim).unwrap_or(Uuid::nil());
                w.sim
                    .cred_update(uuid, ct, "remove passkey", move |cu, cust, _| {
                        cu.credential_passkey_remove(cust, ct, vu).map(|_| ())
                    })
                    .await
                    .map(|_| ())
            }
            "recover_account" => {
                let r = async {
                    let mut wr = w.sim.idms.proxy_write(ct).await?;
                    let p = wr.recover_account(&name, None)?;
                    wr.commit()?;
                    Ok::<_, OperationError>(p)
                }
                .await;
                match r {
                    Ok(p) => {
                        pw = p;
                        totp = None;
                        Ok(())
                    }
                    Err(e) => Err(e),
                }
            }
            "purge_primary_directly" => {
                let r = async {
                    let mut wr = w.sim.idms.proxy_write(ct).await?;
                    wr.qs_write
                        .internal_modify_uuid(uuid, &ModifyList::new_purge(Attribute::PrimaryCredential))?;
                    wr.commit()
                }
                .await;
                if r.is_ok() {
                    totp = None;
                }
                r
            }
            _ => {
                async {
                    let mut wr = w.sim.idms.proxy_write(ct).await?;
                    wr.qs_write
                        .internal_modify_uuid(uuid, &ModifyList::new_purge(Attribute::PassKeys))?;
                    wr.commit()
                }
                .await
            }
        };
        hist.push(json!({"t": t, "op": op, "result": format!("{r:?}")}));
        acc.eval();
        if let Err(e) = r {
            acc.count(&format!("op.{op}.refused"));
            acc.observe("refused_ops", &format!("{op}: {}", short_err(&e)));
            continue;
        }
        let Some(after) = w.sim.dump_entry(uuid).await else { return };
        let removed = judge_change(acc, &before, &after, op, &hist);
        invariant(acc, &after, &format!("after {op}"), &hist);
        if !removed.is_empty() {
            let live_hit = dump_sessions(&before)
                .iter()
                .any(|s| s.state != "revoked" && removed.contains(&s.cred_id));
            if live_hit {
                acc.nontrivial(&format!("{}|{}|{}", w.n, op, t));
            }
        }
        // tokens of sessions that the directory shows revoked must be refused (now and later)
        let after_sessions = dump_sessions(&after);
        for l in &logins {
            let st = after_sessions.iter().find(|s| s.id == l.session);
            for dt in [0u64, 1, 301] {
                let r = w.sim.present(&l.jws, secs(t + dt)).await;
                match (st.map(|s| s.state.as_str()), r.is_ok()) {
                    (Some("revoked"), true) => acc.violation(
                        &format!("c36/token-of-revoked-session-accepted/{}", l.via),
                        json!({"why": "the session is revoked on the account, its token is still accepted",
                               "session": l.session, "login_t": l.t, "presented_at": t + dt,
                               "sessions_after": brief_sessions(&after), "history": hist}),
                    ),
                    (Some("revoked"), false) => acc.count("token.revoked_session_refused"),
                    (Some(_), true) => acc.count("token.live_session_accepted"),
                    (Some(_), false) => acc.count("token.live_session_refused"),
                    (None, true) => acc.count("token.unrecorded_session_accepted_in_grace"),
                    (None, false) => acc.count("token.unrecorded_session_refused"),
                }
            }
        }
        // late session records: written after the credential is gone
        if !pending.is_empty() && rng.chance(2, 3) {
            w.t += 1;
            let das = std::mem::take(&mut pending);
            let n = das.len();
            let d = w.sim.apply_delayed(das, secs(w.t)).await;
            hist.push(json!({"t": w.t, "op": "late session records written", "n": n, "errors": d.errors}));
            acc.count_n("late_records_written", n as u64);
            if let Some(e) = w.sim.dump_entry(uuid).await {
                invariant(acc, &e, "after late session records", &hist);
                let ss = dump_sessions(&e);
                for l in &logins {
                    if let Some(s) = ss.iter().find(|s| s.id == l.session) {
                        if s.state == "revoked" {
                            let r = w.sim.present(&l.jws, secs(w.t)).await;
                            if r.is_ok() {
                                acc.violation(
                                    &format!("c36/token-of-revoked-session-accepted/{}", l.via),
                                    json!({"why": "late-written session record came out revoked, token still accepted",
                                           "session": l.session, "presented_at": w.t, "sessions": brief_sessions(&e), "history": hist}),
                                );
                            } else {
                                acc.count("token.revoked_session_refused");
                            }
                        }
                    }
                }
            }
        }
    }
    // control: the account can still log in with what it has now, and that session is live
    if let Some(e) = w.sim.dump_entry(uuid).await {
        if dump_cred_ids(&e).0.is_some() {
            w.t += 90_000; // next day: clear of any soft lock
            let t = w.t;
            let (mech, creds) = match &totp {
                Some(s) => (
                    AuthMech::PasswordTotp,
                    vec![C::Totp(totp_at(s, t, 0).unwrap_or(0)), C::Password(pw.clone())],
                ),
                None => (AuthMech::Password, vec![C::Password(pw.clone())]),
            };
            match w.sim.login(&name, false, mech, creds, secs(t)).await {
                Ok(j) => {
                    let _ = w.sim.drain(secs(t)).await;
                    if w.sim.present(&j, secs(t + 400)).await.is_ok() {
                        acc.count("control.login_with_current_credential_live_after_grace");
                    }
                    if let Some(e) = w.sim.dump_entry(uuid).await {
                        invariant(acc, &e, "after final login", &hist);
                    }
                }
                Err(e) => {
                    acc.count("control.final_login_failed");
                    acc.observe("final_login_failures", &e.chars().take(70).collect::<String>());
                }
            }
        }
    }
    if acc.samples.len() < 4 && w.n % 5 == 2 {
        acc.sample(json!({"history": hist}));
    }
    w.t += 400;
}

pub fn run(args: Args) {
    let scenarios: u64 = args.tier.pick(640, 8_000);
    let mut run = Run::new(
        args.clone(),
        "exploration",
        "scenarios = person with password or password+totp and 0..2 soft passkeys; 1..5 logins by random credential with the session record written at once or queued; optional logout / time jump; 1..2 credential changes from {replace primary, change password only, add totp, delete primary, remove one passkey, recover_account, purge primary or passkeys through the directory API}; late queued records written after the change; non-trivial = the change removed a credential that had a live recorded session",
    );
    run.assume("credential ids, sessions and change ids are read from the storage dump of the account (kvcore dump format), sessions are compared by id");
    run.assume("OAuth2 child sessions are not driven by this engine (idmsim2 covers OAuth2 token flows)");
    let seed = args.seed;
    run.parallel(args.workers, |wk, n| {
        let mut acc = Acc::new();
        let rt = kvcore::srv::rt();
        rt.block_on(async {
            let mut rng = Rng::new(kvcore::rng::mix(seed, wk as u64, 36));
            let mut sim = match Sim::new(T0).await {
                Ok(s) => s,
                Err(e) => {
                    acc.inconclusive(&e);
                    return;
                }
            };
            sim.keep_log = false;
            let t = T0.as_secs() + 100;
            if let Err(e) = sim.allow_password_only(secs(t)).await {
                acc.inconclusive(&format!("setup: {e:?}"));
                return;
            }
            let mut world = World { sim, t: t + 10, n: 0 };
            let mut i = wk as u64;
            while i < scenarios {
                scenario(&mut world, &mut rng, &mut acc, true).await;
                acc.count("scenarios");
                i += n as u64;
            }
        });
        acc
    });
    run.extra("scenarios", json!(scenarios));
    for key in [
        "judged.session_of_removed_primary_credential",
        "judged.session_of_removed_passkeys",
        "held.revoked_in_same_change",
        "control.session_of_kept_credential_survived",
        "control.passkey_session_survived_other_change",
        "token.revoked_session_refused",
        "token.live_session_accepted",
        "late_records_written",
        "login.primary",
        "login.passkey",
        "op.replace_primary.removed_1",
        "op.delete_primary.removed_1",
        "op.remove_passkey.removed_1",
        "op.change_password_only.removed_1",
        "control.login_with_current_credential_live_after_grace",
    ] {
        let seen = run.acc.get(key) > 0;
        run.require(seen, &format!("never observed: {key}"));
    }
    let any_recover = run.acc.counters.keys().any(|k| k.starts_with("op.recover_account.removed_"));
    run.require(any_recover, "recover_account never exercised");
    run.finish();
}
