//! idmsim engine. See /verif/DESIGN.md section 2 and /verif/harness/AGENT_GUIDE.md.
#[macro_use]
extern crate kanidmd_lib;

mod c27;
mod c32;
mod c33;
mod c36;
mod c49;
mod sim;

fn main() {
    let args = kvcore::parse_args();
    // a replay file names a witness; the runs are deterministic in (tier, seed), which the file
    // records, so the witness is shown and the same tier/seed is re-run
    if let Some(p) = &args.replay {
        if let Some(w) = kvcore::run::load_replay(p) {
            println!("replay witness: {w}");
        }
    }
    match args.prop.as_str() {
        "C27" => c27::run(args),
        "C32" => c32::run(args),
        "C33" => c33::run(args),
        "C36" => c36::run(args),
        "C49" => c49::run(args),
        p => {
            println!("INCONCLUSIVE property={p} reason=idmsim does not serve this property");
            std::process::exit(2);
        }
    }
}
