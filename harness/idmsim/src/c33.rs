//! C33 Write privilege is bounded in time and by login type.
//!
//! Workload: scenarios on a long-lived server: a fresh person with a random account policy
//! (privilege expiry P, session expiry S) and credential shape (password, password+TOTP, backup code
//! login, generated password), an interactive login with or without the privileged flag, 0..3
//! re-authentications (grant read-write / verify only, right / wrong credentials) at times chosen
//! around the privilege window and the session expiry, plus anonymous logins, read-only and read-write
//! API tokens, LDAP password binds, LDAP binds with API tokens, client-certificate identities and logins through a trusted external OAuth2 provider. Every token is then presented at
//! times on both sides of every edge (issue, privilege window end, expiry) and at random times.
//!
//! Oracle: the scope of the identity is ReadWrite ⇒ the token is a read-write API token, or it came
//! from an authentication / re-authentication that the harness asked to be privileged, of a
//! privilege-capable login type, and issue ≤ t < issue + W where W is the bound the HARNESS
//! configured (min(P, 3600) for re-authentication, min(S, 3600) for a privileged login).
//! Anonymous, LDAP-password, client-certificate identities and read-only API tokens are never
//! ReadWrite; neither are logins through a trusted external OAuth2 provider, with or without
//! the privileged flag at init (the front end's provider round trips are scripted). A re-issued token never
//! expires later than the token it was derived from.

use crate::sim::*;
use compact_jwt::JwsCompact;
use kanidm_proto::v1::{AuthCredential as C, AuthMech};
use kanidmd_lib::idm::event::{LdapAuthEvent, LdapTokenAuthEvent};
use kanidmd_lib::idm::ldap::LdapBoundToken;
use kanidmd_lib::idm::server::IdmServerTransaction;
use kanidmd_lib::idm::serviceaccount::GenerateApiTokenEvent;
use kanidmd_lib::prelude::*;
use kvcore::{Acc, Args, Rng, Run};
use serde_json::{json, Value as Json};

#[derive(Clone, Copy, PartialEq, Eq, Debug)]
enum Lt {
    Pw,
    PwTotp,
    Backup,
    GenPw,
}

impl Lt {
    fn name(&self) -> &'static str {
        match self {
            Lt::Pw => "password",
            Lt::PwTotp => "password+totp",
            Lt::Backup => "password+backupcode",
            Lt::GenPw => "generated-password",
        }
    }
}

#[derive(Clone, Copy, PartialEq, Eq, Debug)]
enum Kind {
    Uat(Lt),
    Anonymous,
    ApiRo,
    ApiRw,
    LdapPw,
    LdapApiRo,
    LdapApiRw,
    Certificate,
    /// login through an external OAuth2 provider the server trusts
    Trust,
}

impl Kind {
    fn name(&self) -> String {
        match self {
            Kind::Uat(l) => format!("login:{}", l.name()),
            Kind::Anonymous => "anonymous".into(),
            Kind::ApiRo => "api-readonly".into(),
            Kind::ApiRw => "api-readwrite".into(),
            Kind::LdapPw => "ldap-password-bind".into(),
            Kind::LdapApiRo => "ldap-bind-with-readonly-api-token".into(),
            Kind::LdapApiRw => "ldap-bind-with-readwrite-api-token".into(),
            Kind::Certificate => "client-certificate".into(),
            Kind::Trust => "oauth2-trust".into(),
        }
    }
}

struct Tok {
    kind: Kind,
    jws: Option<JwsCompact>,
    ldap: Option<LdapBoundToken>,
    issued: u64,
    expiry: Option<u64>,
    /// privilege window the harness asked for: (start, bound)
    window: Option<(u64, u64)>,
    /// "login privileged" | "login" | "reauth grant" | "reauth verify"
    origin: &'static str,
    /// generated-password login without the privileged flag: write scope counted, not judged
    unjudged_rw: bool,
    accepted_inside: bool,
    accepted_after: bool,
}

struct World {
    sim: Sim,
    t: u64,
    svc: Uuid,
    n: u64,
    cci: Option<ClientCertInfo>,
    /// the trusted external OAuth2 provider, if it could be set up
    trust: Option<Uuid>,
}

impl World {
    async fn present_tok(&mut self, tok: &Tok, t: u64) -> Result<AccessScope, OperationError> {
        let ct = secs(t);
        if let Some(j) = &tok.jws {
            self.sim.present(j, ct).await.map(|(_, s, _)| s)
        } else if tok.kind == Kind::Certificate {
            match &self.cci {
                Some(c) => {
                    let c = c.clone();
                    self.sim.present_cert(&c, ct).await.map(|(_, s)| s)
                }
                None => Err(OperationError::InvalidState),
            }
        } else if let Some(l) = &tok.ldap {
            let mut r = self.sim.idms.proxy_read().await?;
            r.validate_ldap_session(&l.effective_session, Source::Internal, ct)
                .map(|i| i.access_scope())
        } else {
            Err(OperationError::InvalidState)
        }
    }
}

fn judge(acc: &mut Acc, tok: &mut Tok, t: u64, scope: &AccessScope, scen: &Json) {
    let kname = tok.kind.name();
    let rw = matches!(scope, AccessScope::ReadWrite);
    if let Some((s, w)) = tok.window {
        if t < s + w {
            tok.accepted_inside = true;
        } else if t > s + w {
            tok.accepted_after = true;
        }
    }
    if !rw {
        acc.count(&format!("ro.{}.{}", kname, tok.origin));
        if let Some((s, w)) = tok.window {
            if t > s + w {
                acc.count(&format!("ro_after_window.{}", tok.origin));
            }
        }
        return;
    }
    let witness = |why: String| -> Json {
        json!({"why": why, "presented_at": t,
               "token": {"kind": kname, "origin": tok.origin, "issued": tok.issued, "expiry": tok.expiry,
                          "privilege_window_asked": tok.window.map(|(s, w)| json!({"start": s, "bound_secs": w}))},
               "scenario": scen})
    };
    match tok.kind {
        Kind::ApiRw | Kind::LdapApiRw => acc.count(&format!("rw.{kname}")),
        Kind::ApiRo | Kind::LdapApiRo | Kind::LdapPw | Kind::Anonymous | Kind::Certificate | Kind::Trust => {
            acc.violation(
                &format!("c33/write-scope-for-readonly-login-type/{kname}"),
                witness("this login type must always be read-only".into()),
            );
        }
        Kind::Uat(lt) => match tok.window {
            None => {
                if tok.unjudged_rw {
                    acc.count("unjudged.generated_password_login_without_privileged_flag_is_rw");
                } else {
                    acc.violation(
                        &format!(
                            "c33/write-scope-without-privilege-grant/{}/{}",
                            lt.name(),
                            tok.origin.replace(' ', "-")
                        ),
                        witness("no privileged authentication or read-write re-authentication produced this token".into()),
                    );
                }
            }
            Some((s, w)) => {
                if t > s + w {
                    acc.violation(
                        &format!(
                            "c33/write-scope-after-privilege-window/{}/{}",
                            lt.name(),
                            tok.origin.replace(' ', "-")
                        ),
                        witness(format!("window opened at {s}, bound {w}s, used {}s after it closed", t - s - w)),
                    );
                } else if t == s + w {
                    acc.count("unjudged.rw_at_exact_window_end");
                } else {
                    acc.count(&format!("rw_inside_window.{}", tok.origin));
                    if t + 2 >= s + w {
                        acc.count(&format!("rw_inside_window_last_2s.{}", tok.origin));
                    }
                    if tok.unjudged_rw {
                        acc.count("unjudged.generated_password_login_without_privileged_flag_is_rw");
                    }
                }
            }
        },
    }
}

async fn scenario(w: &mut World, rng: &mut Rng, acc: &mut Acc) {
    w.n += 1;
    w.t += 20;
    let lt = *rng.pick(&[Lt::Pw, Lt::Pw, Lt::PwTotp, Lt::PwTotp, Lt::Backup, Lt::GenPw]);
    let privileged = rng.chance(2, 5);
    let p: Option<u32> = *rng.pick(&[None, Some(20), Some(45), Some(120), Some(300), Some(700)]);
    let s: Option<u32> = *rng.pick(&[None, None, Some(200), Some(900), Some(3600), Some(7200)]);
    let w_reauth = p.unwrap_or(3600).min(3600) as u64;
    let w_login = s.unwrap_or(u32::MAX).min(3600) as u64;
    let name = format!("c33p{}", w.n);
    let uuid = rng.uuid();
    let pw = gen_password(rng);
    let upw = gen_password(rng);
    let mut scen = json!({"login_type": lt.name(), "privileged_flag": privileged, "policy_privilege_expiry": p, "policy_authsession_expiry": s, "steps": []});
    let mut steps: Vec<Json> = Vec::new();
    let ct = secs(w.t);
    macro_rules! setup {
        ($e:expr, $what:expr) => {
            match $e {
                Ok(x) => x,
                Err(e) => {
                    acc.inconclusive(&format!("scenario setup {}: {:?}", $what, e));
                    return;
                }
            }
        };
    }
    setup!(w.sim.create_person(&name, uuid, true, ct).await, "create");
    if p.is_some() || s.is_some() {
        setup!(
            w.sim
                .create_policy_group(&format!("c33g{}", w.n), rng.uuid(), &[uuid], p, s, ct)
                .await,
            "policy group"
        );
    }
    let mut totp = None;
    let mut codes: Vec<String> = Vec::new();
    let mut pw = pw;
    match lt {
        Lt::Pw => {
            setup!(w.sim.set_credentials(uuid, ct, &pw, false, false, false).await, "creds");
        }
        Lt::PwTotp | Lt::Backup => {
            let out = setup!(
                w.sim.set_credentials(uuid, ct, &pw, true, lt == Lt::Backup, false).await,
                "creds"
            );
            totp = out.totp;
            codes = out.backup_codes;
        }
        Lt::GenPw => {
            let r = async {
                let mut wr = w.sim.idms.proxy_write(ct).await?;
                let p = wr.recover_account(&name, None)?;
                wr.commit()?;
                Ok::<_, OperationError>(p)
            }
            .await;
            pw = setup!(r, "recover_account");
        }
    }
    let mut toks: Vec<Tok> = Vec::new();
    // ---- the interactive login
    w.t += 2;
    let t0 = w.t;
    let (mech, creds) = match lt {
        Lt::Pw | Lt::GenPw => (AuthMech::Password, vec![C::Password(pw.clone())]),
        Lt::PwTotp => (
            AuthMech::PasswordTotp,
            vec![
                C::Totp(totp.as_ref().and_then(|s| totp_at(s, t0, 0)).unwrap_or(0)),
                C::Password(pw.clone()),
            ],
        ),
        Lt::Backup => (
            AuthMech::PasswordBackupCode,
            vec![C::BackupCode(codes.first().cloned().unwrap_or_default()), C::Password(pw.clone())],
        ),
    };
    match w.sim.login(&name, privileged, mech, creds, secs(t0)).await {
        Ok(jws) => {
            let exp = parse_uat(&jws).and_then(|u| u.expiry).map(|e| e.unix_timestamp() as u64);
            let window = if privileged || lt == Lt::GenPw {
                Some((t0, w_login))
            } else {
                None
            };
            steps.push(json!({"t": t0, "op": "login", "privileged": privileged, "token": toks.len(), "expiry": exp}));
            acc.count(&format!("login.{}.{}", lt.name(), if privileged { "privileged" } else { "plain" }));
            toks.push(Tok {
                kind: Kind::Uat(lt),
                jws: Some(jws),
                ldap: None,
                issued: t0,
                expiry: exp,
                window,
                origin: if privileged { "login privileged" } else { "login" },
                unjudged_rw: lt == Lt::GenPw && !privileged,
                accepted_inside: false,
                accepted_after: false,
            });
        }
        Err(e) => {
            acc.inconclusive(&format!("canonical login failed ({}): {e}", lt.name()));
            return;
        }
    }
    let drained = rng.chance(7, 8);
    if drained {
        let d = w.sim.drain(secs(w.t)).await;
        if !d.errors.is_empty() {
            acc.inconclusive(&format!("drain failed: {:?}", d.errors));
        }
    } else {
        let _ = w.sim.take_delayed();
        acc.count("scenario.session_record_never_written");
    }
    // ---- re-authentications
    let nre = rng.below(4);
    for _ in 0..nre {
        let src = rng.usize(toks.len());
        let base_w = toks[src].window.map(|x| x.1).unwrap_or(w_reauth);
        let d = *rng.pick(&[
            1u64,
            3,
            base_w.saturating_sub(1).max(1),
            base_w + 1,
            w_reauth + 2,
            30,
            150,
            650,
            s.map(|x| x as u64).unwrap_or(86400).saturating_sub(5).max(1),
            s.map(|x| x as u64).unwrap_or(86400) + 5,
        ]);
        w.t += d;
        let t = w.t;
        let grant = rng.chance(3, 4);
        let right = rng.chance(5, 6);
        let Some(jws) = toks[src].jws.clone() else { continue };
        let ident = match w.sim.present_ident(&jws, secs(t)).await {
            Ok(i) => i,
            Err(e) => {
                acc.count("reauth.source_token_not_accepted");
                steps.push(json!({"t": t, "op": "reauth", "from": src, "result": format!("token refused: {}", short_err(&e))}));
                continue;
            }
        };
        let pwx = if right { pw.clone() } else { format!("{pw}!") };
        // kanidm re-authenticates a backup-code login with the password alone
        let creds = match lt {
            Lt::PwTotp => vec![
                C::Totp(totp.as_ref().and_then(|s| totp_at(s, t, 0)).unwrap_or(0)),
                C::Password(pwx),
            ],
            _ => vec![C::Password(pwx)],
        };
        let src_exp = toks[src].expiry;
        match w.sim.reauth(ident, grant, creds, secs(t)).await {
            Ok(j2) => {
                let exp = parse_uat(&j2).and_then(|u| u.expiry).map(|e| e.unix_timestamp() as u64);
                acc.count(if grant { "reauth.ok.grant" } else { "reauth.ok.verify_only" });
                steps.push(json!({"t": t, "op": "reauth", "from": src, "grant_rw": grant, "token": toks.len(), "expiry": exp}));
                if !right {
                    acc.violation(
                        &format!("c33/reauthentication-succeeded-with-wrong-password/{}", lt.name()),
                        json!({"scenario": scen, "steps": steps}),
                    );
                }
                // never extends the overall session expiry
                acc.count("reauth.expiry_compared");
                let extended = match (src_exp, exp) {
                    (Some(a), Some(b)) => b > a,
                    (Some(_), None) => true,
                    _ => false,
                };
                if extended {
                    acc.violation(
                        &format!("c33/reauthentication-extended-session-expiry/{}", lt.name()),
                        json!({"why": "token expiry after re-authentication is later than before",
                               "before": src_exp, "after": exp, "scenario": scen, "steps": steps}),
                    );
                }
                toks.push(Tok {
                    kind: Kind::Uat(lt),
                    jws: Some(j2),
                    ldap: None,
                    issued: t,
                    expiry: exp,
                    window: if grant { Some((t, w_reauth)) } else { None },
                    origin: if grant { "reauth grant" } else { "reauth verify" },
                    unjudged_rw: false,
                    accepted_inside: false,
                    accepted_after: false,
                });
            }
            Err(e) => {
                let cls = if !right {
                    "reauth.refused.wrong_credentials"
                } else if e.contains("SessionMayNotReauth") {
                    "reauth.refused.session_not_privilege_capable"
                } else if e.contains("InvalidState") {
                    "reauth.refused.no_session_record"
                } else {
                    "reauth.refused.other"
                };
                acc.count(cls);
                if cls == "reauth.refused.other" {
                    acc.observe("reauth_refusals", &e.chars().take(80).collect::<String>());
                }
                steps.push(json!({"t": t, "op": "reauth", "from": src, "grant_rw": grant, "right_credentials": right, "result": e}));
                if !right {
                    // wrong password soft-locks the credential for a moment
                    w.t += 5;
                }
            }
        }
    }
    // ---- a person who authenticates at the trusted external provider, with and without asking for
    // privileges at init
    if let (Some(provider), true) = (w.trust, rng.chance(1, 3)) {
        w.t += 1;
        let tname = format!("c33t{}", w.n);
        let tuuid = rng.uuid();
        let sub = format!("sub-{}", w.n);
        let ok = async {
            w.sim.create_person(&tname, tuuid, false, secs(w.t)).await?;
            w.sim.link_trust(tuuid, provider, &sub, secs(w.t + 1)).await
        }
        .await;
        w.t += 2;
        match ok {
            Err(e) => acc.observe("trust_setup_errors", &format!("{e:?}")),
            Ok(()) => {
                let asked = rng.bool();
                match w.sim.login_trust(&tname, asked, &sub, secs(w.t)).await {
                    Ok(jws) => {
                        acc.count(if asked { "trust_login.ok.privileged_flag" } else { "trust_login.ok.plain" });
                        let exp = parse_uat(&jws).and_then(|u| u.expiry).map(|e| e.unix_timestamp() as u64);
                        let _ = w.sim.drain(secs(w.t)).await;
                        toks.push(Tok {
                            kind: Kind::Trust,
                            jws: Some(jws),
                            ldap: None,
                            issued: w.t,
                            expiry: exp,
                            window: None,
                            origin: if asked { "login privileged" } else { "login" },
                            unjudged_rw: false,
                            accepted_inside: false,
                            accepted_after: false,
                        });
                    }
                    Err(e) => {
                        acc.count("trust_login.failed");
                        acc.observe("trust_login_failures", &e.chars().take(100).collect::<String>());
                    }
                }
            }
        }
    }
    // ---- other login types (cheap, a third of the scenarios each)
    if rng.chance(1, 3) {
        w.t += 1;
        if let Ok(jws) = w
            .sim
            .login("anonymous", rng.bool(), AuthMech::Anonymous, vec![C::Anonymous], secs(w.t))
            .await
        {
            let exp = parse_uat(&jws).and_then(|u| u.expiry).map(|e| e.unix_timestamp() as u64);
            toks.push(Tok {
                kind: Kind::Anonymous,
                jws: Some(jws),
                ldap: None,
                issued: w.t,
                expiry: exp,
                window: None,
                origin: "login",
                unjudged_rw: false,
                accepted_inside: false,
                accepted_after: false,
            });
        }
    }
    if rng.chance(1, 3) {
        for rw in [false, true] {
            w.t += 1;
            let compact = rng.bool();
            let Ok(ident) = w.sim.ident_of(UUID_IDM_ADMIN).await else { continue };
            let exp = if rng.bool() { Some(w.t + 5000) } else { None };
            let gte = GenerateApiTokenEvent {
                ident,
                target: w.svc,
                label: format!("t{}", w.t),
                expiry: exp.map(odt),
                read_write: rw,
                compact,
            };
            let ct = secs(w.t);
            let r = async {
                let mut wr = w.sim.idms.proxy_write(ct).await?;
                let tok = wr.service_account_generate_api_token(&gte, ct)?;
                wr.commit()?;
                Ok::<_, OperationError>(tok)
            }
            .await;
            if let Ok(jws) = r {
                // and the same token used as an LDAP bind password
                let lbt = async {
                    let mut a = w.sim.idms.auth().await?;
                    let lae = LdapTokenAuthEvent::from_parts(jws.clone())?;
                    a.token_auth_ldap(&lae, ct).await
                }
                .await;
                if let Ok(Some(l)) = lbt {
                    toks.push(Tok {
                        kind: if rw { Kind::LdapApiRw } else { Kind::LdapApiRo },
                        jws: None,
                        ldap: Some(l),
                        issued: w.t,
                        expiry: exp,
                        window: None,
                        origin: "ldap bind",
                        unjudged_rw: false,
                        accepted_inside: false,
                        accepted_after: false,
                    });
                }
                toks.push(Tok {
                    kind: if rw { Kind::ApiRw } else { Kind::ApiRo },
                    jws: Some(jws),
                    ldap: None,
                    issued: w.t,
                    expiry: exp,
                    window: None,
                    origin: "api token",
                    unjudged_rw: false,
                    accepted_inside: false,
                    accepted_after: false,
                });
            } else {
                acc.count("api_issue.refused");
            }
        }
    }
    if rng.chance(1, 3) {
        w.t += 1;
        let ct = secs(w.t);
        match w.sim.set_unix_password(uuid, &upw, ct).await {
            Ok(()) => {
                let r = async {
                    let mut a = w.sim.idms.auth().await?;
                    let lae = LdapAuthEvent::from_parts(uuid, upw.clone())?;
                    a.auth_ldap(&lae, ct).await
                }
                .await;
                match r {
                    Ok(Some(l)) => toks.push(Tok {
                        kind: Kind::LdapPw,
                        jws: None,
                        ldap: Some(l),
                        issued: w.t,
                        expiry: None,
                        window: None,
                        origin: "ldap bind",
                        unjudged_rw: false,
                        accepted_inside: false,
                        accepted_after: false,
                    }),
                    o => {
                        acc.count("ldap_bind.refused");
                        acc.observe("ldap_bind_refusals", &format!("{o:?}").chars().take(60).collect::<String>());
                    }
                }
            }
            Err(e) => {
                acc.count("unix_password_set.refused");
                acc.observe("unix_password_refusals", &short_err(&e));
            }
        }
    }
    if w.cci.is_some() && rng.chance(1, 3) {
        toks.push(Tok {
            kind: Kind::Certificate,
            jws: None,
            ldap: None,
            issued: w.t,
            expiry: None,
            window: None,
            origin: "client certificate",
            unjudged_rw: false,
            accepted_inside: false,
            accepted_after: false,
        });
    }
    scen["steps"] = Json::Array(steps);
    // ---- presentations on both sides of every edge
    let end = w.t;
    let mut maxt = end;
    for ti in 0..toks.len() {
        let mut times: Vec<u64> = vec![toks[ti].issued, toks[ti].issued + 1];
        if let Some((s0, bw)) = toks[ti].window {
            for d in [-2i64, -1, 0, 1, 2, 30] {
                times.push((s0 + bw).saturating_add_signed(d));
            }
            times.push(s0 + bw / 2);
        }
        if let Some(x) = toks[ti].expiry {
            times.extend([x.saturating_sub(1), x, x + 1]);
        }
        // the windows kanidm itself might apply (defaults) are edges too
        for d in [599u64, 601, 3599, 3601] {
            times.push(toks[ti].issued + d);
        }
        for _ in 0..3 {
            times.push(toks[ti].issued + rng.below(s.map(|x| x as u64).unwrap_or(86400) + 100));
        }
        times.retain(|x| *x >= toks[ti].issued);
        times.sort();
        times.dedup();
        for t in times {
            maxt = maxt.max(t);
            let r = {
                let tk = &toks[ti];
                w.present_tok(tk, t).await
            };
            acc.eval();
            match r {
                Ok(scope) => judge(acc, &mut toks[ti], t, &scope, &scen),
                Err(_) => acc.count(&format!("refused.{}", toks[ti].kind.name())),
            }
        }
        if toks[ti].accepted_inside && toks[ti].accepted_after {
            acc.nontrivial(&format!("{}|{}|{:?}|{:?}|{}", w.n, ti, p, s, toks[ti].origin));
            acc.count("tokens.accepted_on_both_sides_of_window_edge");
        }
    }
    if acc.samples.len() < 4 && w.n % 7 == 1 {
        acc.sample(scen.clone());
    }
    // writes must stay monotonic: continue after everything this scenario looked at
    w.t = w.t.max(end) + 10;
    let _ = maxt;
}

pub fn run(args: Args) {
    let scenarios: u64 = args.tier.pick(1200, 12_000);
    let mut run = Run::new(
        args.clone(),
        "exploration",
        "scenarios = login type {password, password+totp, backup code, generated password} x privileged flag x account policy (privilege expiry, session expiry) x 0..3 re-authentications (grant/verify, right/wrong credentials) at times around the window and session edges, plus anonymous / API ro+rw / LDAP password / LDAP+API tokens / client certificate; each token presented at issue, window end -2..+2 s, expiry -1..+1 s, kanidm's default edges and random times; non-trivial = a token with a privilege window accepted on both sides of the window end",
    );
    run.assume("the privilege window bound is what the harness configured on the account's policy group (builtin groups can only shorten it, policy resolution takes the minimum - C35)");
    run.assume("client-certificate identities use kanidm's public test certificate bound to a person (TLS possession proof is outside the IDM layer); OAuth2-trust logins need an upstream provider and are not driven: not covered");
    let seed = args.seed;
    run.parallel(args.workers, |wk, n| {
        let mut acc = Acc::new();
        let rt = kvcore::srv::rt();
        rt.block_on(async {
            let mut rng = Rng::new(kvcore::rng::mix(seed, wk as u64, 33));
            let mut sim = match Sim::new(T0).await {
                Ok(s) => s,
                Err(e) => {
                    acc.inconclusive(&e);
                    return;
                }
            };
            sim.keep_log = false;
            let t = T0.as_secs() + 100;
            let svc = rng.uuid();
            let r = async {
                sim.allow_password_only(secs(t)).await?;
                sim.set_ldap_unix_pw_bind(true, secs(t)).await?;
                sim.create_service_account(&format!("c33svc{wk}"), svc, secs(t)).await
            }
            .await;
            if let Err(e) = r {
                acc.inconclusive(&format!("setup: {e:?}"));
                return;
            }
            // one person owning the (test) client certificate
            let owner = rng.uuid();
            let cci = async {
                sim.create_person(&format!("c33cert{wk}"), owner, false, secs(t + 1)).await?;
                sim.bind_certificate(owner, rng.uuid(), None, secs(t + 2)).await
            }
            .await;
            let cci = match cci {
                Ok(c) => Some(c),
                Err(e) => {
                    acc.inconclusive(&format!("client certificate setup: {e:?}"));
                    None
                }
            };
            let trust = rng.uuid();
            let trust = match sim.create_trust_provider(&format!("c33idp{wk}"), trust, secs(t + 3)).await {
                Ok(()) => Some(trust),
                Err(e) => {
                    acc.inconclusive(&format!("trust provider setup: {e:?}"));
                    None
                }
            };
            let mut world = World { sim, t: t + 10, svc, n: 0, cci, trust };
            let mut i = wk as u64;
            while i < scenarios {
                scenario(&mut world, &mut rng, &mut acc).await;
                acc.count("scenarios");
                i += n as u64;
            }
        });
        acc
    });
    run.extra("scenarios", json!(scenarios));
    for key in [
        "rw_inside_window.login privileged",
        "rw_inside_window.reauth grant",
        "rw_inside_window_last_2s.reauth grant",
        "ro_after_window.reauth grant",
        "ro.login:password.login",
        "ro.login:password+totp.login",
        "ro.login:password.reauth verify",
        "ro.anonymous.login",
        "ro.api-readonly.api token",
        "rw.api-readwrite",
        "ro.ldap-password-bind.ldap bind",
        "ro.ldap-bind-with-readonly-api-token.ldap bind",
        "rw.ldap-bind-with-readwrite-api-token",
        "ro.client-certificate.client certificate",
        "ro.oauth2-trust.login",
        "ro.oauth2-trust.login privileged",
        "reauth.ok.grant",
        "reauth.ok.verify_only",
        "reauth.refused.wrong_credentials",
        "reauth.expiry_compared",
        "tokens.accepted_on_both_sides_of_window_edge",
    ] {
        let seen = run.acc.get(key) > 0;
        run.require(seen, &format!("never observed: {key}"));
    }
    run.finish();
}
