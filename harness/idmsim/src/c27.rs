//! C27 Authentication needs every factor, and denial is final.
//!
//! Workload: ALL protocol step sequences `init, x2 .. xL` (L ≤ 4 quick / ≤ 5 thorough) over the
//! alphabet below, for every account shape × validity window, driven through the real
//! `IdmServerAuthTransaction::auth` with protocol messages. A sequence is replayed from scratch as a
//! new attempt one simulated day later (so the soft lock of C28 never masks the logic); after a
//! step answered Denied / Success only one more step is explored.
//!
//! Oracle (necessary conditions over the per-session step log kept HERE; nothing is read from the
//! server): token issued ⇒ an accepted `begin(mech)` of an offered mechanism precedes it, no earlier
//! step of the session was denied, and the accepted credential steps after it are exactly the
//! mechanism's factors, in order, each with a value the harness knows to be correct at that time
//! (password text; RFC 6238 code of the current or previous step computed independently; a backup
//! code handed out by the credential update session and not yet consumed); password-only is never
//! offered / usable when the primary credential has TOTP or backup codes; accounts outside their
//! validity window never succeed; after Denied or Success every further step on that session id is an
//! error.

use crate::sim::*;
use kanidm_proto::internal::{TotpAlgo, TotpSecret};
use kanidm_proto::v1::{AuthCredential as C, AuthIssueSession, AuthMech, AuthStep as ProtoStep};
use kanidmd_lib::idm::delayed::DelayedAction;
use kanidmd_lib::prelude::*;
use kvcore::{Acc, Args, Rng, Run};
use serde_json::{json, Value as Json};

const MECHS: [AuthMech; 7] = [
    AuthMech::Anonymous,
    AuthMech::Password,
    AuthMech::PasswordTotp,
    AuthMech::PasswordBackupCode,
    AuthMech::PasswordSecurityKey,
    AuthMech::Passkey,
    AuthMech::OAuth2Trust,
];

#[derive(Clone, Copy, PartialEq, Eq, Debug)]
enum St {
    Init,
    Begin(usize),
    PwRight,
    PwWrong,
    TotpRight,
    TotpWrong,
    TotpPrev,
    TotpNext,
    BkRight,
    BkWrong,
    BkReused,
    Anon,
    Passkey,
    /// correct password sent to a session id the server never issued
    Bogus,
}

impl St {
    fn name(&self) -> String {
        match self {
            St::Init => "init".into(),
            St::Begin(i) => format!("begin({})", MECHS[*i].to_value()),
            St::PwRight => "pw-right".into(),
            St::PwWrong => "pw-wrong".into(),
            St::TotpRight => "totp-right".into(),
            St::TotpWrong => "totp-wrong".into(),
            St::TotpPrev => "totp-prev".into(),
            St::TotpNext => "totp-next".into(),
            St::BkRight => "backup-right".into(),
            St::BkWrong => "backup-wrong".into(),
            St::BkReused => "backup-reused".into(),
            St::Anon => "anonymous".into(),
            St::Passkey => "passkey-wrongtype".into(),
            St::Bogus => "pw-right@unknown-session".into(),
        }
    }
    fn is_cred(&self) -> bool {
        !matches!(self, St::Init | St::Begin(_))
    }
}

fn alphabet() -> Vec<St> {
    let mut v = vec![St::Init];
    for i in 0..MECHS.len() {
        v.push(St::Begin(i));
    }
    v.extend([
        St::PwRight,
        St::PwWrong,
        St::TotpRight,
        St::TotpWrong,
        St::TotpPrev,
        St::TotpNext,
        St::BkRight,
        St::BkWrong,
        St::BkReused,
        St::Anon,
        St::Passkey,
        St::Bogus,
    ]);
    v
}

#[derive(Clone, Copy, PartialEq, Eq, Debug)]
enum Shape {
    Pw,
    PwTotp,
    PwTotpBackup,
    GenPw,
    SvcGenPw,
    NoCred,
    Anonymous,
}

impl Shape {
    fn name(&self) -> &'static str {
        match self {
            Shape::Pw => "pw",
            Shape::PwTotp => "pw+totp",
            Shape::PwTotpBackup => "pw+totp+backup",
            Shape::GenPw => "generated-pw",
            Shape::SvcGenPw => "service-generated-pw",
            Shape::NoCred => "none",
            Shape::Anonymous => "anonymous",
        }
    }
    fn has_mfa(&self) -> bool {
        matches!(self, Shape::PwTotp | Shape::PwTotpBackup)
    }
}

#[derive(Clone, Copy, PartialEq, Eq, Debug)]
enum Validity {
    Open,
    Expired,
    NotYet,
}

impl Validity {
    fn name(&self) -> &'static str {
        match self {
            Validity::Open => "open",
            Validity::Expired => "expired",
            Validity::NotYet => "not-yet",
        }
    }
}

struct Acct {
    name: String,
    uuid: Uuid,
    shape: Shape,
    validity: Validity,
    pw: String,
    totp: TotpSecret,
    has_totp: bool,
    unused: Vec<String>,
    consumed: Vec<String>,
}

/// one step as logged by the harness
#[derive(Clone)]
struct Logged {
    st: St,
    t: u64,
    /// for credential steps: does the harness know the presented value to be correct at t
    value_ok: bool,
    kind: &'static str,
    out: StepOut,
}

struct SessLog {
    sid: Option<Uuid>,
    offered: Vec<AuthMech>,
    steps: Vec<Logged>,
    terminal: Option<&'static str>,
    probed_after_terminal: bool,
}

struct World {
    sim: Sim,
    accts: Vec<Acct>,
    t: u64,
    rng: Rng,
    seqs_run: u64,
    passkey_cred: Option<Box<webauthn_rs::prelude::PublicKeyCredential>>,
}

fn dummy_secret() -> TotpSecret {
    TotpSecret {
        accountname: "x".into(),
        issuer: "x".into(),
        secret: vec![7u8; 32],
        algo: TotpAlgo::Sha256,
        step: 30,
        digits: 6,
    }
}

fn dummy_passkey() -> Option<Box<webauthn_rs::prelude::PublicKeyCredential>> {
    let j = json!({
        "id": "AAAAAAAAAAAAAAAAAAAAAA",
        "rawId": "AAAAAAAAAAAAAAAAAAAAAA",
        "response": {
            "authenticatorData": "AAAAAAAAAAAAAAAAAAAAAAAAAAAAAAAAAAAAAAAAAAAAAAAAAAAAAA",
            "clientDataJSON": "e30",
            "signature": "AAAA",
            "userHandle": null
        },
        "extensions": {},
        "type": "public-key"
    });
    serde_json::from_value(j).ok().map(Box::new)
}

impl World {
    async fn new(seed: u64, w: usize) -> Result<World, String> {
        let mut rng = Rng::new(kvcore::rng::mix(seed, w as u64, 27));
        let mut sim = Sim::new(T0).await?;
        sim.keep_log = false;
        let mut t = T0.as_secs() + 100;
        sim.allow_password_only(secs(t))
            .await
            .map_err(|e| format!("relax mfa policy: {e:?}"))?;
        let mut accts = Vec::new();
        let far_past = T0.as_secs() - 10 * 86400;
        let far_future = T0.as_secs() + 3000 * 365 * 86400;
        for shape in [
            Shape::Pw,
            Shape::PwTotp,
            Shape::PwTotpBackup,
            Shape::GenPw,
            Shape::SvcGenPw,
            Shape::NoCred,
        ] {
            for validity in [Validity::Open, Validity::Expired, Validity::NotYet] {
                t += 5;
                let name = format!("u{}{}", accts.len(), rng.below(1000));
                let uuid = rng.uuid();
                let ct = secs(t);
                let mut a = Acct {
                    name: name.clone(),
                    uuid,
                    shape,
                    validity,
                    pw: gen_password(&mut rng),
                    totp: dummy_secret(),
                    has_totp: false,
                    unused: Vec::new(),
                    consumed: Vec::new(),
                };
                if shape == Shape::SvcGenPw {
                    sim.create_service_account(&name, uuid, ct)
                        .await
                        .map_err(|e| format!("create svc: {e:?}"))?;
                } else {
                    sim.create_person(&name, uuid, false, ct)
                        .await
                        .map_err(|e| format!("create: {e:?}"))?;
                }
                match shape {
                    Shape::Pw | Shape::PwTotp | Shape::PwTotpBackup => {
                        let out = sim
                            .set_credentials(
                                uuid,
                                ct,
                                &a.pw,
                                shape.has_mfa(),
                                shape == Shape::PwTotpBackup,
                                false,
                            )
                            .await
                            .map_err(|e| format!("set creds {}: {e:?}", shape.name()))?;
                        if let Some(s) = out.totp {
                            a.totp = s;
                            a.has_totp = true;
                        }
                        a.unused = out.backup_codes;
                    }
                    Shape::GenPw | Shape::SvcGenPw => {
                        // what `kanidmd recover-account` does: a generated password credential
                        let mut wr = sim.idms.proxy_write(ct).await.map_err(|e| format!("{e:?}"))?;
                        a.pw = wr
                            .recover_account(&name, None)
                            .map_err(|e| format!("recover_account: {e:?}"))?;
                        wr.commit().map_err(|e| format!("{e:?}"))?;
                    }
                    Shape::NoCred | Shape::Anonymous => {}
                }
                let (vf, ex) = match validity {
                    Validity::Open => (None, None),
                    Validity::Expired => (None, Some(far_past)),
                    Validity::NotYet => (Some(far_future), None),
                };
                // always rewrite: recover_account sets valid_from = now
                sim.set_validity(uuid, vf, ex, ct)
                    .await
                    .map_err(|e| format!("set validity: {e:?}"))?;
                accts.push(a);
            }
        }
        // the builtin anonymous account, open only
        accts.push(Acct {
            name: "anonymous".into(),
            uuid: UUID_ANONYMOUS,
            shape: Shape::Anonymous,
            validity: Validity::Open,
            pw: gen_password(&mut rng),
            totp: dummy_secret(),
            has_totp: false,
            unused: Vec::new(),
            consumed: Vec::new(),
        });
        let mut w = World {
            sim,
            accts,
            t: t + 86400,
            rng,
            seqs_run: 0,
            passkey_cred: dummy_passkey(),
        };
        // bootstrap: consume one backup code per backup account so that "reused" has a real value
        for i in 0..w.accts.len() {
            if w.accts[i].shape == Shape::PwTotpBackup && w.accts[i].validity == Validity::Open {
                let mut scratch = Acc::new();
                w.run_seq(
                    i,
                    &[St::Init, St::Begin(3), St::BkRight, St::PwRight],
                    &mut scratch,
                    false,
                )
                .await;
                if w.accts[i].consumed.is_empty() {
                    return Err("bootstrap: canonical backup-code login did not consume a code".into());
                }
                if !scratch.violations.is_empty() {
                    return Err(format!(
                        "bootstrap login judged a violation: {}",
                        scratch.violations[0].signature
                    ));
                }
            }
        }
        Ok(w)
    }

    async fn regen_backup(&mut self, ai: usize) -> Result<(), String> {
        let ct = secs(self.t);
        let uuid = self.accts[ai].uuid;
        let out = self
            .sim
            .cred_update(uuid, ct, "regenerate backup codes", move |cu, cust, out| {
                use kanidmd_lib::idm::credupdatesession::MfaRegStateStatus;
                let st = cu.credential_primary_init_backup_codes(cust, ct)?;
                match st.mfaregstate() {
                    MfaRegStateStatus::BackupCodes(c) => {
                        out.backup_codes = c.iter().cloned().collect();
                        out.backup_codes.sort();
                        Ok(())
                    }
                    _ => Err(OperationError::InvalidState),
                }
            })
            .await
            .map_err(|e| format!("regen backup codes: {e:?}"))?;
        self.accts[ai].unused = out.backup_codes;
        Ok(())
    }

    /// Execute one sequence as a fresh attempt; judge it; returns whether the current session is
    /// still open (not terminal) afterwards.
    async fn run_seq(&mut self, ai: usize, seq: &[St], acc: &mut Acc, count: bool) -> bool {
        // a new attempt: the next simulated day (password soft lock resets at the end of the UTC day)
        self.t += 86400 + 13;
        self.seqs_run += 1;
        if self.accts[ai].shape == Shape::PwTotpBackup
            && self.accts[ai].validity == Validity::Open
            && self.accts[ai].unused.len() < 3
        {
            if let Err(e) = self.regen_backup(ai).await {
                acc.inconclusive(&e);
            }
            self.t += 5;
        }
        let mut sessions: Vec<SessLog> = Vec::new();
        let mut cur: Option<usize> = None;
        let mut pending_codes: Vec<String> = Vec::new();
        let mut inprogress_cred = false;

        for st in seq {
            self.t += 2;
            let t = self.t;
            let ct = secs(t);
            let a = &self.accts[ai];
            // build the protocol step
            let mut value_ok = false;
            let mut kind: &'static str = "";
            let mut bk_presented: Option<String> = None;
            let proto = match st {
                St::Init => ProtoStep::Init2 {
                    username: a.name.clone(),
                    issue: AuthIssueSession::Token,
                    privileged: false,
                },
                St::Begin(i) => ProtoStep::Begin(MECHS[*i].clone()),
                St::PwRight | St::Bogus => {
                    kind = "password";
                    value_ok = true;
                    ProtoStep::Cred(C::Password(a.pw.clone()))
                }
                St::PwWrong => {
                    kind = "password";
                    ProtoStep::Cred(C::Password(format!("{}x", a.pw)))
                }
                St::TotpRight | St::TotpPrev | St::TotpNext | St::TotpWrong => {
                    kind = "totp";
                    let off = match st {
                        St::TotpRight => 0,
                        St::TotpPrev => -1,
                        St::TotpNext => 1,
                        _ => 0,
                    };
                    let mut code = totp_at(&a.totp, t, off).unwrap_or(0);
                    if *st == St::TotpWrong {
                        let near: Vec<u32> = (-2..=2).filter_map(|o| totp_at(&a.totp, t, o)).collect();
                        code = (code + 1) % 1_000_000;
                        while near.contains(&code) {
                            code = (code + 1) % 1_000_000;
                        }
                    }
                    value_ok = a.has_totp && totp_acceptable(&a.totp, t, code);
                    ProtoStep::Cred(C::Totp(code))
                }
                St::BkRight => {
                    kind = "backup";
                    let code = match a.unused.iter().find(|c| !pending_codes.contains(c)) {
                        Some(c) => {
                            value_ok = true;
                            c.clone()
                        }
                        None => "aaaaa-bbbbb-ccccc-ddddd".to_string(),
                    };
                    bk_presented = Some(code.clone());
                    ProtoStep::Cred(C::BackupCode(code))
                }
                St::BkWrong => {
                    kind = "backup";
                    ProtoStep::Cred(C::BackupCode("zzzzz-zzzzz-zzzzz-zzzzz".to_string()))
                }
                St::BkReused => {
                    kind = "backup";
                    let code = a
                        .consumed
                        .last()
                        .cloned()
                        .unwrap_or_else(|| "yyyyy-yyyyy-yyyyy-yyyyy".to_string());
                    ProtoStep::Cred(C::BackupCode(code))
                }
                St::Anon => {
                    kind = "anonymous";
                    value_ok = a.shape == Shape::Anonymous;
                    ProtoStep::Cred(C::Anonymous)
                }
                St::Passkey => {
                    kind = "passkey";
                    match &self.passkey_cred {
                        Some(p) => ProtoStep::Cred(C::Passkey(p.clone())),
                        None => {
                            acc.count("skipped.passkey_wrongtype_unbuildable");
                            continue;
                        }
                    }
                }
            };
            let sid = match st {
                St::Init => None,
                St::Bogus => Some(self.rng.uuid()),
                _ => cur.and_then(|c| sessions[c].sid),
            };
            if st.is_cred() && *st != St::Bogus {
                if let Some(c) = cur {
                    let s = &sessions[c];
                    if s.terminal.is_none()
                        && s.steps.iter().any(|l| matches!(l.st, St::Begin(_)) && matches!(l.out, StepOut::Continue(_)))
                    {
                        inprogress_cred = true;
                    }
                }
            }
            let (rsid, out) = self.sim.auth_step(sid, proto, ct, "").await;
            if count {
                acc.count(&format!("out.{}.{}", st_class(st), out.class()));
            }
            let logged = Logged {
                st: *st,
                t,
                value_ok,
                kind,
                out: out.clone(),
            };
            match st {
                St::Init => {
                    let offered = match &out {
                        StepOut::Choose(m) => m.clone(),
                        _ => Vec::new(),
                    };
                    sessions.push(SessLog {
                        sid: rsid,
                        offered,
                        steps: vec![logged],
                        terminal: None,
                        probed_after_terminal: false,
                    });
                    cur = Some(sessions.len() - 1);
                    let c = sessions.len() - 1;
                    self.judge_step(ai, &mut sessions[c], seq, acc, count);
                }
                St::Bogus => {
                    // a session the server never issued: any non-error answer is a defect
                    if !matches!(out, StepOut::Err(_)) {
                        acc.violation(
                            &format!("c27/unknown-session-id-answered/{}", out.class()),
                            json!({"account_shape": a.shape.name(), "sequence": seq_names(seq), "answer": out.brief()}),
                        );
                    }
                }
                _ => match cur {
                    Some(c) => {
                        if let (Some(code), StepOut::Continue(_)) = (&bk_presented, &out) {
                            pending_codes.push(code.clone());
                        }
                        sessions[c].steps.push(logged);
                        self.judge_step(ai, &mut sessions[c], seq, acc, count);
                    }
                    None => {
                        // no session at all: the message cannot even be built / must be an error
                        if !matches!(out, StepOut::Err(_)) {
                            acc.violation(
                                &format!("c27/step-without-session-answered/{}", out.class()),
                                json!({"sequence": seq_names(seq), "answer": out.brief()}),
                            );
                        }
                    }
                },
            }
        }
        // finality probes for every session that ended and was not probed since
        for c in 0..sessions.len() {
            if sessions[c].terminal.is_some() && !sessions[c].probed_after_terminal {
                self.t += 2;
                let ct = secs(self.t);
                let pw = self.accts[ai].pw.clone();
                let (_, out) = self
                    .sim
                    .auth_step(sessions[c].sid, ProtoStep::Cred(C::Password(pw)), ct, "")
                    .await;
                if count {
                    acc.count(&format!("probe_after_{}.{}", sessions[c].terminal.unwrap_or("?"), out.class()));
                }
                sessions[c].steps.push(Logged {
                    st: St::PwRight,
                    t: self.t,
                    value_ok: true,
                    kind: "password",
                    out,
                });
                self.judge_step(ai, &mut sessions[c], seq, acc, count);
            }
        }
        // delayed actions: apply backup code removals (so a used code really is used), drop the rest
        let das = self.sim.take_delayed();
        let mut keep = Vec::new();
        let mut removed_codes: Vec<String> = Vec::new();
        for da in das {
            match da {
                DelayedAction::BackupCodeRemoval(b) => {
                    removed_codes.push(b.code_to_remove.clone());
                    keep.push(DelayedAction::BackupCodeRemoval(b));
                }
                DelayedAction::PwUpgrade(_) => keep.push(da),
                _ => {}
            }
        }
        let mut removal_failed = false;
        if !keep.is_empty() {
            self.t += 1;
            let d = self.sim.apply_delayed(keep, secs(self.t)).await;
            for e in d.errors {
                removal_failed = true;
                acc.inconclusive(&format!("delayed action failed: {e}"));
            }
        }
        for c in pending_codes {
            if removed_codes.contains(&c) && !removal_failed {
                // verified by the server and its removal is now stored: the code is used up
                self.accts[ai].unused.retain(|x| *x != c);
                self.accts[ai].consumed.push(c);
            } else {
                // the server accepted the code but queued no removal for it: it stays usable on the
                // server, so the harness keeps treating it as unused (counted, not judged here)
                acc.count("unjudged.backup_code_accepted_without_removal_action");
            }
        }
        while self.sim.audit.audit_rx().try_recv().is_ok() {}
        if self.seqs_run % 512 == 0 {
            if let Ok(mut a) = self.sim.idms.auth().await {
                a.expire_auth_sessions(secs(self.t)).await;
            }
        }
        if count {
            acc.eval();
            if inprogress_cred {
                acc.nontrivial_distinct();
            }
            if acc.samples.len() < 5 && self.seqs_run % 1777 == 3 {
                let s = sessions
                    .iter()
                    .map(|s| s.steps.iter().map(|l| format!("{}→{}", l.st.name(), l.out.brief())).collect::<Vec<_>>())
                    .collect::<Vec<_>>();
                acc.sample(json!({"shape": self.accts[ai].shape.name(), "validity": self.accts[ai].validity.name(), "sessions": s}));
            }
        }
        match cur {
            Some(c) => sessions[c].terminal.is_none() && sessions[c].sid.is_some() && !sessions[c].offered.is_empty(),
            None => false,
        }
    }

    /// Judge the LAST logged step of a session.
    fn judge_step(&self, ai: usize, s: &mut SessLog, seq: &[St], acc: &mut Acc, count: bool) {
        let a = &self.accts[ai];
        let k = s.steps.len() - 1;
        let last = s.steps[k].clone();
        let witness = |why: &str, s: &SessLog| -> Json {
            json!({
                "why": why,
                "account": {"shape": a.shape.name(), "validity": a.validity.name()},
                "sequence": seq_names(seq),
                "session_log": s.steps.iter().map(|l| json!({
                    "t": l.t, "step": l.st.name(), "value_known_correct": l.value_ok, "answer": l.out.brief()
                })).collect::<Vec<_>>(),
                "offered": s.offered.iter().map(|m| m.to_value()).collect::<Vec<_>>(),
            })
        };
        // finality
        if let Some(term) = s.terminal {
            s.probed_after_terminal = true;
            if !matches!(last.out, StepOut::Err(_)) {
                acc.violation(
                    &format!("c27/step-accepted-after-{}/{}", term, last.out.class()),
                    witness("a step on a finished session id was answered instead of refused", s),
                );
            } else if count {
                acc.count("finality.step_after_terminal_refused");
            }
            // a success after a terminal state is also judged below
        }
        match &last.out {
            StepOut::Choose(m) if last.st == St::Init => {
                if a.shape.has_mfa() && m.contains(&AuthMech::Password) {
                    acc.violation(
                        "c27/password-only-offered-with-second-factor-configured",
                        witness("init offered password-only although the primary credential has TOTP/backup codes", s),
                    );
                }
                if count {
                    acc.observe(
                        "offered",
                        &format!(
                            "{}:{}",
                            a.shape.name(),
                            m.iter().map(|x| x.to_value()).collect::<Vec<_>>().join("+")
                        ),
                    );
                }
            }
            StepOut::Success(_) => {
                let mut bad: Vec<(String, String)> = Vec::new();
                if a.validity != Validity::Open {
                    bad.push((
                        format!("c27/success-outside-validity/{}", a.validity.name()),
                        "token issued for an account outside its validity window".into(),
                    ));
                }
                if let Some(term) = s.steps[..k].iter().find_map(|l| match l.out {
                    StepOut::Denied(_) => Some("denied"),
                    StepOut::Success(_) => Some("success"),
                    _ => None,
                }) {
                    bad.push((
                        format!("c27/success-after-{term}"),
                        "token issued on a session that had already ended".into(),
                    ));
                }
                let begin = s.steps[..k]
                    .iter()
                    .enumerate()
                    .filter(|(_, l)| matches!(l.st, St::Begin(_)) && matches!(l.out, StepOut::Continue(_)))
                    .map(|(i, l)| (i, l.st))
                    .next_back();
                match begin {
                    None => bad.push((
                        "c27/success-without-accepted-begin".into(),
                        "token issued although no mechanism was ever accepted on this session".into(),
                    )),
                    Some((bi, St::Begin(mi))) => {
                        let mech = &MECHS[mi];
                        if !s.offered.contains(mech) {
                            bad.push((
                                format!("c27/success-with-mechanism-not-offered/{}", mech.to_value()),
                                "mechanism was not in the list offered at init".into(),
                            ));
                        }
                        let factors: Option<Vec<&str>> = match mech {
                            AuthMech::Password => Some(vec!["password"]),
                            AuthMech::PasswordTotp => Some(vec!["totp", "password"]),
                            AuthMech::PasswordBackupCode => Some(vec!["backup", "password"]),
                            AuthMech::Anonymous => Some(vec!["anonymous"]),
                            _ => None,
                        };
                        if *mech == AuthMech::Password && a.shape.has_mfa() {
                            bad.push((
                                "c27/password-only-login-with-second-factor-configured".into(),
                                "password-only mechanism succeeded although the credential has a second factor".into(),
                            ));
                        }
                        match factors {
                            None => bad.push((
                                format!("c27/success-with-unconfigured-mechanism/{}", mech.to_value()),
                                "no such credential exists on any test account".into(),
                            )),
                            Some(fs) => {
                                let accepted: Vec<&Logged> = s.steps[bi + 1..=k]
                                    .iter()
                                    .filter(|l| {
                                        l.st.is_cred()
                                            && matches!(l.out, StepOut::Continue(_) | StepOut::Success(_))
                                    })
                                    .collect();
                                let kinds: Vec<&str> = accepted.iter().map(|l| l.kind).collect();
                                if kinds != fs {
                                    bad.push((
                                        format!("c27/success-factors-missing-or-out-of-order/{}", mech.to_value()),
                                        format!("accepted credential steps {kinds:?}, mechanism needs {fs:?}"),
                                    ));
                                }
                                for l in accepted {
                                    if !l.value_ok {
                                        bad.push((
                                            format!("c27/success-with-incorrect-factor/{}/{}", mech.to_value(), l.st.name()),
                                            format!("step {} carried a value the harness knows to be wrong at t={}", l.st.name(), l.t),
                                        ));
                                    }
                                }
                            }
                        }
                        if count && bad.is_empty() {
                            acc.count(&format!("success.{}.{}", a.shape.name(), mech.to_value()));
                            for l in &s.steps[bi + 1..=k] {
                                if matches!(l.st, St::TotpPrev | St::TotpRight | St::BkRight)
                                    && matches!(l.out, StepOut::Continue(_))
                                {
                                    acc.count(&format!("success_with.{}", l.st.name()));
                                }
                            }
                        }
                    }
                    Some(_) => {}
                }
                for (sig, why) in bad {
                    acc.violation(&sig, witness(&why, s));
                }
                s.terminal = Some("success");
                s.probed_after_terminal = false;
            }
            StepOut::Denied(_) => {
                if count {
                    if a.validity != Validity::Open && last.st == St::Init {
                        acc.count(&format!("denied_at_init.{}", a.validity.name()));
                    }
                    if matches!(last.st, St::TotpNext | St::TotpWrong | St::BkReused | St::BkWrong | St::PwWrong) {
                        acc.count(&format!("denied.{}", last.st.name()));
                    }
                }
                if s.terminal.is_none() {
                    s.terminal = Some("denied");
                    s.probed_after_terminal = false;
                }
            }
            StepOut::Err(_) => {
                // choosing a mechanism the session did not offer is a denied step (the session
                // selects no credential handler and ends); the client sees it as an error answer
                if let St::Begin(mi) = last.st {
                    let accepted_before = s.steps[..k].iter().any(|l| matches!(l.st, St::Begin(_)) && matches!(l.out, StepOut::Continue(_)));
                    if s.terminal.is_none() && s.sid.is_some() && !s.offered.is_empty() && !accepted_before && !s.offered.contains(&MECHS[mi]) {
                        s.terminal = Some("refused-mechanism-choice");
                        s.probed_after_terminal = false;
                        if count {
                            acc.count("refused_mechanism_choice");
                        }
                    }
                }
            }
            _ => {}
        }
    }
}

fn st_class(st: &St) -> String {
    match st {
        St::Begin(_) => "begin".into(),
        o => o.name(),
    }
}

fn seq_names(seq: &[St]) -> Vec<String> {
    seq.iter().map(|s| s.name()).collect()
}

pub fn run(args: Args) {
    let maxlen: usize = args.tier.pick(4, 5);
    let mut run = Run::new(
        args.clone(),
        "exploration",
        "every protocol step sequence init,x2..xL (L<=4 quick, <=5 thorough) over {init, begin(7 mechanisms), password right/wrong, totp current/previous/next-window/wrong, backup right/wrong/reused, anonymous, wrong-type passkey, right password to an unknown session id} x 6 credential shapes x 3 validity windows + the anonymous account; only one further step after Denied/Success; non-trivial = a credential was presented to a session whose mechanism had been accepted; distinct by enumeration",
    );
    run.assume("the harness's own record of each account's password, TOTP secret (as shown by the credential update session) and backup codes is the ground truth for 'correct value'; RFC 6238 codes are computed by an HMAC written in the harness over the sha2 crate");
    run.assume("a backup code counts as used once the BackupCodeRemoval delayed action it caused has been applied (done after every attempt)");
    let alpha = alphabet();
    let na = alpha.len();
    let seed = args.seed;
    let alpha_ref = &alpha;
    run.parallel(args.workers, |w, n| {
        let mut acc = Acc::new();
        let rt = kvcore::srv::rt();
        rt.block_on(async {
            let mut world = match World::new(seed, w).await {
                Ok(x) => x,
                Err(e) => {
                    acc.inconclusive(&format!("setup failed: {e}"));
                    return;
                }
            };
            let naccts = world.accts.len();
            for ai in 0..naccts {
                let item = |x2: usize, x3: usize| (ai * na * na + x2 * na + x3) % n == w;
                let own1 = item(0, 0);
                let live1 = world.run_seq(ai, &[St::Init], &mut acc, own1).await;
                if maxlen < 2 {
                    continue;
                }
                for x2 in 0..na {
                    let own2 = item(x2, 0);
                    let any3 = maxlen >= 3 && (0..na).any(|x3| item(x2, x3));
                    if !own2 && !any3 {
                        continue;
                    }
                    let s2 = [St::Init, alpha_ref[x2]];
                    let live2 = world.run_seq(ai, &s2, &mut acc, own2).await;
                    if maxlen < 3 || !live1 {
                        // [init] ended the session: x2 was the single extra step
                        continue;
                    }
                    for x3 in 0..na {
                        if !item(x2, x3) {
                            continue;
                        }
                        let mut seq = vec![St::Init, alpha_ref[x2], alpha_ref[x3]];
                        explore(&mut world, ai, &mut seq, live2, maxlen, alpha_ref, &mut acc).await;
                    }
                }
            }
        });
        acc
    });
    run.extra("max_sequence_length", json!(maxlen));
    run.extra("alphabet", json!(alpha.iter().map(|s| s.name()).collect::<Vec<_>>()));
    run.exhaustive = Some(true);
    // positive controls: the canonical sequence succeeds for every credential shape
    for key in [
        "success.pw.password",
        "success.pw+totp.passwordmfa",
        "success.pw+totp+backup.passwordmfa",
        "success.pw+totp+backup.passwordbackupcode",
        "success.generated-pw.password",
        "success.service-generated-pw.password",
        "success.anonymous.anonymous",
        "success_with.totp-prev",
        "success_with.totp-right",
        "success_with.backup-right",
        "denied.totp-next",
        "denied.totp-wrong",
        "denied.backup-reused",
        "denied.backup-wrong",
        "denied.pw-wrong",
        "denied_at_init.expired",
        "denied_at_init.not-yet",
        "finality.step_after_terminal_refused",
        "probe_after_success.err",
        "probe_after_denied.err",
    ] {
        let seen = run.acc.get(key) > 0;
        run.require(seen, &format!("control never observed: {key}"));
    }
    run.finish();
}

/// Run `seq` (owned by this worker); if its parent was still open and it is shorter than the bound,
/// extend it: fully when the session is still open, by exactly one step when it just ended.
fn explore<'a>(
    world: &'a mut World,
    ai: usize,
    seq: &'a mut Vec<St>,
    parent_live: bool,
    maxlen: usize,
    alpha: &'a [St],
    acc: &'a mut Acc,
) -> std::pin::Pin<Box<dyn std::future::Future<Output = ()> + 'a>> {
    Box::pin(async move {
        let live = world.run_seq(ai, seq, acc, true).await;
        if !parent_live || seq.len() >= maxlen {
            return;
        }
        for x in alpha {
            seq.push(*x);
            explore(world, ai, seq, live, maxlen, alpha, acc).await;
            seq.pop();
        }
    })
}
