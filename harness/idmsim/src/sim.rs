//! Shared identity-engine simulator: one real `IdmServer` on a private in-memory `QueryServer`,
//! simulated clock, accounts created through the directory API, credentials set through REAL
//! credential-update sessions, logins through `IdmServerAuthTransaction::auth` with protocol
//! messages, controlled draining of `IdmServerDelayed`, and an event log with simulated timestamps.
//!
//! Everything the monitors judge is recomputed from what THIS file observed at the API boundary
//! (results of calls, tokens handed back, directory dumps) - never from IDM-internal state.

#![allow(dead_code)]

use base64::Engine;
use compact_jwt::traits::JwsVerifiable;
use compact_jwt::JwsCompact;
use futures::FutureExt;
use kanidm_proto::internal::{TotpAlgo, TotpSecret, UserAuthToken};
use kanidm_proto::v1::{
    AuthAllowed, AuthCredential as ProtoCred, AuthIssueSession, AuthMech, AuthStep as ProtoStep,
};
use kanidmd_lib::entry::{Entry, EntryInit, EntryNew};
use kanidmd_lib::idm::authentication::{AuthCredential as InternalCred, AuthExternal, AuthState};
use kanidmd_lib::idm::event::{AuthEventStep, AuthEventStepCred};
use kanidmd_lib::idm::credupdatesession::{
    CredentialUpdateSessionToken, InitCredentialUpdateEvent, MfaRegStateStatus,
};
use kanidmd_lib::idm::delayed::DelayedAction;
use kanidmd_lib::idm::event::AuthEvent;
use kanidmd_lib::idm::server::{IdmServerCredUpdateTransaction, IdmServerTransaction};
use kanidmd_lib::prelude::*;
use serde_json::{json, Value as Json};
use sha2::{Digest, Sha256, Sha512};
use std::sync::Arc;

pub use kvcore::srv::T0;

/// The public, self-signed development certificate kanidm's own tests use ("NOT FOR PRODUCTION").
/// Client-certificate identities are looked up by the SHA-256 of the certificate's public key, the
/// TLS layer (not modelled here) is what proves possession.
pub const TEST_CLIENT_CERT_PEM: &str = r#"-----BEGIN CERTIFICATE-----
MIICeDCCAh6gAwIBAgIBAjAKBggqhkjOPQQDAjCBhDELMAkGA1UEBhMCQVUxDDAK
BgNVBAgMA1FMRDEPMA0GA1UECgwGS2FuaWRtMRwwGgYDVQQDDBNLYW5pZG0gR2Vu
ZXJhdGVkIENBMTgwNgYDVQQLDC9EZXZlbG9wbWVudCBhbmQgRXZhbHVhdGlvbiAt
IE5PVCBGT1IgUFJPRFVDVElPTjAeFw0yNTA3MjkwMzMxMDNaFw0yNTA4MDMwMzMx
MDNaMHoxCzAJBgNVBAYTAkFVMQwwCgYDVQQIDANRTEQxDzANBgNVBAoMBkthbmlk
bTESMBAGA1UEAwwJbG9jYWxob3N0MTgwNgYDVQQLDC9EZXZlbG9wbWVudCBhbmQg
RXZhbHVhdGlvbiAtIE5PVCBGT1IgUFJPRFVDVElPTjBZMBMGByqGSM49AgEGCCqG
SM49AwEHA0IABPFkpVzFH+feItm9JFFm/noge+BlZLpdGWOuSUvfoivAzCgPr7Kr
nGd8kUzIyJermePzu2SVQLaEt/7GY8Ha+2ujgYkwgYYwCQYDVR0TBAIwADAOBgNV
HQ8BAf8EBAMCBaAwEwYDVR0lBAwwCgYIKwYBBQUHAwEwHQYDVR0OBBYEFOjucEtX
mj/wQ7npVaMOyDtLU6dUMB8GA1UdIwQYMBaAFNo5o+5ea0sNMlW/75VgGJCv2AcJ
MBQGA1UdEQQNMAuCCWxvY2FsaG9zdDAKBggqhkjOPQQDAgNIADBFAiEA1TACf4eS
g07LRiKhlMgA+6xxztxiZCuV6LakRp7FZdECIFp0rFSiFJdkLEO9IyqYc+zPW770
ta41VMU3u9UQfHxF
-----END CERTIFICATE-----
"#;

pub fn secs(s: u64) -> Duration {
    Duration::from_secs(s)
}

pub fn odt(s: u64) -> time::OffsetDateTime {
    time::OffsetDateTime::UNIX_EPOCH + Duration::from_secs(s)
}

// ---------------------------------------------------------------------------------------------
// Independent RFC 4226 / 6238 (HMAC written here over the sha2 compression functions only).

fn hmac<D: Digest>(block: usize, key: &[u8], msg: &[u8]) -> Vec<u8> {
    let mut k = if key.len() > block {
        D::digest(key).to_vec()
    } else {
        key.to_vec()
    };
    k.resize(block, 0);
    let ipad: Vec<u8> = k.iter().map(|b| b ^ 0x36).collect();
    let opad: Vec<u8> = k.iter().map(|b| b ^ 0x5c).collect();
    let mut h = D::new();
    h.update(&ipad);
    h.update(msg);
    let inner = h.finalize();
    let mut h = D::new();
    h.update(&opad);
    h.update(inner);
    h.finalize().to_vec()
}

/// HOTP value for a counter; `None` for algorithms the harness does not implement independently.
pub fn hotp(secret: &TotpSecret, counter: u64) -> Option<u32> {
    let msg = counter.to_be_bytes();
    let mac = match secret.algo {
        TotpAlgo::Sha256 => hmac::<Sha256>(64, &secret.secret, &msg),
        TotpAlgo::Sha512 => hmac::<Sha512>(128, &secret.secret, &msg),
        TotpAlgo::Sha1 => return None,
    };
    let off = (mac[mac.len() - 1] & 0x0f) as usize;
    let bin = ((mac[off] as u32 & 0x7f) << 24)
        | ((mac[off + 1] as u32) << 16)
        | ((mac[off + 2] as u32) << 8)
        | (mac[off + 3] as u32);
    let modulo = 10u32.pow(secret.digits as u32);
    Some(bin % modulo)
}

/// TOTP code of the time step `offset` steps away from the one containing `t` (seconds).
pub fn totp_at(secret: &TotpSecret, t: u64, offset: i64) -> Option<u32> {
    let c = (t / secret.step) as i64 + offset;
    if c < 0 {
        return None;
    }
    hotp(secret, c as u64)
}

/// Is `code` one that RFC 6238 + kanidm's documented "current or previous step" rule accepts at t?
pub fn totp_acceptable(secret: &TotpSecret, t: u64, code: u32) -> bool {
    totp_at(secret, t, 0) == Some(code) || totp_at(secret, t, -1) == Some(code)
}

// ---------------------------------------------------------------------------------------------
// Token inspection (the artefact itself, not server state).

pub fn jws_payload(tok: &JwsCompact) -> Option<Vec<u8>> {
    let s = tok.to_string();
    let mut it = s.split('.');
    let _h = it.next()?;
    let p = it.next()?;
    base64::engine::general_purpose::URL_SAFE_NO_PAD.decode(p).ok()
}

pub fn parse_uat(tok: &JwsCompact) -> Option<UserAuthToken> {
    serde_json::from_slice(&jws_payload(tok)?).ok()
}

pub fn parse_apit(tok: &JwsCompact) -> Option<kanidm_proto::internal::ApiToken> {
    serde_json::from_slice(&jws_payload(tok)?).ok()
}

pub fn kid_of(tok: &JwsCompact) -> String {
    tok.kid().map(|s| s.to_string()).unwrap_or_default()
}

pub fn odt_secs(o: &time::OffsetDateTime) -> i64 {
    o.unix_timestamp()
}

// ---------------------------------------------------------------------------------------------

#[derive(Clone, Debug)]
pub struct Ev {
    pub t: u64,
    pub actor: String,
    pub call: String,
    pub args: Json,
    pub result: String,
}

impl Ev {
    pub fn json(&self) -> Json {
        json!({"t": self.t, "actor": self.actor, "call": self.call, "args": self.args, "result": self.result})
    }
}

/// What one protocol step returned, reduced to what a client can see.
#[derive(Clone, Debug)]
pub enum StepOut {
    Choose(Vec<AuthMech>),
    Continue(Vec<String>),
    External,
    Denied(String),
    Success(Box<JwsCompact>),
    Err(String),
}

impl StepOut {
    pub fn class(&self) -> &'static str {
        match self {
            StepOut::Choose(_) => "choose",
            StepOut::Continue(_) => "continue",
            StepOut::External => "external",
            StepOut::Denied(_) => "denied",
            StepOut::Success(_) => "success",
            StepOut::Err(_) => "err",
        }
    }
    pub fn brief(&self) -> String {
        match self {
            StepOut::Choose(m) => format!(
                "choose[{}]",
                m.iter().map(|x| x.to_value()).collect::<Vec<_>>().join(",")
            ),
            StepOut::Continue(a) => format!("continue[{}]", a.join(",")),
            StepOut::External => "external".into(),
            StepOut::Denied(r) => format!("denied({r})"),
            StepOut::Success(_) => "success".into(),
            StepOut::Err(e) => format!("err({e})"),
        }
    }
}

fn allowed_name(a: &AuthAllowed) -> String {
    match a {
        AuthAllowed::Anonymous => "anonymous",
        AuthAllowed::BackupCode => "backupcode",
        AuthAllowed::Password => "password",
        AuthAllowed::Totp => "totp",
        AuthAllowed::SecurityKey(_) => "securitykey",
        AuthAllowed::Passkey(_) => "passkey",
    }
    .to_string()
}

/// Credentials configured through a credential update session, as the *client* saw them.
#[derive(Clone, Debug, Default)]
pub struct CredOutcome {
    pub totp: Option<TotpSecret>,
    pub backup_codes: Vec<String>,
}

pub struct Sim {
    pub qs: QueryServer,
    pub idms: IdmServer,
    pub delayed: IdmServerDelayed,
    pub audit: IdmServerAudit,
    pub log: Vec<Ev>,
    pub keep_log: bool,
    /// the webauthn challenge of the most recent Continue[passkey] answer
    pub last_passkey_chal: Option<webauthn_rs::prelude::RequestChallengeResponse>,
    /// `state` parameter of the most recent OAuth2 authorisation request the server asked for
    pub last_oauth2_state: Option<String>,
    /// which external request the most recent External answer asked the front end to make
    pub last_external: &'static str,
}

#[derive(Default, Clone, Debug)]
pub struct Drained {
    pub session_records: usize,
    pub backup_removals: usize,
    pub pw_upgrades: usize,
    pub other: usize,
    pub errors: Vec<String>,
    pub skipped: usize,
}

impl Sim {
    pub async fn new(ct: Duration) -> Result<Sim, String> {
        let qs = kvcore::srv::mk_server_at(None, 1, Some(2048), ct, DOMAIN_TGT_LEVEL)
            .await
            .map_err(|e| format!("server init: {e:?}"))?;
        let origin = Url::parse("https://idm.example.com").map_err(|e| e.to_string())?;
        let (idms, delayed, audit) = IdmServer::new(qs.clone(), &origin, true, ct)
            .await
            .map_err(|e| format!("idm init: {e:?}"))?;
        Ok(Sim {
            qs,
            idms,
            delayed,
            audit,
            log: Vec::new(),
            keep_log: true,
            last_passkey_chal: None,
            last_oauth2_state: None,
            last_external: "",
        })
    }

    pub fn ev(&mut self, t: Duration, actor: &str, call: &str, args: Json, result: String) {
        if self.keep_log {
            self.log.push(Ev {
                t: t.as_secs(),
                actor: actor.to_string(),
                call: call.to_string(),
                args,
                result,
            });
        }
    }

    pub fn log_tail(&self, n: usize) -> Vec<Json> {
        let s = self.log.len().saturating_sub(n);
        self.log[s..].iter().map(|e| e.json()).collect()
    }

    // -------------------------------------------------------------------- directory helpers

    pub async fn create_person(
        &mut self,
        name: &str,
        uuid: Uuid,
        posix: bool,
        ct: Duration,
    ) -> Result<(), OperationError> {
        let mut e: Entry<EntryInit, EntryNew> = entry_init!(
            (Attribute::Class, EntryClass::Object.to_value()),
            (Attribute::Class, EntryClass::Account.to_value()),
            (Attribute::Class, EntryClass::Person.to_value()),
            (Attribute::Name, Value::new_iname(name)),
            (Attribute::Uuid, Value::Uuid(uuid)),
            (Attribute::Description, Value::new_utf8s(name)),
            (Attribute::DisplayName, Value::new_utf8s(name))
        );
        if posix {
            e.add_ava(Attribute::Class, EntryClass::PosixAccount.to_value());
        }
        let mut w = self.idms.proxy_write(ct).await?;
        w.qs_write.internal_create(vec![e])?;
        let r = w.commit();
        self.ev(ct, "harness", "create_person", json!({"name": name, "posix": posix}), format!("{r:?}"));
        r
    }

    pub async fn create_service_account(
        &mut self,
        name: &str,
        uuid: Uuid,
        ct: Duration,
    ) -> Result<(), OperationError> {
        let e: Entry<EntryInit, EntryNew> = entry_init!(
            (Attribute::Class, EntryClass::Object.to_value()),
            (Attribute::Class, EntryClass::Account.to_value()),
            (Attribute::Class, EntryClass::ServiceAccount.to_value()),
            // managed by idm_admins: idm_admin may then issue / destroy its API tokens
            (Attribute::EntryManagedBy, Value::Refer(UUID_IDM_ADMINS)),
            (Attribute::Name, Value::new_iname(name)),
            (Attribute::Uuid, Value::Uuid(uuid)),
            (Attribute::Description, Value::new_utf8s(name)),
            (Attribute::DisplayName, Value::new_utf8s(name))
        );
        let mut w = self.idms.proxy_write(ct).await?;
        w.qs_write.internal_create(vec![e])?;
        let r = w.commit();
        self.ev(ct, "harness", "create_service_account", json!({"name": name}), format!("{r:?}"));
        r
    }

    /// The default policy of idm_all_persons demands MFA; deployments that allow password-only
    /// logins remove it (the same modification kanidm's own credential update tests apply).
    pub async fn allow_password_only(&mut self, ct: Duration) -> Result<(), OperationError> {
        let mut w = self.idms.proxy_write(ct).await?;
        w.qs_write.internal_modify_uuid(
            UUID_IDM_ALL_PERSONS,
            &ModifyList::new_purge(Attribute::CredentialTypeMinimum),
        )?;
        let r = w.commit();
        self.ev(ct, "harness", "allow_password_only", json!({}), format!("{r:?}"));
        r
    }

    /// Bind the test client certificate to `owner` (a client-certificate entry referring to it).
    /// Any earlier binding of the same certificate on this server is deleted first.
    pub async fn bind_certificate(
        &mut self,
        owner: Uuid,
        cert_entry: Uuid,
        previous: Option<Uuid>,
        ct: Duration,
    ) -> Result<ClientCertInfo, OperationError> {
        use crypto_glue::traits::DecodePem;
        use crypto_glue::x509::{x509_digest_public_key_sha256, Certificate};
        let certificate =
            Certificate::from_pem(TEST_CLIENT_CERT_PEM).map_err(|_| OperationError::InvalidValueState)?;
        let public_key_s256 =
            x509_digest_public_key_sha256(&certificate).ok_or(OperationError::InvalidValueState)?;
        let e: Entry<EntryInit, EntryNew> = entry_init!(
            (Attribute::Class, EntryClass::Object.to_value()),
            (Attribute::Class, EntryClass::ClientCertificate.to_value()),
            (Attribute::Uuid, Value::Uuid(cert_entry)),
            (Attribute::Refers, Value::Refer(owner)),
            (
                Attribute::Certificate,
                Value::new_certificate_s(TEST_CLIENT_CERT_PEM).ok_or(OperationError::InvalidValueState)?
            )
        );
        let mut w = self.idms.proxy_write(ct).await?;
        if let Some(p) = previous {
            let _ = w.qs_write.internal_delete_uuid(p);
        }
        w.qs_write.internal_create(vec![e])?;
        let r = w.commit();
        self.ev(ct, "harness", "bind_certificate", json!({"owner": owner.to_string()}), format!("{r:?}"));
        r.map(|()| ClientCertInfo {
            public_key_s256,
            certificate,
        })
    }

    /// Present a (TLS-verified) client certificate.
    pub async fn present_cert(
        &mut self,
        cci: &ClientCertInfo,
        ct: Duration,
    ) -> Result<(Uuid, AccessScope), OperationError> {
        let mut r = self.idms.proxy_read().await?;
        let cai = ClientAuthInfo::new(Source::Internal, Some(cci.clone()), None, None);
        r.validate_client_auth_info_to_ident(cai, ct)
            .map(|i| (i.get_uuid(), i.access_scope()))
    }

    /// A group carrying account policy for its members.
    pub async fn create_policy_group(
        &mut self,
        name: &str,
        uuid: Uuid,
        members: &[Uuid],
        privilege_expiry: Option<u32>,
        authsession_expiry: Option<u32>,
        ct: Duration,
    ) -> Result<(), OperationError> {
        let mut e: Entry<EntryInit, EntryNew> = entry_init!(
            (Attribute::Class, EntryClass::Object.to_value()),
            (Attribute::Class, EntryClass::Group.to_value()),
            (Attribute::Class, EntryClass::AccountPolicy.to_value()),
            (Attribute::Name, Value::new_iname(name)),
            (Attribute::Uuid, Value::Uuid(uuid))
        );
        for m in members {
            e.add_ava(Attribute::Member, Value::Refer(*m));
        }
        if let Some(p) = privilege_expiry {
            e.add_ava(Attribute::PrivilegeExpiry, Value::new_uint32(p));
        }
        if let Some(p) = authsession_expiry {
            e.add_ava(Attribute::AuthSessionExpiry, Value::new_uint32(p));
        }
        let mut w = self.idms.proxy_write(ct).await?;
        w.qs_write.internal_create(vec![e])?;
        let r = w.commit();
        self.ev(
            ct,
            "harness",
            "create_policy_group",
            json!({"name": name, "privilege_expiry": privilege_expiry, "authsession_expiry": authsession_expiry}),
            format!("{r:?}"),
        );
        r
    }

    /// POSIX password through the normal IDM call, as the account itself.
    pub async fn set_unix_password(&mut self, uuid: Uuid, pw: &str, ct: Duration) -> Result<(), OperationError> {
        let ident = self.ident_of(uuid).await?;
        let mut w = self.idms.proxy_write(ct).await?;
        w.set_unix_account_password(&kanidmd_lib::idm::event::UnixPasswordChangeEvent {
            ident,
            target: uuid,
            cleartext: pw.to_string(),
        })?;
        let r = w.commit();
        self.ev(ct, "self", "set_unix_account_password", json!({"account": uuid.to_string()}), format!("{r:?}"));
        r
    }

    pub async fn set_ldap_unix_pw_bind(&mut self, allow: bool, ct: Duration) -> Result<(), OperationError> {
        let mut w = self.idms.proxy_write(ct).await?;
        w.qs_write.internal_modify_uuid(
            UUID_DOMAIN_INFO,
            &ModifyList::new_purge_and_set(Attribute::LdapAllowUnixPwBind, Value::Bool(allow)),
        )?;
        w.commit()
    }

    pub async fn add_member(&mut self, group: Uuid, member: Uuid, ct: Duration) -> Result<(), OperationError> {
        let mut w = self.idms.proxy_write(ct).await?;
        w.qs_write.internal_modify_uuid(
            group,
            &ModifyList::new_append(Attribute::Member, Value::Refer(member)),
        )?;
        w.commit()
    }

    /// Set (or clear) the validity window; seconds since epoch.
    pub async fn set_validity(
        &mut self,
        uuid: Uuid,
        valid_from: Option<u64>,
        expire: Option<u64>,
        ct: Duration,
    ) -> Result<(), OperationError> {
        let mut mods = vec![m_purge(Attribute::AccountValidFrom), m_purge(Attribute::AccountExpire)];
        if let Some(v) = valid_from {
            mods.push(Modify::Present(
                Attribute::AccountValidFrom,
                Value::new_datetime_epoch(secs(v)),
            ));
        }
        if let Some(v) = expire {
            mods.push(Modify::Present(
                Attribute::AccountExpire,
                Value::new_datetime_epoch(secs(v)),
            ));
        }
        let mut w = self.idms.proxy_write(ct).await?;
        w.qs_write.internal_modify_uuid(uuid, &ModifyList::new_list(mods))?;
        let r = w.commit();
        self.ev(
            ct,
            "harness",
            "set_validity",
            json!({"account": uuid.to_string(), "valid_from": valid_from, "expire": expire}),
            format!("{r:?}"),
        );
        r
    }

    pub async fn delete_entry(&mut self, uuid: Uuid, ct: Duration) -> Result<(), OperationError> {
        let mut w = self.idms.proxy_write(ct).await?;
        w.qs_write.internal_delete_uuid(uuid)?;
        let r = w.commit();
        self.ev(ct, "harness", "delete_entry", json!({"account": uuid.to_string()}), format!("{r:?}"));
        r
    }

    /// A read-write identity impersonating the entry (what a privileged session of that user is).
    pub async fn ident_of(&self, uuid: Uuid) -> Result<Identity, OperationError> {
        let mut r = self.qs.read().await?;
        let e = r.internal_search_uuid(uuid)?;
        Ok(Identity::from_impersonate_entry_readwrite(e))
    }

    // -------------------------------------------------------------------- credential updates

    /// Run one real credential update session as the account itself: `f` drives the session,
    /// then the session is committed. Returns what the client learned (TOTP secret, backup codes).
    pub async fn cred_update<F>(
        &mut self,
        uuid: Uuid,
        ct: Duration,
        what: &str,
        f: F,
    ) -> Result<CredOutcome, OperationError>
    where
        F: FnOnce(
            &IdmServerCredUpdateTransaction<'_>,
            &CredentialUpdateSessionToken,
            &mut CredOutcome,
        ) -> Result<(), OperationError>,
    {
        let r = self.cred_update_inner(uuid, ct, f).await;
        self.ev(
            ct,
            "self",
            "cred_update",
            json!({"account": uuid.to_string(), "what": what}),
            match &r {
                Ok(_) => "Ok".to_string(),
                Err(e) => format!("Err({e:?})"),
            },
        );
        r
    }

    async fn cred_update_inner<F>(
        &mut self,
        uuid: Uuid,
        ct: Duration,
        f: F,
    ) -> Result<CredOutcome, OperationError>
    where
        F: FnOnce(
            &IdmServerCredUpdateTransaction<'_>,
            &CredentialUpdateSessionToken,
            &mut CredOutcome,
        ) -> Result<(), OperationError>,
    {
        let ident = self.ident_of(uuid).await?;
        let cust = {
            let mut w = self.idms.proxy_write(ct).await?;
            let (cust, _st) =
                w.init_credential_update(&InitCredentialUpdateEvent::new(ident, uuid), ct)?;
            w.commit()?;
            cust
        };
        let mut out = CredOutcome::default();
        {
            let cutxn = self.idms.cred_update_transaction().await?;
            let r = f(&cutxn, &cust, &mut out);
            drop(cutxn);
            if let Err(e) = r {
                // abandon the session
                let mut w = self.idms.proxy_write(ct).await?;
                let _ = w.cancel_credential_update(&cust, ct);
                let _ = w.commit();
                return Err(e);
            }
        }
        let mut w = self.idms.proxy_write(ct).await?;
        w.commit_credential_update(&cust, ct)?;
        w.commit()?;
        Ok(out)
    }

    /// The standard credential shapes. `fresh` deletes the primary first so that the credential
    /// gets a new id.
    pub async fn set_credentials(
        &mut self,
        uuid: Uuid,
        ct: Duration,
        pw: &str,
        totp: bool,
        backup: bool,
        fresh: bool,
    ) -> Result<CredOutcome, OperationError> {
        let pw = pw.to_string();
        let what = format!("primary pw totp={totp} backup={backup} fresh={fresh}");
        self.cred_update(uuid, ct, &what, move |cu, cust, out| {
            if fresh {
                cu.credential_primary_delete(cust, ct)?;
            }
            cu.credential_primary_set_password(cust, ct, &pw)?;
            if totp {
                add_totp(cu, cust, ct, "totp", out)?;
            }
            if backup {
                let st = cu.credential_primary_init_backup_codes(cust, ct)?;
                match st.mfaregstate() {
                    MfaRegStateStatus::BackupCodes(c) => {
                        let mut v: Vec<String> = c.iter().cloned().collect();
                        v.sort();
                        out.backup_codes = v;
                    }
                    _ => return Err(OperationError::InvalidState),
                }
            }
            Ok(())
        })
        .await
    }

    // -------------------------------------------------------------------- authentication

    /// One protocol step through the real auth transaction.
    pub async fn auth_step(
        &mut self,
        sid: Option<Uuid>,
        step: ProtoStep,
        ct: Duration,
        label: &str,
    ) -> (Option<Uuid>, StepOut) {
        let (rsid, out) = self.auth_step_inner(sid, step, ct).await;
        self.ev(
            ct,
            "client",
            "auth",
            json!({"session": sid.map(|_| "sid"), "step": label}),
            out.brief(),
        );
        (rsid, out)
    }

    async fn auth_step_inner(
        &mut self,
        sid: Option<Uuid>,
        step: ProtoStep,
        ct: Duration,
    ) -> (Option<Uuid>, StepOut) {
        let ae = match AuthEvent::from_message(sid, step.into()) {
            Ok(ae) => ae,
            Err(e) => return (None, StepOut::Err(format!("{e:?}"))),
        };
        let mut a = match self.idms.auth().await {
            Ok(a) => a,
            Err(e) => return (None, StepOut::Err(format!("auth txn: {e:?}"))),
        };
        let cai = ClientAuthInfo::new(Source::Internal, None, None, None);
        let r = a.auth(&ae, ct, cai).await;
        let _ = a.commit();
        self.auth_result(r)
    }

    fn auth_result(&mut self, r: Result<kanidmd_lib::idm::event::AuthResult, OperationError>) -> (Option<Uuid>, StepOut) {
        match r {
            Err(e) => (None, StepOut::Err(format!("{e:?}"))),
            Ok(ar) => {
                let out = match ar.state {
                    AuthState::Choose(m) => StepOut::Choose(m),
                    AuthState::Continue(a) => {
                        for x in a.iter() {
                            if let AuthAllowed::Passkey(c) = x {
                                self.last_passkey_chal = Some(c.clone());
                            }
                        }
                        StepOut::Continue(a.iter().map(allowed_name).collect())
                    }
                    AuthState::External(x) => {
                        match x {
                            AuthExternal::OAuth2AuthorisationRequest { request, .. } => {
                                self.last_oauth2_state = request.state.clone();
                                self.last_external = "authorisation";
                            }
                            AuthExternal::OAuth2AccessTokenRequest { .. } => self.last_external = "token",
                            AuthExternal::OAuth2AccessTokenIntrospectionRequest { .. } => self.last_external = "introspection",
                        }
                        StepOut::External
                    }
                    AuthState::Denied(r) => StepOut::Denied(r),
                    AuthState::Success(tok, _) => StepOut::Success(tok),
                };
                (Some(ar.sessionid), out)
            }
        }
    }

    /// A credential step the front end builds itself (answers of an external OAuth2 provider).
    pub async fn auth_step_internal(&mut self, sid: Uuid, cred: InternalCred, ct: Duration, label: &str) -> StepOut {
        let ae = AuthEvent { ident: None, step: AuthEventStep::Cred(AuthEventStepCred { sessionid: sid, cred }) };
        let r = match self.idms.auth().await {
            Err(e) => Err(e),
            Ok(mut a) => {
                let cai = ClientAuthInfo::new(Source::Internal, None, None, None);
                let r = a.auth(&ae, ct, cai).await;
                let _ = a.commit();
                r
            }
        };
        let out = self.auth_result(r).1;
        self.ev(ct, "front-end", "auth", json!({"session": "sid", "step": label}), out.brief());
        out
    }

    /// An external OAuth2 provider this server trusts for authentication (with token introspection).
    pub async fn create_trust_provider(&mut self, name: &str, uuid: Uuid, ct: Duration) -> Result<(), OperationError> {
        let e: Entry<EntryInit, EntryNew> = entry_init!(
            (Attribute::Class, EntryClass::Object.to_value()),
            (Attribute::Class, EntryClass::OAuth2Client.to_value()),
            (Attribute::Name, Value::new_iname(name)),
            (Attribute::Uuid, Value::Uuid(uuid)),
            (Attribute::OAuth2ClientId, Value::new_utf8s("kanidm_at_idp")),
            (Attribute::OAuth2ClientSecret, Value::new_utf8s("idp_secret")),
            (Attribute::OAuth2AuthorisationEndpoint, Value::new_url_s("https://idp.example.com/authorise").ok_or(OperationError::InvalidValueState)?),
            (Attribute::OAuth2TokenEndpoint, Value::new_url_s("https://idp.example.com/token").ok_or(OperationError::InvalidValueState)?),
            (Attribute::OAuth2TokenIntrospectEndpoint, Value::new_url_s("https://idp.example.com/introspect").ok_or(OperationError::InvalidValueState)?),
            (Attribute::OAuth2RequestScopes, Value::new_oauthscope("openid").ok_or(OperationError::InvalidValueState)?)
        );
        let mut w = self.idms.proxy_write(ct).await?;
        w.qs_write.internal_create(vec![e])?;
        let r = w.commit();
        self.ev(ct, "harness", "create_trust_provider", json!({"name": name}), format!("{r:?}"));
        r
    }

    /// Link a person to the external provider: from now on the account authenticates there.
    pub async fn link_trust(&mut self, person: Uuid, provider: Uuid, sub: &str, ct: Duration) -> Result<(), OperationError> {
        let ml = ModifyList::new_list(vec![
            Modify::Present(Attribute::Class, EntryClass::OAuth2Account.to_value()),
            Modify::Present(Attribute::OAuth2AccountProvider, Value::Refer(provider)),
            Modify::Present(Attribute::OAuth2AccountUniqueUserId, Value::new_utf8s(sub)),
            Modify::Present(Attribute::OAuth2AccountUniqueUserSub, Value::new_utf8s(sub)),
            Modify::Present(Attribute::OAuth2AccountCredentialUuid, Value::Uuid(Uuid::new_v4())),
        ]);
        let mut w = self.idms.proxy_write(ct).await?;
        w.qs_write.internal_modify_uuid(person, &ml)?;
        let r = w.commit();
        self.ev(ct, "harness", "link_trust", json!({"sub": sub}), format!("{r:?}"));
        r
    }

    /// The whole external-provider login as the web front end drives it.
    pub async fn login_trust(&mut self, name: &str, privileged: bool, sub: &str, ct: Duration) -> Result<JwsCompact, String> {
        use kanidm_proto::oauth2::{AccessTokenIntrospectResponse, AccessTokenResponse, AccessTokenType, IssuedTokenType};
        let (sid, out) = self
            .auth_step(None, ProtoStep::Init2 { username: name.to_string(), issue: AuthIssueSession::Token, privileged }, ct, "init")
            .await;
        let sid = match (&out, sid) {
            (StepOut::Choose(m), Some(s)) if m.contains(&AuthMech::OAuth2Trust) => s,
            _ => return Err(format!("init: {}", out.brief())),
        };
        let (_, out) = self.auth_step(Some(sid), ProtoStep::Begin(AuthMech::OAuth2Trust), ct, "begin(oauth2trust)").await;
        if !matches!(out, StepOut::External) || self.last_external != "authorisation" {
            return Err(format!("begin: {}", out.brief()));
        }
        let state = self.last_oauth2_state.clone();
        let out = self.auth_step_internal(sid, InternalCred::OAuth2AuthorisationResponse { code: "code-from-idp".into(), state }, ct, "authorisation-response").await;
        if !matches!(out, StepOut::External) || self.last_external != "token" {
            return Err(format!("authorisation response: {}", out.brief()));
        }
        let response = AccessTokenResponse {
            access_token: "idp-access-token".to_string(),
            token_type: AccessTokenType::Bearer,
            issued_token_type: Some(IssuedTokenType::AccessToken),
            expires_in: 300,
            refresh_token: None,
            scope: ["openid".to_string()].into_iter().collect(),
            id_token: None,
        };
        let out = self.auth_step_internal(sid, InternalCred::OAuth2AccessTokenResponse { response }, ct, "token-response").await;
        if !matches!(out, StepOut::External) || self.last_external != "introspection" {
            return Err(format!("token response: {}", out.brief()));
        }
        let response = AccessTokenIntrospectResponse { active: true, sub: Some(sub.to_string()), ..Default::default() };
        match self.auth_step_internal(sid, InternalCred::OAuth2AccessTokenIntrospectResponse { response }, ct, "introspection-response").await {
            StepOut::Success(tok) => Ok(*tok),
            o => Err(format!("introspection response: {}", o.brief())),
        }
    }

    /// Canonical login: init → begin(mech) → the given credential steps. Returns the token.
    pub async fn login(
        &mut self,
        name: &str,
        privileged: bool,
        mech: AuthMech,
        creds: Vec<ProtoCred>,
        ct: Duration,
    ) -> Result<JwsCompact, String> {
        let (sid, out) = self
            .auth_step(
                None,
                ProtoStep::Init2 {
                    username: name.to_string(),
                    issue: AuthIssueSession::Token,
                    privileged,
                },
                ct,
                "init",
            )
            .await;
        let sid = match (&out, sid) {
            (StepOut::Choose(_), Some(s)) => s,
            _ => return Err(format!("init: {}", out.brief())),
        };
        let (_, out) = self
            .auth_step(Some(sid), ProtoStep::Begin(mech.clone()), ct, &format!("begin({})", mech.to_value()))
            .await;
        if !matches!(out, StepOut::Continue(_)) {
            return Err(format!("begin: {}", out.brief()));
        }
        let n = creds.len();
        for (i, c) in creds.into_iter().enumerate() {
            let lbl = format!("cred{i}");
            let (_, out) = self.auth_step(Some(sid), ProtoStep::Cred(c), ct, &lbl).await;
            match out {
                StepOut::Success(tok) => return Ok(*tok),
                StepOut::Continue(_) if i + 1 < n => {}
                o => return Err(format!("cred{i}: {}", o.brief())),
            }
        }
        Err("no success after all credentials".into())
    }

    /// Register a software passkey through a real credential update session.
    pub async fn add_soft_passkey(
        &mut self,
        uuid: Uuid,
        label: &str,
        ct: Duration,
    ) -> Result<webauthn_authenticator_rs::softpasskey::SoftPasskey, OperationError> {
        use webauthn_authenticator_rs::WebauthnAuthenticator;
        let mut wa = webauthn_authenticator_rs::softpasskey::SoftPasskey::new(true);
        let origin = Url::parse("https://idm.example.com").map_err(|_| OperationError::InvalidState)?;
        let label = label.to_string();
        let wa_ref = &mut wa;
        self.cred_update(uuid, ct, "add soft passkey", move |cu, cust, _out| {
            let st = cu.credential_passkey_init(cust, ct)?;
            let chal = match st.mfaregstate() {
                MfaRegStateStatus::Passkey(c) => c.clone(),
                _ => return Err(OperationError::InvalidState),
            };
            let reg = wa_ref
                .do_registration(origin, chal)
                .map_err(|_| OperationError::InvalidState)?;
            cu.credential_passkey_finish(cust, ct, label, &reg)?;
            Ok(())
        })
        .await?;
        Ok(wa)
    }

    /// init → begin(passkey) → signed assertion.
    pub async fn login_passkey(
        &mut self,
        name: &str,
        wa: &mut webauthn_authenticator_rs::softpasskey::SoftPasskey,
        ct: Duration,
    ) -> Result<JwsCompact, String> {
        use webauthn_authenticator_rs::WebauthnAuthenticator;
        let (sid, out) = self
            .auth_step(
                None,
                ProtoStep::Init2 {
                    username: name.to_string(),
                    issue: AuthIssueSession::Token,
                    privileged: false,
                },
                ct,
                "init",
            )
            .await;
        let sid = match (&out, sid) {
            (StepOut::Choose(_), Some(s)) => s,
            _ => return Err(format!("init: {}", out.brief())),
        };
        self.last_passkey_chal = None;
        let (_, out) = self.auth_step(Some(sid), ProtoStep::Begin(AuthMech::Passkey), ct, "begin(passkey)").await;
        if !matches!(out, StepOut::Continue(_)) {
            return Err(format!("begin: {}", out.brief()));
        }
        let chal = self.last_passkey_chal.take().ok_or("no passkey challenge")?;
        let origin = Url::parse("https://idm.example.com").map_err(|e| e.to_string())?;
        let resp = wa.do_authentication(origin, chal).map_err(|e| format!("soft passkey: {e:?}"))?;
        let (_, out) = self
            .auth_step(Some(sid), ProtoStep::Cred(ProtoCred::Passkey(Box::new(resp))), ct, "passkey")
            .await;
        match out {
            StepOut::Success(tok) => Ok(*tok),
            o => Err(format!("passkey: {}", o.brief())),
        }
    }

    /// Re-authentication of an existing session: `reauth_init` then the credential steps.
    pub async fn reauth(
        &mut self,
        ident: Identity,
        grant_rw: bool,
        creds: Vec<ProtoCred>,
        ct: Duration,
    ) -> Result<JwsCompact, String> {
        use kanidmd_lib::idm::authentication::ReauthRequest;
        let req = if grant_rw {
            ReauthRequest::GrantReadWrite
        } else {
            ReauthRequest::VerifyCredentials
        };
        let r = {
            let mut a = self.idms.auth().await.map_err(|e| format!("{e:?}"))?;
            let cai = ClientAuthInfo::new(Source::Internal, None, None, None);
            let r = a.reauth_init(ident, AuthIssueSession::Token, ct, cai, req).await;
            let _ = a.commit();
            r
        };
        let res = match r {
            Err(e) => Err(format!("reauth_init: {e:?}")),
            Ok(ar) => match ar.state {
                AuthState::Continue(_) => Ok(ar.sessionid),
                AuthState::Denied(r) => Err(format!("reauth_init denied({r})")),
                o => Err(format!("reauth_init: {o:?}")),
            },
        };
        self.ev(
            ct,
            "client",
            "reauth_init",
            json!({"grant_rw": grant_rw}),
            match &res {
                Ok(_) => "continue".into(),
                Err(e) => e.clone(),
            },
        );
        let sid = res?;
        let n = creds.len();
        for (i, c) in creds.into_iter().enumerate() {
            let (_, out) = self.auth_step(Some(sid), ProtoStep::Cred(c), ct, &format!("reauth-cred{i}")).await;
            match out {
                StepOut::Success(tok) => return Ok(*tok),
                StepOut::Continue(_) if i + 1 < n => {}
                o => return Err(format!("reauth cred{i}: {}", o.brief())),
            }
        }
        Err("reauth: no success after all credentials".into())
    }

    // -------------------------------------------------------------------- delayed actions

    /// Take everything currently queued (non blocking).
    pub fn take_delayed(&mut self) -> Vec<DelayedAction> {
        let mut all = Vec::new();
        loop {
            let mut buf: Vec<DelayedAction> = Vec::with_capacity(32);
            // `unconstrained`: tokio's cooperative budget makes a channel report Pending now and then
            // even though messages are queued; a single poll must not mistake that for "empty".
            match tokio::task::unconstrained(self.delayed.recv_many(&mut buf)).now_or_never() {
                Some(n) if n > 0 => all.append(&mut buf),
                _ => break,
            }
        }
        all
    }

    /// Apply the given delayed actions in one write transaction each, at time ct.
    pub async fn apply_delayed(&mut self, das: Vec<DelayedAction>, ct: Duration) -> Drained {
        let mut d = Drained::default();
        for da in das {
            let kind = match &da {
                DelayedAction::AuthSessionRecord(_) => {
                    d.session_records += 1;
                    "session_record"
                }
                DelayedAction::BackupCodeRemoval(_) => {
                    d.backup_removals += 1;
                    "backup_removal"
                }
                DelayedAction::PwUpgrade(_) | DelayedAction::UnixPwUpgrade(_) => {
                    d.pw_upgrades += 1;
                    "pw_upgrade"
                }
                _ => {
                    d.other += 1;
                    "other"
                }
            };
            let r = match self.idms.proxy_write(ct).await {
                Ok(mut w) => w.process_delayedaction(&da, ct).and_then(|_| w.commit()),
                Err(e) => Err(e),
            };
            if let Err(e) = &r {
                d.errors.push(format!("{kind}: {e:?}"));
            }
            self.ev(ct, "server", "delayed_action", json!({"kind": kind}), format!("{r:?}"));
        }
        d
    }

    pub async fn drain(&mut self, ct: Duration) -> Drained {
        let das = self.take_delayed();
        self.apply_delayed(das, ct).await
    }

    // -------------------------------------------------------------------- token presentation

    /// Present a bearer token; returns (account uuid, scope, session id) or the error.
    pub async fn present(
        &mut self,
        tok: &JwsCompact,
        ct: Duration,
    ) -> Result<(Uuid, AccessScope, Uuid), OperationError> {
        let mut r = self.idms.proxy_read().await?;
        let cai = ClientAuthInfo::new(Source::Internal, None, Some(tok.clone()), None);
        r.validate_client_auth_info_to_ident(cai, ct)
            .map(|i| (i.get_uuid(), i.access_scope(), i.get_session_id()))
    }

    pub async fn present_ident(
        &mut self,
        tok: &JwsCompact,
        ct: Duration,
    ) -> Result<Identity, OperationError> {
        let mut r = self.idms.proxy_read().await?;
        let cai = ClientAuthInfo::new(Source::Internal, None, Some(tok.clone()), None);
        r.validate_client_auth_info_to_ident(cai, ct)
    }

    /// Storage JSON of one entry (None if it does not exist as a live entry).
    pub async fn dump_entry(&self, uuid: Uuid) -> Option<Json> {
        let mut r = self.qs.read().await.ok()?;
        let e = r.internal_search_uuid(uuid).ok()?;
        serde_json::to_value(e.to_dbentry()).ok()
    }

    pub async fn dump(&self) -> kvcore::srv::Dump {
        kvcore::srv::dump(&self.qs).await
    }
}

pub fn add_totp(
    cu: &IdmServerCredUpdateTransaction<'_>,
    cust: &CredentialUpdateSessionToken,
    ct: Duration,
    label: &str,
    out: &mut CredOutcome,
) -> Result<(), OperationError> {
    let st = cu.credential_primary_init_totp(cust, ct)?;
    let secret = match st.mfaregstate() {
        MfaRegStateStatus::TotpCheck(s) => s.clone(),
        _ => return Err(OperationError::InvalidState),
    };
    let code = totp_at(&secret, ct.as_secs(), 0).ok_or(OperationError::InvalidState)?;
    let st = cu.credential_primary_check_totp(cust, ct, code, label)?;
    if !matches!(st.mfaregstate(), MfaRegStateStatus::None) {
        // our independent RFC 6238 disagrees with kanidm's: not a property of this engine
        return Err(OperationError::InvalidState);
    }
    out.totp = Some(secret);
    Ok(())
}

pub fn scope_name(s: &AccessScope) -> &'static str {
    match s {
        AccessScope::ReadOnly => "ro",
        AccessScope::ReadWrite => "rw",
        AccessScope::Synchronise => "sync",
    }
}

/// Deterministic strong password.
pub fn gen_password(rng: &mut kvcore::Rng) -> String {
    format!("Vq7-{}-xT2", hex::encode(rng.bytes(10)))
}

pub fn short_err(e: &OperationError) -> String {
    let s = format!("{e:?}");
    s.chars().take(60).collect()
}

/// Sessions recorded on an account in a directory dump:
/// session id -> (state kind, state value, cred_id, scope, type, issued_at)
#[derive(Clone, Debug, PartialEq)]
pub struct DumpSession {
    pub id: String,
    pub state: String, // "expires" | "never" | "revoked"
    pub state_val: Json,
    pub cred_id: String,
    pub raw: Json,
}

pub fn dump_sessions(e: &Json) -> Vec<DumpSession> {
    let mut out = Vec::new();
    let Some(attrs) = kvcore::srv::dump_attrs(e) else {
        return out;
    };
    let Some(v) = attrs.get("user_auth_token_session") else {
        return out;
    };
    collect_sessions(v, &mut out);
    out
}

fn collect_sessions(v: &Json, out: &mut Vec<DumpSession>) {
    match v {
        Json::Array(a) => a.iter().for_each(|x| collect_sessions(x, out)),
        Json::Object(m) => {
            // a session record object has a refer "u" and a credential id "c"
            if m.contains_key("u") && m.contains_key("c") {
                out.push(parse_session(v));
            } else {
                m.values().for_each(|x| collect_sessions(x, out));
            }
        }
        _ => {}
    }
}

/// DbValueSession::V4 { u: id, c: cred id, e: state ("nv" | {"ea": rfc3339} | {"ra": cid}), i: issued, s: scope, t: type }
fn parse_session(v: &Json) -> DumpSession {
    let id = v.get("u").and_then(|x| x.as_str()).unwrap_or("").to_string();
    let cred_id = v.get("c").and_then(|x| x.as_str()).unwrap_or("").to_string();
    let (state, state_val) = match v.get("e") {
        Some(Json::Object(m)) => {
            if let Some(x) = m.get("ra") {
                ("revoked".to_string(), x.clone())
            } else if let Some(x) = m.get("ea") {
                ("expires".to_string(), x.clone())
            } else {
                ("unknown".to_string(), Json::Object(m.clone()))
            }
        }
        Some(Json::String(s)) if s == "nv" => ("never".to_string(), Json::Null),
        Some(o) => ("unknown".to_string(), o.clone()),
        None => ("unknown".to_string(), Json::Null),
    };
    DumpSession {
        id,
        state,
        state_val,
        cred_id,
        raw: v.clone(),
    }
}

/// ids of the API token session records on a dumped entry
pub fn dump_api_tokens(e: &Json) -> Vec<String> {
    let mut out = Vec::new();
    if let Some(v) = kvcore::srv::dump_attrs(e).and_then(|a| a.get("api_token_session")) {
        fn walk(v: &Json, out: &mut Vec<String>) {
            match v {
                Json::Array(a) => a.iter().for_each(|x| walk(x, out)),
                Json::Object(m) => {
                    if let (Some(Json::String(u)), true) = (m.get("u"), m.contains_key("i")) {
                        out.push(u.clone());
                    } else {
                        m.values().for_each(|x| walk(x, out));
                    }
                }
                _ => {}
            }
        }
        walk(v, &mut out);
    }
    out
}

/// uuids of the credentials present on a dumped account entry: (primary, passkeys)
pub fn dump_cred_ids(e: &Json) -> (Option<String>, Vec<String>) {
    let attrs = kvcore::srv::dump_attrs(e);
    let mut primary = None;
    if let Some(v) = attrs.and_then(|a| a.get("primary_credential")) {
        fn find_uuid(v: &Json) -> Option<String> {
            match v {
                Json::Array(a) => a.iter().find_map(find_uuid),
                Json::Object(m) => {
                    if let Some(Json::Object(d)) = m.get("d") {
                        if let Some(Json::String(u)) = d.get("uuid") {
                            return Some(u.clone());
                        }
                    }
                    if let (Some(Json::String(u)), true) = (m.get("uuid"), m.contains_key("password") || m.contains_key("type_")) {
                        return Some(u.clone());
                    }
                    m.values().find_map(find_uuid)
                }
                _ => None,
            }
        }
        primary = find_uuid(v);
    }
    let mut pks = Vec::new();
    for attr in ["passkeys", "attested_passkeys"] {
        if let Some(v) = attrs.and_then(|a| a.get(attr)) {
            fn walk(v: &Json, out: &mut Vec<String>) {
                match v {
                    Json::Array(a) => a.iter().for_each(|x| walk(x, out)),
                    Json::Object(m) => {
                        if let (Some(Json::String(u)), true) = (m.get("u"), m.contains_key("k")) {
                            out.push(u.clone());
                        } else {
                            m.values().for_each(|x| walk(x, out));
                        }
                    }
                    _ => {}
                }
            }
            walk(v, &mut pks);
        }
    }
    (primary, pks)
}

/// change id (as "secs.nanos/server") recorded for an attribute in the entry's change state
pub fn dump_attr_cid(e: &Json, attr: &str) -> Option<String> {
    let cs = kvcore::srv::dump_changestate(e)?;
    let c = cs.get("V1Live")?.get("changes")?.get(attr)?;
    Some(cid_str(c))
}

pub fn cid_str(c: &Json) -> String {
    let t = c.get("t");
    format!(
        "{}.{}/{}",
        t.and_then(|t| t.get("secs")).and_then(|x| x.as_u64()).unwrap_or(0),
        t.and_then(|t| t.get("nanos")).and_then(|x| x.as_u64()).unwrap_or(0),
        c.get("s").and_then(|x| x.as_str()).unwrap_or("")
    )
}

pub fn arc_entry_uuid(e: &Arc<kanidmd_lib::entry::EntrySealedCommitted>) -> Uuid {
    e.get_uuid()
}
