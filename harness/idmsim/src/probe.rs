//! Developer probe: not a check. Prints what the dump of an account with sessions looks like.
use crate::sim::*;
use kanidm_proto::v1::{AuthCredential as C, AuthMech};

pub fn run(args: kvcore::Args) {
    let rt = kvcore::srv::rt();
    rt.block_on(async {
        let mut rng = kvcore::Rng::new(args.seed);
        let mut t = T0 + secs(10);
        let mut sim = Sim::new(T0).await.expect("sim");
        sim.allow_password_only(t).await.unwrap();
        let u = rng.uuid();
        sim.create_person("alice", u, true, t).await.expect("create");
        let pw = gen_password(&mut rng);
        t += secs(1);
        sim.set_credentials(u, t, &pw, false, false, false).await.expect("creds");
        t += secs(5);
        let tok = sim.login("alice", false, AuthMech::Password, vec![C::Password(pw.clone())], t).await.unwrap();
        sim.drain(t + secs(2)).await;
        t += secs(5);
        let _tok2 = sim.login("alice", false, AuthMech::Password, vec![C::Password(pw.clone())], t).await.unwrap();
        let pending = sim.take_delayed();
        t += secs(5);
        let e = sim.dump_entry(u).await.unwrap();
        println!("before: creds={:?} sessions={:?}", dump_cred_ids(&e), dump_sessions(&e).iter().map(|s| (s.id.clone(), s.state.clone(), s.cred_id.clone())).collect::<Vec<_>>());
        let pw2 = gen_password(&mut rng);
        sim.set_credentials(u, t, &pw2, false, false, true).await.expect("creds2");
        let e = sim.dump_entry(u).await.unwrap();
        println!("after: creds={:?} sessions={:?}", dump_cred_ids(&e), dump_sessions(&e));
        println!("cid primary_credential = {:?}; uats = {:?}", dump_attr_cid(&e, "primary_credential"), dump_attr_cid(&e, "user_auth_token_session"));
        println!("present revoked: {:?}", sim.present(&tok, t + secs(1)).await);
        let d = sim.apply_delayed(pending, t + secs(2)).await;
        println!("late drain: {d:?}");
        let e = sim.dump_entry(u).await.unwrap();
        println!("after late drain: sessions={:?}", dump_sessions(&e));
        println!("cid uats = {:?}", dump_attr_cid(&e, "user_auth_token_session"));
    });
}
