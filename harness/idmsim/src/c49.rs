//! C49 Accounts outside their validity window cannot authenticate anywhere.
//!
//! Workload: cases on a long-lived server. A case is a fresh POSIX person (password / password+TOTP /
//! generated password, a UNIX password, a RADIUS secret) or a service account with an API token; a
//! login token is issued while the account is still unrestricted; then a validity window from a grid
//! {open, expired, not yet valid, bounded, boundaries a few seconds away} is written, and every path
//! is asked at simulated times on both sides of every boundary (±1 s, ±2 s, ±1 day):
//! interactive login, LDAP password bind (`auth_ldap`), UNIX password check (`auth_unix`),
//! `get_radiusauthtoken`, the previously issued login token, a client certificate bound to the
//! account, the API token — asked as the end user,
//! as a RADIUS server (a service account in the builtin idm_radius_servers group, identified by its
//! own API token), as idm_admin, and as the anonymous POSIX client.
//! A second, small profile drives the real LDAP front end (`LdapServer::do_op`), which reads the wall
//! clock: windows there are whole days away from "now".
//!
//! Oracle: t < valid_from or t > expire ⇒ the path must not succeed. The instants t == expire and
//! t == valid_from are counted, not judged (the statement says "expiry has passed" / "has not
//! arrived"). Inside the window every path must be seen to succeed (thresholds).

use crate::sim::*;
use compact_jwt::JwsCompact;
use kanidm_proto::internal::TotpSecret;
use kanidm_proto::v1::{AuthCredential as C, AuthMech};
use kanidmd_lib::idm::event::{
    LdapAuthEvent, RadiusAuthTokenEvent, RegenerateRadiusSecretEvent, UnixUserAuthEvent,
};
use kanidmd_lib::idm::ldap::{LdapResponseState, LdapServer};
use kanidmd_lib::idm::serviceaccount::GenerateApiTokenEvent;
use kanidmd_lib::prelude::*;
use kvcore::{Acc, Args, Rng, Run};
use ldap3_proto::proto::{LdapFilter, LdapSearchScope};
use ldap3_proto::simple::{SearchRequest, ServerOps, SimpleBindRequest};
use serde_json::{json, Value as Json};

/// window templates: offsets in seconds relative to the case reference time R
const WINDOWS: [(&str, Option<i64>, Option<i64>); 14] = [
    ("open", None, None),
    ("expired-long-ago", None, Some(-10 * 86400)),
    ("expired-just-now", None, Some(-40)),
    ("expires-soon", None, Some(60)),
    ("expires-later", None, Some(5000)),
    ("not-yet-far", Some(10 * 86400), None),
    ("not-yet-soon", Some(45), None),
    ("started-just-now", Some(-30), None),
    ("bounded-current", Some(-3600), Some(3600)),
    ("bounded-narrow", Some(-20), Some(25)),
    ("bounded-past", Some(-20 * 86400), Some(-10 * 86400)),
    ("bounded-future", Some(86400), Some(2 * 86400)),
    ("bounded-about-to-start", Some(30), Some(4000)),
    ("inverted", Some(100), Some(-100)),
];

#[derive(Clone, Copy, PartialEq, Eq, Debug)]
enum Cred {
    Pw,
    PwTotp,
    GenPw,
}

struct World {
    sim: Sim,
    t: u64,
    n: u64,
    radius_api: JwsCompact,
    anon_tok: Option<JwsCompact>,
    /// the client-certificate entry currently bound (the one test certificate moves from case to case)
    cert_entry: Option<Uuid>,
}

struct Case {
    name: String,
    uuid: Uuid,
    cred: Cred,
    pw: String,
    totp: Option<TotpSecret>,
    upw: String,
    radius_secret: Option<String>,
    vf: Option<u64>,
    ex: Option<u64>,
    wname: &'static str,
    token: Option<(JwsCompact, u64)>,
    cert: Option<ClientCertInfo>,
}

#[derive(PartialEq)]
enum Where {
    Outside(&'static str),
    Inside,
    Edge,
}

fn classify(vf: Option<u64>, ex: Option<u64>, t: u64) -> Where {
    if let Some(v) = vf {
        if t < v {
            return Where::Outside("before-valid-from");
        }
    }
    if let Some(x) = ex {
        if t > x {
            return Where::Outside("after-expire");
        }
    }
    if vf == Some(t) || ex == Some(t) {
        return Where::Edge;
    }
    Where::Inside
}

fn verdict(
    acc: &mut Acc,
    case: &Case,
    t: u64,
    path: &'static str,
    what: &'static str,
    asker: &str,
    success: bool,
    detail: &str,
) {
    acc.eval();
    match classify(case.vf, case.ex, t) {
        Where::Outside(side) => {
            if success {
                acc.violation(
                    &format!("c49/{what}-outside-validity/asker={asker}"),
                    json!({
                        "why": format!("{path} succeeded at t={t}, {side}"),
                        "account": {"name": case.name, "credential": format!("{:?}", case.cred), "window": case.wname,
                                    "valid_from": case.vf, "expire": case.ex},
                        "asked_at": t, "side": side, "asker": asker, "path": path, "detail": detail,
                        "asker_identity": match asker {
                            "radius-server" => "service account in builtin group idm_radius_servers, identity obtained from its own read-only API token at the time of asking",
                            "idm-admin" => "builtin idm_admin (impersonated read-write identity)",
                            "posix-client-anonymous" => "identity of a fresh anonymous session",
                            "service-account" => "the service account's own API token",
                            "anonymous" => "the anonymous account itself (token issued before the window was written / a new anonymous login)",
                            _ => "the account itself",
                        },
                    }),
                );
            } else {
                acc.count(&format!("refused_outside.{path}.{asker}"));
                acc.count(&format!("refused_outside.side.{side}"));
            }
        }
        Where::Inside => {
            if success {
                acc.count(&format!("success_inside.{path}.{asker}"));
            } else {
                acc.count(&format!("control_failed_inside.{path}.{asker}"));
                acc.observe("control_failures", &format!("{path}/{asker}/{}: {detail}", case.wname).chars().take(110).collect::<String>());
            }
        }
        Where::Edge => {
            acc.count(&format!(
                "unjudged.boundary_instant.{path}.{}",
                if success { "succeeded" } else { "refused" }
            ));
        }
    }
}

async fn probe_all(w: &mut World, case: &Case, t: u64, acc: &mut Acc) {
    let ct = secs(t);
    // 1. interactive login
    let (mech, creds) = match (&case.cred, &case.totp) {
        (Cred::PwTotp, Some(s)) => (
            AuthMech::PasswordTotp,
            vec![C::Totp(totp_at(s, t, 0).unwrap_or(0)), C::Password(case.pw.clone())],
        ),
        _ => (AuthMech::Password, vec![C::Password(case.pw.clone())]),
    };
    let r = w.sim.login(&case.name, false, mech, creds, ct).await;
    let _ = w.sim.take_delayed();
    verdict(
        acc,
        case,
        t,
        "interactive-login",
        "interactive-login-succeeded",
        "end-user",
        r.is_ok(),
        &r.err().unwrap_or_default(),
    );
    // 2. LDAP password bind (simulated clock)
    let r = async {
        let mut a = w.sim.idms.auth().await?;
        let lae = LdapAuthEvent::from_parts(case.uuid, case.upw.clone())?;
        a.auth_ldap(&lae, ct).await
    }
    .await;
    verdict(
        acc,
        case,
        t,
        "ldap-bind",
        "ldap-bind-succeeded",
        "end-user",
        matches!(r, Ok(Some(_))),
        &format!("{:?}", r.as_ref().map(|o| o.is_some())),
    );
    // 3. UNIX password check, asked by the anonymous POSIX client and by idm_admin
    for asker in ["posix-client-anonymous", "idm-admin"] {
        let ident = if asker == "idm-admin" {
            w.sim.ident_of(UUID_IDM_ADMIN).await.ok()
        } else {
            match &w.anon_tok {
                Some(tk) => w.sim.present_ident(tk, ct).await.ok(),
                None => None,
            }
        };
        let ident = match ident {
            Some(i) => i,
            None => {
                // a fresh anonymous session for the client
                match w
                    .sim
                    .login("anonymous", false, AuthMech::Anonymous, vec![C::Anonymous], ct)
                    .await
                {
                    Ok(tk) => {
                        let i = w.sim.present_ident(&tk, ct).await.ok();
                        w.anon_tok = Some(tk);
                        match i {
                            Some(i) => i,
                            None => continue,
                        }
                    }
                    Err(_) => continue,
                }
            }
        };
        let r = async {
            let mut a = w.sim.idms.auth().await?;
            let uae = UnixUserAuthEvent::from_parts(ident, case.uuid, case.upw.clone())?;
            a.auth_unix(&uae, ct).await
        }
        .await;
        verdict(
            acc,
            case,
            t,
            "unix-password-check",
            "unix-password-check-succeeded",
            asker,
            matches!(r, Ok(Some(_))),
            &format!("{:?}", r.as_ref().map(|o| o.is_some())),
        );
    }
    // 4. RADIUS secret release
    if let Some(secret) = &case.radius_secret {
        let mut askers: Vec<(&str, Option<Identity>)> = Vec::new();
        let api = w.radius_api.clone();
        askers.push(("radius-server", w.sim.present_ident(&api, ct).await.ok()));
        askers.push(("idm-admin", w.sim.ident_of(UUID_IDM_ADMIN).await.ok()));
        if let Some((tk, l)) = &case.token {
            if t >= *l {
                // the end user can only ask with an identity the server gives him now
                let i = w.sim.present_ident(tk, ct).await.ok();
                if i.is_none() {
                    acc.count("radius.end_user_has_no_identity_now");
                }
                askers.push(("end-user", i));
            }
        }
        for (asker, ident) in askers {
            let Some(ident) = ident else { continue };
            let r = async {
                let mut rd = w.sim.idms.proxy_read().await?;
                rd.get_radiusauthtoken(&RadiusAuthTokenEvent { ident, target: case.uuid }, ct)
            }
            .await;
            let released = matches!(&r, Ok(tok) if tok.secret == *secret);
            if let Ok(tok) = &r {
                if tok.secret != *secret {
                    acc.count("radius.token_with_other_secret");
                }
            }
            verdict(
                acc,
                case,
                t,
                "radius-secret",
                "radius-secret-released",
                asker,
                released,
                &match &r {
                    Ok(_) => "token returned".to_string(),
                    Err(e) => short_err(e),
                },
            );
        }
    }
    // 4b. client certificate bound to the account
    if let Some(cci) = &case.cert {
        let r = w.sim.present_cert(cci, ct).await;
        let ok = matches!(&r, Ok((u, _)) if *u == case.uuid);
        verdict(
            acc,
            case,
            t,
            "client-certificate",
            "client-certificate-accepted",
            "end-user",
            ok,
            &r.err().map(|e| short_err(&e)).unwrap_or_default(),
        );
    }
    // 5. the previously issued login token
    if let Some((tk, l)) = &case.token {
        if t >= *l {
            let r = w.sim.present(tk, ct).await;
            // past the token's own lifetime a refusal says nothing about validity
            let uat_exp = parse_uat(tk).and_then(|u| u.expiry).map(|e| e.unix_timestamp() as u64);
            if uat_exp.map(|x| t < x).unwrap_or(true) {
                verdict(
                    acc,
                    case,
                    t,
                    "issued-token",
                    "token-accepted",
                    "end-user",
                    r.is_ok(),
                    &r.err()
                        .map(|e| format!("{} cred={:?} t-issue={} exp-issue={:?}", short_err(&e), case.cred, t - l, uat_exp.map(|x| x - l)))
                        .unwrap_or_default(),
                );
            }
        }
    }
}

fn probe_times(r: u64, vf: Option<u64>, ex: Option<u64>, rng: &mut Rng) -> Vec<u64> {
    let mut ts = vec![r, r + 1, r + rng.below(3000)];
    for b in [vf, ex].into_iter().flatten() {
        for d in [-86400i64, -600, -2, -1, 0, 1, 2, 600, 86400] {
            ts.push(b.saturating_add_signed(d));
        }
    }
    ts.sort();
    ts.dedup();
    ts
}

async fn person_case(w: &mut World, rng: &mut Rng, acc: &mut Acc, wi: usize, cred: Cred) {
    w.n += 1;
    w.t += 50;
    let (wname, ovf, oex) = WINDOWS[wi];
    let name = format!("c49p{}", w.n);
    let uuid = rng.uuid();
    macro_rules! setup {
        ($e:expr, $what:expr) => {
            match $e {
                Ok(x) => x,
                Err(e) => {
                    acc.inconclusive(&format!("case setup {}: {:?}", $what, e));
                    return;
                }
            }
        };
    }
    let ct = secs(w.t);
    setup!(w.sim.create_person(&name, uuid, true, ct).await, "create");
    let mut pw = gen_password(rng);
    let mut totp = None;
    match cred {
        Cred::Pw => {
            setup!(w.sim.set_credentials(uuid, ct, &pw, false, false, false).await, "creds");
        }
        Cred::PwTotp => {
            totp = setup!(w.sim.set_credentials(uuid, ct, &pw, true, false, false).await, "creds").totp;
        }
        Cred::GenPw => {
            let r = async {
                let mut wr = w.sim.idms.proxy_write(ct).await?;
                let p = wr.recover_account(&name, None)?;
                wr.commit()?;
                Ok::<_, OperationError>(p)
            }
            .await;
            pw = setup!(r, "recover_account");
        }
    }
    let upw = gen_password(rng);
    setup!(w.sim.set_unix_password(uuid, &upw, ct).await, "unix password");
    // RADIUS secret, generated by the user himself
    let radius_secret = {
        let ident = setup!(w.sim.ident_of(uuid).await, "ident");
        let r = async {
            let mut wr = w.sim.idms.proxy_write(ct).await?;
            let s = wr.regenerate_radius_secret(&RegenerateRadiusSecretEvent { ident, target: uuid })?;
            wr.commit()?;
            Ok::<_, OperationError>(s)
        }
        .await;
        match r {
            Ok(s) => Some(s),
            Err(e) => {
                acc.count("setup.radius_secret_refused");
                acc.observe("setup_refusals", &format!("regenerate_radius_secret: {}", short_err(&e)));
                None
            }
        }
    };
    // reference time; the login token is issued 100 s before it, while the account is unrestricted
    // (recover_account sets valid_from = now, which is in the past by then)
    w.t += 200;
    let r = w.t + 100;
    let l = w.t;
    let mut case = Case {
        name: name.clone(),
        uuid,
        cred,
        pw,
        totp,
        upw,
        radius_secret,
        vf: None,
        ex: None,
        wname,
        token: None,
        cert: None,
    };
    let (mech, creds) = match (&case.cred, &case.totp) {
        (Cred::PwTotp, Some(s)) => (
            AuthMech::PasswordTotp,
            vec![C::Totp(totp_at(s, l, 0).unwrap_or(0)), C::Password(case.pw.clone())],
        ),
        _ => (AuthMech::Password, vec![C::Password(case.pw.clone())]),
    };
    match w.sim.login(&name, false, mech, creds, secs(l)).await {
        Ok(tk) => {
            let d = w.sim.drain(secs(l)).await;
            if !d.errors.is_empty() {
                acc.inconclusive(&format!("drain: {:?}", d.errors));
            }
            case.token = Some((tk, l));
        }
        Err(e) => {
            acc.inconclusive(&format!("canonical login before the window is set failed: {e}"));
            return;
        }
    }
    // the client certificate now belongs to this account
    {
        let ce = rng.uuid();
        w.t += 1;
        match w.sim.bind_certificate(uuid, ce, w.cert_entry, secs(w.t)).await {
            Ok(c) => {
                w.cert_entry = Some(ce);
                case.cert = Some(c);
            }
            Err(e) => {
                acc.count("setup.certificate_binding_refused");
                acc.observe("setup_refusals", &format!("bind_certificate: {}", short_err(&e)));
            }
        }
    }
    // now write the window
    w.t += 5;
    let vf = ovf.map(|o| r.saturating_add_signed(o));
    let ex = oex.map(|o| r.saturating_add_signed(o));
    setup!(w.sim.set_validity(uuid, vf, ex, secs(w.t)).await, "set validity");
    case.vf = vf;
    case.ex = ex;
    acc.count(&format!("case.window.{wname}"));
    acc.count(&format!("case.cred.{cred:?}"));
    let times: Vec<u64> = probe_times(r, vf, ex, rng).into_iter().filter(|t| *t >= w.t).collect();
    let mut seen_out = false;
    let mut seen_in = false;
    for t in &times {
        match classify(vf, ex, *t) {
            Where::Outside(_) => seen_out = true,
            Where::Inside => seen_in = true,
            Where::Edge => {}
        }
        probe_all(w, &case, *t, acc).await;
    }
    if seen_out && seen_in {
        acc.nontrivial(&format!("{wname}|{cred:?}|{}", w.n));
    }
    // unjudged observation: an authentication session started inside and finished outside the window
    if let Some(x) = ex {
        if x > w.t + 5 && classify(vf, ex, x - 1) == Where::Inside && case.cred != Cred::PwTotp {
            let (sid, o1) = w
                .sim
                .auth_step(
                    None,
                    kanidm_proto::v1::AuthStep::Init(name.clone()),
                    secs(x - 1),
                    "init",
                )
                .await;
            if matches!(o1, StepOut::Choose(_)) {
                let _ = w
                    .sim
                    .auth_step(sid, kanidm_proto::v1::AuthStep::Begin(AuthMech::Password), secs(x - 1), "begin")
                    .await;
                let (_, o3) = w
                    .sim
                    .auth_step(
                        sid,
                        kanidm_proto::v1::AuthStep::Cred(C::Password(case.pw.clone())),
                        secs(x + 2),
                        "cred",
                    )
                    .await;
                let _ = w.sim.take_delayed();
                acc.count(&format!(
                    "unjudged.auth_session_begun_inside_finished_after_expire.{}",
                    o3.class()
                ));
            }
        }
    }
    if acc.samples.len() < 4 && w.n % 11 == 3 {
        acc.sample(json!({"account": name, "window": wname, "valid_from": vf, "expire": ex, "credential": format!("{cred:?}"), "asked_at": times}));
    }
    w.t = w.t.max(times.last().copied().unwrap_or(0).min(w.t + 30 * 86400)) + 100;
}

/// service account + API token
async fn service_case(w: &mut World, rng: &mut Rng, acc: &mut Acc, wi: usize) {
    w.n += 1;
    w.t += 50;
    let (wname, ovf, oex) = WINDOWS[wi];
    let name = format!("c49s{}", w.n);
    let uuid = rng.uuid();
    let ct = secs(w.t);
    if let Err(e) = w.sim.create_service_account(&name, uuid, ct).await {
        acc.inconclusive(&format!("svc create: {e:?}"));
        return;
    }
    let Ok(ident) = w.sim.ident_of(UUID_IDM_ADMIN).await else { return };
    let l = w.t;
    let r0 = async {
        let mut wr = w.sim.idms.proxy_write(ct).await?;
        let tok = wr.service_account_generate_api_token(
            &GenerateApiTokenEvent {
                ident,
                target: uuid,
                label: "t".into(),
                expiry: None,
                read_write: rng.bool(),
                compact: rng.bool(),
            },
            ct,
        )?;
        wr.commit()?;
        Ok::<_, OperationError>(tok)
    }
    .await;
    let tok = match r0 {
        Ok(t) => t,
        Err(e) => {
            acc.inconclusive(&format!("api token: {e:?}"));
            return;
        }
    };
    w.t += 300;
    let r = w.t + 100;
    w.t += 5;
    let vf = ovf.map(|o| r.saturating_add_signed(o));
    let ex = oex.map(|o| r.saturating_add_signed(o));
    if let Err(e) = w.sim.set_validity(uuid, vf, ex, secs(w.t)).await {
        acc.inconclusive(&format!("svc validity: {e:?}"));
        return;
    }
    let case = Case {
        name,
        uuid,
        cred: Cred::Pw,
        pw: String::new(),
        totp: None,
        upw: String::new(),
        radius_secret: None,
        vf,
        ex,
        wname,
        token: None,
        cert: None,
    };
    acc.count("case.service_account");
    let times: Vec<u64> = probe_times(r, vf, ex, rng).into_iter().filter(|t| *t >= l).collect();
    for t in &times {
        let res = w.sim.present(&tok, secs(*t)).await;
        verdict(
            acc,
            &case,
            *t,
            "api-token",
            "api-token-accepted",
            "service-account",
            res.is_ok(),
            &res.err().map(|e| short_err(&e)).unwrap_or_default(),
        );
    }
    w.t = w.t.max(times.last().copied().unwrap_or(0).min(w.t + 30 * 86400)) + 100;
}

/// The builtin anonymous account is an account like any other: it can be given a validity window
/// ("expired to prevent its use"). A token it was issued before must stop working outside the
/// window, and new anonymous logins must be refused. The window is opened again afterwards, because
/// the other cases use a fresh anonymous session as the POSIX client.
async fn anonymous_case(w: &mut World, rng: &mut Rng, acc: &mut Acc, wi: usize) {
    w.n += 1;
    w.t += 50;
    let (wname, ovf, oex) = WINDOWS[wi];
    if let Err(e) = w.sim.set_validity(UUID_ANONYMOUS, None, None, secs(w.t)).await {
        acc.inconclusive(&format!("anonymous validity reset: {e:?}"));
        return;
    }
    w.t += 2;
    let l = w.t;
    let tok = match w.sim.login("anonymous", false, AuthMech::Anonymous, vec![C::Anonymous], secs(w.t)).await {
        Ok(t) => t,
        Err(e) => {
            acc.observe("anonymous_case_login_failures", &e.chars().take(80).collect::<String>());
            return;
        }
    };
    let tok_exp = parse_uat(&tok).and_then(|u| u.expiry).map(|e| e.unix_timestamp() as u64);
    let _ = w.sim.drain(secs(w.t)).await;
    w.t += 20;
    let r = w.t + 100;
    w.t += 5;
    let vf = ovf.map(|o| r.saturating_add_signed(o));
    let ex = oex.map(|o| r.saturating_add_signed(o));
    if let Err(e) = w.sim.set_validity(UUID_ANONYMOUS, vf, ex, secs(w.t)).await {
        acc.inconclusive(&format!("anonymous validity: {e:?}"));
        return;
    }
    let case = Case {
        name: "anonymous".into(),
        uuid: UUID_ANONYMOUS,
        cred: Cred::Pw,
        pw: String::new(),
        totp: None,
        upw: String::new(),
        radius_secret: None,
        vf,
        ex,
        wname,
        token: None,
        cert: None,
    };
    acc.count("case.anonymous");
    // only while the token itself has not expired (a refusal after that says nothing)
    let times: Vec<u64> = probe_times(r, vf, ex, rng).into_iter().filter(|t| *t >= w.t && tok_exp.map(|e| *t + 5 < e).unwrap_or(true)).collect();
    let _ = l;
    for t in &times {
        let res = w.sim.present(&tok, secs(*t)).await;
        verdict(acc, &case, *t, "issued-token", "issued-token-accepted", "anonymous", res.is_ok(), &res.err().map(|e| short_err(&e)).unwrap_or_default());
        let res = w.sim.login("anonymous", false, AuthMech::Anonymous, vec![C::Anonymous], secs(*t)).await;
        verdict(acc, &case, *t, "interactive-login", "login", "anonymous", res.is_ok(), &res.err().unwrap_or_default());
        let _ = w.sim.drain(secs(*t)).await;
    }
    w.t = w.t.max(times.last().copied().unwrap_or(0)) + 100;
    if let Err(e) = w.sim.set_validity(UUID_ANONYMOUS, None, None, secs(w.t)).await {
        acc.inconclusive(&format!("anonymous validity reopen: {e:?}"));
    }
    w.anon_tok = None;
    w.t += 5;
}

/// The real LDAP front end reads the wall clock: windows are whole days away from now.
async fn ldap_frontend_profile(acc: &mut Acc, seed: u64) {
    let now = duration_from_epoch_now();
    let mut rng = Rng::new(kvcore::rng::mix(seed, 49, 49));
    let mut sim = match Sim::new(now - secs(3600)).await {
        Ok(s) => s,
        Err(e) => {
            acc.inconclusive(&e);
            return;
        }
    };
    sim.keep_log = false;
    let mut t = now.as_secs() - 1800;
    let r = async {
        sim.allow_password_only(secs(t)).await?;
        sim.set_ldap_unix_pw_bind(true, secs(t)).await
    }
    .await;
    if let Err(e) = r {
        acc.inconclusive(&format!("ldap profile setup: {e:?}"));
        return;
    }
    let ldaps = match LdapServer::new(&sim.idms).await {
        Ok(l) => l,
        Err(e) => {
            acc.inconclusive(&format!("ldap server: {e:?}"));
            return;
        }
    };
    let day = 86400u64;
    let n = now.as_secs();
    let windows: [(&str, Option<u64>, Option<u64>, bool); 6] = [
        ("open", None, None, true),
        ("bounded-current", Some(n - 2 * day), Some(n + 2 * day), true),
        ("expired", None, Some(n - day), false),
        ("bounded-past", Some(n - 9 * day), Some(n - 2 * day), false),
        ("not-yet", Some(n + 2 * day), None, false),
        ("bounded-future", Some(n + 2 * day), Some(n + 9 * day), false),
    ];
    let ip: std::net::IpAddr = std::net::IpAddr::V4(std::net::Ipv4Addr::new(127, 0, 0, 1));
    for (i, (wname, vf, ex, inside)) in windows.iter().enumerate() {
        t += 5;
        let name = format!("c49l{i}");
        let uuid = rng.uuid();
        let upw = gen_password(&mut rng);
        let r = async {
            sim.create_person(&name, uuid, true, secs(t)).await?;
            sim.set_unix_password(uuid, &upw, secs(t)).await
        }
        .await;
        if let Err(e) = r {
            acc.inconclusive(&format!("ldap profile account: {e:?}"));
            return;
        }
        // bind while unrestricted, keep the bound session
        let bind = |dn: String, pw: String| ServerOps::SimpleBind(SimpleBindRequest { msgid: 1, dn, pw });
        let r0 = ldaps
            .do_op(&sim.idms, bind(name.clone(), upw.clone()), None, ip, Uuid::new_v4())
            .await;
        let bound = match r0 {
            Ok(LdapResponseState::Bind(lbt, _)) => {
                acc.count("ldap_frontend.bind_unrestricted_ok");
                Some(lbt)
            }
            _ => {
                acc.count("ldap_frontend.bind_unrestricted_failed");
                None
            }
        };
        t += 1;
        if let Err(e) = sim.set_validity(uuid, *vf, *ex, secs(t)).await {
            acc.inconclusive(&format!("ldap profile validity: {e:?}"));
            return;
        }
        let case = Case {
            name: name.clone(),
            uuid,
            cred: Cred::Pw,
            pw: String::new(),
            totp: None,
            upw: upw.clone(),
            radius_secret: None,
            vf: *vf,
            ex: *ex,
            wname,
            token: None,
            cert: None,
        };
        let tnow = duration_from_epoch_now().as_secs();
        for dn in [name.clone(), format!("name={name},dc=example,dc=com"), format!("{name}@example.com")] {
            let r = ldaps
                .do_op(&sim.idms, bind(dn, upw.clone()), None, ip, Uuid::new_v4())
                .await;
            let ok = matches!(r, Ok(LdapResponseState::Bind(_, _)));
            verdict(
                acc,
                &case,
                tnow,
                "ldap-frontend-bind",
                "ldap-bind-succeeded",
                "end-user",
                ok,
                "LdapServer::do_op SimpleBind at wall-clock now",
            );
            let _ = inside;
        }
        // the session bound earlier keeps being checked
        if let Some(lbt) = bound {
            let sr = SearchRequest {
                msgid: 2,
                base: "dc=example,dc=com".to_string(),
                scope: LdapSearchScope::Subtree,
                filter: LdapFilter::Equality("name".to_string(), name.clone()),
                attrs: vec!["name".to_string()],
            };
            let r = ldaps
                .do_op(&sim.idms, ServerOps::Search(sr), Some(lbt), ip, Uuid::new_v4())
                .await;
            let served = matches!(r, Ok(LdapResponseState::MultiPartResponse(_)));
            verdict(
                acc,
                &case,
                tnow,
                "ldap-frontend-bound-session",
                "ldap-session-still-served",
                "end-user",
                served,
                "search on a session bound before the window was written",
            );
        }
    }
}

pub fn run(args: Args) {
    let rounds: u64 = args.tier.pick(10, 200);
    let mut run = Run::new(
        args.clone(),
        "exploration",
        "cases = 14 validity window templates (open, expired, not yet, bounded, boundaries seconds away, inverted) x {password, password+totp, generated password} persons with UNIX password and RADIUS secret, plus service accounts with API tokens, plus the builtin anonymous account (a token issued before the window is written, and new anonymous logins); every path asked at reference time and at each boundary -1 d, -10 min, -2 s, -1 s, 0, +1 s, +2 s, +10 min, +1 d by every asker; non-trivial case = asked both inside and outside the window; plus 6 wall-clock windows through the real LDAP front end",
    );
    run.assume("the RADIUS server is a service account in the builtin idm_radius_servers group, identified by its own API token; the POSIX client is the anonymous session");
    run.assume("LdapServer::do_op reads the wall clock; its windows are >= 1 day away from now, so the run time does not matter");
    run.assume("instants t == expire and t == valid_from are counted, not judged; OAuth2 paths are driven by idmsim2 (C39), not here");
    let seed = args.seed;
    run.parallel(args.workers, |wk, n| {
        let mut acc = Acc::new();
        let rt = kvcore::srv::rt();
        rt.block_on(async {
            if wk == 0 {
                ldap_frontend_profile(&mut acc, seed).await;
            }
            let mut rng = Rng::new(kvcore::rng::mix(seed, wk as u64, 49));
            let mut sim = match Sim::new(T0).await {
                Ok(s) => s,
                Err(e) => {
                    acc.inconclusive(&e);
                    return;
                }
            };
            sim.keep_log = false;
            let t = T0.as_secs() + 100;
            let rsvc = rng.uuid();
            let r = async {
                sim.allow_password_only(secs(t)).await?;
                sim.set_ldap_unix_pw_bind(true, secs(t)).await?;
                sim.create_service_account(&format!("radiusd{wk}"), rsvc, secs(t)).await?;
                sim.add_member(UUID_IDM_RADIUS_SERVERS, rsvc, secs(t)).await?;
                let ident = sim.ident_of(UUID_IDM_ADMIN).await?;
                let mut wr = sim.idms.proxy_write(secs(t)).await?;
                let tok = wr.service_account_generate_api_token(
                    &GenerateApiTokenEvent {
                        ident,
                        target: rsvc,
                        label: "radius".into(),
                        expiry: None,
                        read_write: false,
                        compact: false,
                    },
                    secs(t),
                )?;
                wr.commit()?;
                Ok::<_, OperationError>(tok)
            }
            .await;
            let radius_api = match r {
                Ok(t) => t,
                Err(e) => {
                    acc.inconclusive(&format!("setup: {e:?}"));
                    return;
                }
            };
            let mut world = World {
                sim,
                t: t + 10,
                n: 0,
                radius_api,
                anon_tok: None,
                cert_entry: None,
            };
            // grid: window x credential, round-robin over workers, repeated `rounds` times with
            // different random extras
            let creds = [Cred::Pw, Cred::PwTotp, Cred::GenPw];
            let mut idx = 0u64;
            for _round in 0..rounds {
                for wi in 0..WINDOWS.len() {
                    for c in creds {
                        if idx % n as u64 == wk as u64 {
                            person_case(&mut world, &mut rng, &mut acc, wi, c).await;
                        }
                        idx += 1;
                    }
                    if idx % n as u64 == wk as u64 {
                        service_case(&mut world, &mut rng, &mut acc, wi).await;
                    }
                    idx += 1;
                    if idx % n as u64 == wk as u64 {
                        anonymous_case(&mut world, &mut rng, &mut acc, wi).await;
                    }
                    idx += 1;
                }
            }
        });
        acc
    });
    run.extra("rounds", json!(rounds));
    let mut need: Vec<String> = Vec::new();
    for p in [
        "interactive-login.end-user",
        "ldap-bind.end-user",
        "unix-password-check.posix-client-anonymous",
        "unix-password-check.idm-admin",
        "radius-secret.radius-server",
        "radius-secret.end-user",
        "issued-token.end-user",
        "client-certificate.end-user",
        "api-token.service-account",
        "issued-token.anonymous",
        "interactive-login.anonymous",
        "ldap-frontend-bind.end-user",
        "ldap-frontend-bound-session.end-user",
    ] {
        need.push(format!("success_inside.{p}"));
    }
    for p in [
        "interactive-login.end-user",
        "ldap-bind.end-user",
        "unix-password-check.posix-client-anonymous",
        "issued-token.end-user",
        "client-certificate.end-user",
        "api-token.service-account",
        "issued-token.anonymous",
        "interactive-login.anonymous",
        "ldap-frontend-bind.end-user",
        "ldap-frontend-bound-session.end-user",
    ] {
        need.push(format!("refused_outside.{p}"));
    }
    need.push("refused_outside.side.before-valid-from".into());
    need.push("refused_outside.side.after-expire".into());
    for key in need {
        let seen = run.acc.get(&key) > 0;
        run.require(seen, &format!("never observed: {key}"));
    }
    // the RADIUS path must at least have been ASKED outside the window by the service identity
    let asked = run.acc.get("refused_outside.radius-secret.radius-server")
        + run
            .acc
            .violations
            .iter()
            .filter(|v| v.signature == "c49/radius-secret-released-outside-validity/asker=radius-server")
            .count() as u64;
    run.require(asked > 0, "RADIUS path never asked outside the window as the RADIUS server");
    // positive controls: nothing may be refused well inside the window
    let failed: u64 = run
        .acc
        .counters
        .iter()
        .filter(|(k, _)| k.starts_with("control_failed_inside."))
        .map(|(_, v)| *v)
        .sum();
    run.require(
        failed == 0,
        &format!("{failed} positive controls inside the validity window were refused (see observed_sets.control_failures)"),
    );
    run.finish();
}

#[allow(dead_code)]
fn _unused(_: Json) {}
