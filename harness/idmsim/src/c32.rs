//! C32 Bearer tokens are accepted only for live sessions.
//!
//! Workload: random histories (fresh server each) of interactive logins (password, password+TOTP,
//! anonymous), API token issue (classic and compact, ro/rw, with/without expiry), draining of the
//! delayed session-record queue (all / one / none), session destruction, API token destruction,
//! credential replacement, validity changes, account deletion, domain key revocation and rotation and
//! jumps of simulated time chosen around the grace window and the token lifetimes. After EVERY event
//! every token ever issued is presented to `validate_client_auth_info_to_ident`.
//!
//! Oracle (necessary conditions, from the harness's event log + the directory dump of the account):
//! accepted ⇒ the signing key id was not revoked, t ≤ expiry, the account exists and t lies inside its
//! validity window, the identity is the token's account, and for login tokens (not anonymous):
//! no successful revocation of that session happened, and (t inside the grace window after issue OR
//! the account carries a session record with that id, not revoked, with the token's expiry);
//! API token accepted ⇒ its session record is on the account (or t inside the grace window: counted,
//! not judged).

use crate::sim::*;
use compact_jwt::JwsCompact;
use kanidm_proto::constants::AUTH_TOKEN_GRACE_WINDOW;
use kanidm_proto::v1::{AuthCredential as C, AuthMech};
use kanidmd_lib::idm::account::DestroySessionTokenEvent;
use kanidmd_lib::idm::delayed::DelayedAction;
use kanidmd_lib::idm::serviceaccount::{DestroyApiTokenEvent, GenerateApiTokenEvent};
use kanidmd_lib::prelude::*;
use kvcore::{Acc, Args, Rng, Run};
use serde_json::{json, Value as Json};
use std::collections::{BTreeMap, BTreeSet};

struct Acct {
    name: String,
    uuid: Uuid,
    service: bool,
    anonymous: bool,
    pw: String,
    totp: Option<kanidm_proto::internal::TotpSecret>,
    exists: bool,
    vf: Option<u64>,
    ex: Option<u64>,
}

#[derive(Clone, Copy, PartialEq, Eq, Debug)]
enum Kind {
    Uat,
    UatAnon,
    Api,
}

struct Tok {
    jws: JwsCompact,
    kind: Kind,
    acct: usize,
    issued: u64,
    expiry: Option<u64>,
    kid: String,
    session: Uuid,
    /// a destroy call for this session returned Ok at this time
    revoked_by_event: Option<u64>,
    label: String,
    /// observation flags for the non-triviality rule
    seen_accept_unrecorded: bool,
    seen_accept_recorded: bool,
    seen_reject: bool,
}

struct Hist {
    sim: Sim,
    accts: Vec<Acct>,
    toks: Vec<Tok>,
    revoked_kids: BTreeSet<String>,
    t: u64,
    events: Vec<Json>,
    pending: Vec<DelayedAction>,
}

fn rfc3339_secs(s: &str) -> Option<i64> {
    time::OffsetDateTime::parse(s, &Rfc3339).ok().map(|o| o.unix_timestamp())
}

impl Hist {
    fn note(&mut self, what: &str, detail: Json, result: String) {
        self.events
            .push(json!({"t": self.t, "event": what, "detail": detail, "result": result}));
    }

    async fn login(&mut self, ai: usize, privileged: bool, acc: &mut Acc) {
        let ct = secs(self.t);
        let a = &self.accts[ai];
        let (mech, creds) = if a.anonymous {
            (AuthMech::Anonymous, vec![C::Anonymous])
        } else if let Some(s) = &a.totp {
            (
                AuthMech::PasswordTotp,
                vec![C::Totp(totp_at(s, self.t, 0).unwrap_or(0)), C::Password(a.pw.clone())],
            )
        } else {
            (AuthMech::Password, vec![C::Password(a.pw.clone())])
        };
        let name = a.name.clone();
        let anonymous = a.anonymous;
        let r = self.sim.login(&name, privileged, mech, creds, ct).await;
        match r {
            Ok(jws) => {
                let Some(uat) = parse_uat(&jws) else {
                    acc.inconclusive("issued token is not a parsable UserAuthToken");
                    return;
                };
                acc.count(if anonymous { "event.login_anonymous.ok" } else { "event.login.ok" });
                let label = format!("uat#{}", self.toks.len());
                self.note("login", json!({"account": name, "token": label}), "token".into());
                self.toks.push(Tok {
                    kid: kid_of(&jws),
                    jws,
                    kind: if anonymous { Kind::UatAnon } else { Kind::Uat },
                    acct: ai,
                    issued: self.t,
                    expiry: uat.expiry.map(|e| e.unix_timestamp() as u64),
                    session: uat.session_id,
                    revoked_by_event: None,
                    label,
                    seen_accept_unrecorded: false,
                    seen_accept_recorded: false,
                    seen_reject: false,
                });
            }
            Err(e) => {
                acc.count("event.login.refused");
                self.note("login", json!({"account": name}), e);
            }
        }
        // keep whatever the server queued; it is applied only by a drain event
        let mut q = self.sim.take_delayed();
        self.pending.append(&mut q);
    }

    async fn drain(&mut self, how: u64, acc: &mut Acc) {
        let mut q = self.sim.take_delayed();
        self.pending.append(&mut q);
        if self.pending.is_empty() {
            return;
        }
        let take: Vec<DelayedAction> = if how == 0 {
            std::mem::take(&mut self.pending)
        } else {
            vec![self.pending.remove(0)]
        };
        let n = take.len();
        let d = self.sim.apply_delayed(take, secs(self.t)).await;
        acc.count_n("event.drain.applied", n as u64);
        acc.count_n("event.drain.errors", d.errors.len() as u64);
        self.note("drain", json!({"actions": n}), format!("errors={:?}", d.errors));
    }

    async fn issue_api(&mut self, ai: usize, rng: &mut Rng, acc: &mut Acc) {
        let ct = secs(self.t);
        let expiry = match rng.below(4) {
            0 => None,
            1 => Some(self.t + 60),
            2 => Some(self.t + 3600),
            _ => Some(self.t + 100_000),
        };
        let rw = rng.bool();
        let compact = rng.bool();
        let ident = match self.sim.ident_of(UUID_IDM_ADMIN).await {
            Ok(i) => i,
            Err(_) => return,
        };
        let gte = GenerateApiTokenEvent {
            ident,
            target: self.accts[ai].uuid,
            label: format!("tok{}", self.toks.len()),
            expiry: expiry.map(odt),
            read_write: rw,
            compact,
        };
        let r = async {
            let mut w = self.sim.idms.proxy_write(ct).await?;
            let tok = w.service_account_generate_api_token(&gte, ct)?;
            w.commit()?;
            Ok::<_, OperationError>(tok)
        }
        .await;
        match r {
            Ok(jws) => {
                let session = if compact {
                    jws_payload(&jws).and_then(|p| Uuid::from_slice(&p).ok())
                } else {
                    parse_apit(&jws).map(|a| a.token_id)
                };
                let Some(session) = session else {
                    acc.inconclusive("issued API token is not parsable");
                    return;
                };
                acc.count(if compact { "event.api_issue.compact" } else { "event.api_issue.classic" });
                let label = format!("api#{}", self.toks.len());
                self.note(
                    "issue_api_token",
                    json!({"account": self.accts[ai].name, "token": label, "expiry": expiry, "rw": rw, "compact": compact}),
                    "token".into(),
                );
                self.toks.push(Tok {
                    kid: kid_of(&jws),
                    jws,
                    kind: Kind::Api,
                    acct: ai,
                    issued: self.t,
                    expiry,
                    session,
                    revoked_by_event: None,
                    label,
                    seen_accept_unrecorded: false,
                    seen_accept_recorded: false,
                    seen_reject: false,
                });
            }
            Err(e) => {
                acc.count("event.api_issue.refused");
                self.note("issue_api_token", json!({"account": self.accts[ai].name}), format!("{e:?}"));
            }
        }
    }

    async fn destroy(&mut self, ti: usize, acc: &mut Acc) {
        let ct = secs(self.t);
        let (kind, acct_uuid, session, label) = {
            let t = &self.toks[ti];
            (t.kind, self.accts[t.acct].uuid, t.session, t.label.clone())
        };
        let r = async {
            match kind {
                Kind::Uat => {
                    let ident = self.sim.ident_of(acct_uuid).await?;
                    let mut w = self.sim.idms.proxy_write(ct).await?;
                    w.account_destroy_session_token(&DestroySessionTokenEvent {
                        ident,
                        target: acct_uuid,
                        token_id: session,
                    })?;
                    w.commit()
                }
                Kind::Api => {
                    let ident = self.sim.ident_of(UUID_IDM_ADMIN).await?;
                    let mut w = self.sim.idms.proxy_write(ct).await?;
                    w.service_account_destroy_api_token(&DestroyApiTokenEvent {
                        ident,
                        target: acct_uuid,
                        token_id: session,
                    })?;
                    w.commit()
                }
                Kind::UatAnon => Err(OperationError::InvalidState),
            }
        }
        .await;
        match &r {
            Ok(()) => {
                acc.count(if kind == Kind::Api { "event.destroy_api.ok" } else { "event.destroy_session.ok" });
                let now = self.t;
                for tk in self.toks.iter_mut().filter(|tk| tk.session == session) {
                    if tk.revoked_by_event.is_none() {
                        tk.revoked_by_event = Some(now);
                    }
                }
            }
            Err(_) => acc.count("event.destroy.refused"),
        }
        self.note("destroy_session", json!({"token": label}), format!("{r:?}"));
    }

    /// Re-authenticate an existing session: the re-issued token shares the session id.
    async fn reauth(&mut self, ti: usize, rng: &mut Rng, acc: &mut Acc) {
        let ct = secs(self.t);
        let jws = self.toks[ti].jws.clone();
        let ai = self.toks[ti].acct;
        let ident = match self.sim.present_ident(&jws, ct).await {
            Ok(i) => i,
            Err(_) => {
                acc.count("event.reauth.source_token_refused");
                return;
            }
        };
        let a = &self.accts[ai];
        let creds = match &a.totp {
            Some(s) => vec![C::Totp(totp_at(s, self.t, 0).unwrap_or(0)), C::Password(a.pw.clone())],
            None => vec![C::Password(a.pw.clone())],
        };
        let grant = rng.bool();
        let src = self.toks[ti].label.clone();
        match self.sim.reauth(ident, grant, creds, ct).await {
            Ok(j2) => {
                let Some(uat) = parse_uat(&j2) else { return };
                acc.count("event.reauth.ok");
                let label = format!("uat#{}", self.toks.len());
                self.note("reauth", json!({"from": src, "token": label, "grant_rw": grant}), "token".into());
                let revoked_by_event = self.toks[ti].revoked_by_event;
                self.toks.push(Tok {
                    kid: kid_of(&j2),
                    jws: j2,
                    kind: Kind::Uat,
                    acct: ai,
                    issued: self.t,
                    expiry: uat.expiry.map(|e| e.unix_timestamp() as u64),
                    session: uat.session_id,
                    revoked_by_event,
                    label,
                    seen_accept_unrecorded: false,
                    seen_accept_recorded: false,
                    seen_reject: false,
                });
            }
            Err(e) => {
                acc.count("event.reauth.refused");
                self.note("reauth", json!({"from": src}), e);
            }
        }
        let mut q = self.sim.take_delayed();
        self.pending.append(&mut q);
    }

    async fn replace_cred(&mut self, ai: usize, rng: &mut Rng, acc: &mut Acc) {
        let ct = secs(self.t);
        let pw = gen_password(rng);
        let totp = self.accts[ai].totp.is_some();
        let r = self
            .sim
            .set_credentials(self.accts[ai].uuid, ct, &pw, totp, false, true)
            .await;
        match r {
            Ok(out) => {
                acc.count("event.replace_credential.ok");
                self.accts[ai].pw = pw;
                if totp {
                    self.accts[ai].totp = out.totp;
                }
                self.note("replace_credential", json!({"account": self.accts[ai].name}), "Ok".into());
            }
            Err(e) => {
                acc.count("event.replace_credential.refused");
                self.note("replace_credential", json!({"account": self.accts[ai].name}), format!("{e:?}"));
            }
        }
    }

    async fn change_validity(&mut self, ai: usize, rng: &mut Rng, acc: &mut Acc) {
        let t = self.t;
        let (vf, ex) = match rng.below(7) {
            0 => (None, None),
            1 => (None, Some(t - 10)),
            2 => (None, Some(t + rng.range(1, 400))),
            3 => (Some(t + rng.range(1, 400)), None),
            4 => (Some(t - 1000), Some(t + rng.range(100, 100_000))),
            5 => (Some(t - 5), None),
            _ => (None, Some(t.saturating_sub(rng.range(100, 100_000)))),
        };
        let r = self.sim.set_validity(self.accts[ai].uuid, vf, ex, secs(t)).await;
        if r.is_ok() {
            acc.count("event.change_validity.ok");
            self.accts[ai].vf = vf;
            self.accts[ai].ex = ex;
        } else {
            acc.count("event.change_validity.refused");
        }
        self.note(
            "change_validity",
            json!({"account": self.accts[ai].name, "valid_from": vf, "expire": ex}),
            format!("{r:?}"),
        );
    }

    async fn key_action(&mut self, revoke: bool, rng: &mut Rng, acc: &mut Acc) {
        let ct = secs(self.t);
        if revoke {
            let kids: Vec<String> = self
                .toks
                .iter()
                .map(|t| t.kid.clone())
                .filter(|k| !k.is_empty() && !self.revoked_kids.contains(k))
                .collect::<BTreeSet<_>>()
                .into_iter()
                .collect();
            if kids.is_empty() {
                return;
            }
            let kid = rng.pick(&kids).clone();
            let r = async {
                let mut w = self.sim.idms.proxy_write(ct).await?;
                w.qs_write.internal_modify_uuid(
                    UUID_DOMAIN_INFO,
                    &ModifyList::new_append(Attribute::KeyActionRevoke, Value::HexString(kid.clone())),
                )?;
                w.commit()
            }
            .await;
            if r.is_ok() {
                acc.count("event.key_revoke.ok");
                self.revoked_kids.insert(kid.clone());
            } else {
                acc.count("event.key_revoke.refused");
            }
            self.note("revoke_key", json!({"kid": kid}), format!("{r:?}"));
        } else {
            let at = self.t + *rng.pick(&[0u64, 1, 60]);
            let r = async {
                let mut w = self.sim.idms.proxy_write(ct).await?;
                w.qs_write.internal_modify_uuid(
                    UUID_DOMAIN_INFO,
                    &ModifyList::new_append(Attribute::KeyActionRotate, Value::new_datetime_epoch(secs(at))),
                )?;
                w.commit()
            }
            .await;
            acc.count(if r.is_ok() { "event.key_rotate.ok" } else { "event.key_rotate.refused" });
            self.note("rotate_key", json!({"at": at}), format!("{r:?}"));
        }
    }

    async fn delete_account(&mut self, ai: usize, acc: &mut Acc) {
        let r = self.sim.delete_entry(self.accts[ai].uuid, secs(self.t)).await;
        if r.is_ok() {
            acc.count("event.delete_account.ok");
            self.accts[ai].exists = false;
        }
        self.note("delete_account", json!({"account": self.accts[ai].name}), format!("{r:?}"));
    }

    /// Present every token now and judge.
    async fn present_all(&mut self, acc: &mut Acc, after: &str) {
        let t = self.t;
        let ct = secs(t);
        let grace = AUTH_TOKEN_GRACE_WINDOW.as_secs();
        let mut dumps: BTreeMap<usize, Option<Json>> = BTreeMap::new();
        for ti in 0..self.toks.len() {
            let r = self.sim.present(&self.toks[ti].jws.clone(), ct).await;
            acc.eval();
            let ai = self.toks[ti].acct;
            if !dumps.contains_key(&ai) {
                let d = self.sim.dump_entry(self.accts[ai].uuid).await;
                dumps.insert(ai, d);
            }
            let dump = dumps.get(&ai).cloned().flatten();
            let tok = &self.toks[ti];
            let a = &self.accts[ai];
            let kname = match tok.kind {
                Kind::Uat => "uat",
                Kind::UatAnon => "anonymous",
                Kind::Api => "api",
            };
            let in_grace = t < tok.issued + grace;
            // what the directory shows for this session
            let (rec_present, rec_revoked, rec_expiry_matches) = match (&dump, tok.kind) {
                (Some(e), Kind::Uat) => {
                    let ss = dump_sessions(e);
                    match ss.iter().find(|s| s.id == tok.session.to_string()) {
                        Some(s) => {
                            let m = match (s.state.as_str(), tok.expiry) {
                                ("expires", Some(x)) => {
                                    s.state_val.as_str().and_then(rfc3339_secs) == Some(x as i64)
                                }
                                ("never", None) => true,
                                _ => false,
                            };
                            (true, s.state == "revoked", m)
                        }
                        None => (false, false, false),
                    }
                }
                (Some(e), Kind::Api) => (
                    dump_api_tokens(e).iter().any(|u| *u == tok.session.to_string()),
                    false,
                    true,
                ),
                _ => (false, false, false),
            };
            match r {
                Ok((uuid, _scope, _sid)) => {
                    acc.count(&format!("accepted.{kname}"));
                    let mut bad: Vec<(String, String)> = Vec::new();
                    if uuid != a.uuid {
                        bad.push((
                            format!("c32/accepted-as-other-account/{kname}"),
                            "the identity returned is not the account the token was issued to".into(),
                        ));
                    }
                    if self.revoked_kids.contains(&tok.kid) {
                        bad.push((
                            format!("c32/accepted-with-revoked-key/{kname}"),
                            format!("key id {} was revoked earlier in this history", tok.kid),
                        ));
                    }
                    if let Some(x) = tok.expiry {
                        if t > x {
                            bad.push((
                                format!("c32/accepted-after-expiry/{kname}"),
                                format!("t={t} is after the token expiry {x}"),
                            ));
                        } else if t == x {
                            acc.count(&format!("unjudged.accepted_at_exact_expiry_instant.{kname}"));
                        }
                    }
                    if !a.exists {
                        bad.push((
                            format!("c32/accepted-for-deleted-account/{kname}"),
                            "the account was deleted earlier in this history".into(),
                        ));
                    }
                    if let Some(vf) = a.vf {
                        if t < vf {
                            bad.push((
                                format!("c32/accepted-before-valid-from/{kname}"),
                                format!("t={t} < valid_from={vf}"),
                            ));
                        }
                    }
                    if let Some(ex) = a.ex {
                        if t > ex {
                            bad.push((
                                format!("c32/accepted-after-account-expiry/{kname}"),
                                format!("t={t} > expire={ex}"),
                            ));
                        } else if t == ex {
                            acc.count("unjudged.accepted_at_exact_account_expire_instant");
                        }
                    }
                    match tok.kind {
                        Kind::Uat => {
                            if tok.revoked_by_event.is_some() || rec_revoked {
                                bad.push((
                                    format!(
                                        "c32/accepted-revoked-session/{}",
                                        if in_grace { "inside-grace" } else { "after-grace" }
                                    ),
                                    "the session was revoked (destroy call returned Ok, or the record on the account is in revoked state)".into(),
                                ));
                            } else if !in_grace {
                                if !rec_present {
                                    bad.push((
                                        "c32/accepted-after-grace-without-session-record".into(),
                                        format!("issued {} , grace {grace}s over, account has no record of session {}", tok.issued, tok.session),
                                    ));
                                } else if !rec_expiry_matches {
                                    bad.push((
                                        "c32/accepted-with-mismatching-session-expiry".into(),
                                        "the session record's expiry differs from the token's".into(),
                                    ));
                                }
                            }
                            if rec_present {
                                acc.count("accepted.uat.recorded");
                                self.toks[ti].seen_accept_recorded = true;
                                if in_grace {
                                    acc.count("accepted.uat.recorded_inside_grace");
                                } else {
                                    acc.count("accepted.uat.recorded_after_grace");
                                }
                            } else {
                                acc.count("accepted.uat.grace_unrecorded");
                                self.toks[ti].seen_accept_unrecorded = true;
                            }
                        }
                        Kind::Api => {
                            if !rec_present {
                                if in_grace {
                                    acc.count("unjudged.api_accepted_inside_grace_without_record");
                                } else {
                                    bad.push((
                                        "c32/api-token-accepted-without-session-record".into(),
                                        "grace over and the service account has no record of this token".into(),
                                    ));
                                }
                            } else {
                                acc.count("accepted.api.recorded");
                                self.toks[ti].seen_accept_recorded = true;
                            }
                        }
                        Kind::UatAnon => {}
                    }
                    let tok = &self.toks[ti];
                    for (sig, why) in bad {
                        acc.violation(
                            &sig,
                            json!({
                                "why": why,
                                "presented_at": t,
                                "after_event": after,
                                "token": {"label": tok.label, "kind": kname, "issued": tok.issued, "expiry": tok.expiry,
                                          "kid": tok.kid, "session": tok.session.to_string(),
                                          "revoked_by_destroy_at": tok.revoked_by_event},
                                "account": {"name": a.name, "exists": a.exists, "valid_from": a.vf, "expire": a.ex},
                                "directory": {"session_record_present": rec_present, "record_revoked": rec_revoked, "record_expiry_matches": rec_expiry_matches},
                                "history": self.events,
                            }),
                        );
                    }
                }
                Err(e) => {
                    // explain the refusal from the model where possible (counted, never judged)
                    let why = if self.revoked_kids.contains(&tok.kid) {
                        "key_revoked"
                    } else if tok.expiry.map(|x| t >= x).unwrap_or(false) {
                        "expired"
                    } else if !a.exists {
                        "account_deleted"
                    } else if a.vf.map(|v| t <= v).unwrap_or(false) || a.ex.map(|x| t >= x).unwrap_or(false) {
                        "outside_validity"
                    } else if tok.revoked_by_event.is_some() || rec_revoked {
                        "session_revoked"
                    } else if tok.kind != Kind::UatAnon && !rec_present && !in_grace {
                        "no_record_after_grace"
                    } else if tok.kind == Kind::Uat && rec_present && !rec_expiry_matches {
                        "record_expiry_mismatch"
                    } else {
                        "unexplained"
                    };
                    acc.count(&format!("rejected.{kname}.{why}"));
                    if why == "unexplained" {
                        acc.observe(
                            "unexplained_rejections",
                            &format!("{kname} after {after}: {}", short_err(&e)),
                        );
                    }
                    self.toks[ti].seen_reject = true;
                }
            }
        }
    }
}

async fn one_history(seed: u64, acc: &mut Acc, nevents: usize) {
    let mut rng = Rng::new(seed);
    let sim = match Sim::new(T0).await {
        Ok(s) => s,
        Err(e) => {
            acc.inconclusive(&e);
            return;
        }
    };
    let mut h = Hist {
        sim,
        accts: Vec::new(),
        toks: Vec::new(),
        revoked_kids: BTreeSet::new(),
        t: T0.as_secs() + 50 + rng.below(100_000),
        events: Vec::new(),
        pending: Vec::new(),
    };
    h.sim.keep_log = false;
    if let Err(e) = h.sim.allow_password_only(secs(h.t)).await {
        acc.inconclusive(&format!("setup: {e:?}"));
        return;
    }
    // two persons and a service account, plus anonymous
    for (i, totp) in [(0, false), (1, true)] {
        let name = format!("p{i}x{}", rng.below(10_000));
        let uuid = rng.uuid();
        let pw = gen_password(&mut rng);
        h.t += 3;
        if let Err(e) = h.sim.create_person(&name, uuid, false, secs(h.t)).await {
            acc.inconclusive(&format!("setup create: {e:?}"));
            return;
        }
        let out = match h.sim.set_credentials(uuid, secs(h.t), &pw, totp, false, false).await {
            Ok(o) => o,
            Err(e) => {
                acc.inconclusive(&format!("setup creds: {e:?}"));
                return;
            }
        };
        h.accts.push(Acct {
            name,
            uuid,
            service: false,
            anonymous: false,
            pw,
            totp: out.totp,
            exists: true,
            vf: None,
            ex: None,
        });
    }
    {
        let name = format!("svc{}", rng.below(10_000));
        let uuid = rng.uuid();
        h.t += 3;
        if let Err(e) = h.sim.create_service_account(&name, uuid, secs(h.t)).await {
            acc.inconclusive(&format!("setup svc: {e:?}"));
            return;
        }
        h.accts.push(Acct {
            name,
            uuid,
            service: true,
            anonymous: false,
            pw: String::new(),
            totp: None,
            exists: true,
            vf: None,
            ex: None,
        });
    }
    h.accts.push(Acct {
        name: "anonymous".into(),
        uuid: UUID_ANONYMOUS,
        service: false,
        anonymous: true,
        pw: String::new(),
        totp: None,
        exists: true,
        vf: None,
        ex: None,
    });
    h.t += 10;

    for step in 0..nevents {
        // front-load token creation
        let w: [u32; 13] = if step < 4 {
            [40, 8, 6, 30, 0, 0, 0, 0, 0, 0, 16, 0, 0]
        } else {
            [16, 3, 10, 8, 7, 4, 4, 7, 1, 2, 36, 2, 4]
        };
        let after;
        match rng.weighted(&w) {
            0 => {
                let ai = rng.usize(2);
                let privileged = rng.bool();
                h.login(ai, privileged, acc).await;
                if rng.chance(1, 3) {
                    h.drain(0, acc).await;
                }
                after = "login";
            }
            1 => {
                h.login(3, false, acc).await;
                after = "login_anonymous";
            }
            2 => {
                let how = rng.below(2);
                h.drain(how, acc).await;
                after = "drain";
            }
            3 => {
                h.issue_api(2, &mut rng, acc).await;
                after = "issue_api_token";
            }
            4 => {
                let c: Vec<usize> = (0..h.toks.len()).filter(|i| h.toks[*i].kind == Kind::Uat).collect();
                if c.is_empty() {
                    continue;
                }
                let ti = *rng.pick(&c);
                h.destroy(ti, acc).await;
                after = "destroy_session";
            }
            5 => {
                let c: Vec<usize> = (0..h.toks.len()).filter(|i| h.toks[*i].kind == Kind::Api).collect();
                if c.is_empty() {
                    continue;
                }
                let ti = *rng.pick(&c);
                h.destroy(ti, acc).await;
                after = "destroy_api_token";
            }
            6 => {
                let ai = rng.usize(2);
                if !h.accts[ai].exists {
                    continue;
                }
                h.replace_cred(ai, &mut rng, acc).await;
                after = "replace_credential";
            }
            7 => {
                let ai = rng.usize(4);
                if !h.accts[ai].exists {
                    continue;
                }
                h.change_validity(ai, &mut rng, acc).await;
                after = "change_validity";
            }
            8 => {
                h.key_action(true, &mut rng, acc).await;
                after = "revoke_key";
            }
            9 => {
                h.key_action(false, &mut rng, acc).await;
                after = "rotate_key";
            }
            10 => {
                let d = *rng.pick(&[
                    1u64, 7, 30, 59, 60, 61, 120, 280, 299, 300, 301, 310, 299, 300, 301, 600, 900, 1800, 3599,
                    3600, 3601, 7200, 40_000, 86_399, 86_401,
                ]);
                h.t += d;
                h.note("advance_time", json!({"by": d}), String::new());
                acc.count("event.advance_time");
                after = "advance_time";
            }
            11 => {
                let ai = rng.usize(3);
                if !h.accts[ai].exists {
                    continue;
                }
                h.delete_account(ai, acc).await;
                after = "delete_account";
            }
            _ => {
                let c: Vec<usize> = (0..h.toks.len()).filter(|i| h.toks[*i].kind == Kind::Uat).collect();
                if c.is_empty() {
                    continue;
                }
                let ti = *rng.pick(&c);
                h.reauth(ti, &mut rng, acc).await;
                after = "reauth";
            }
        }
        h.present_all(acc, after).await;
        // events themselves take a second
        h.t += 1;
    }
    // non-trivial: a token that was seen accepted both before its record existed (grace) and with
    // the record, or accepted and later rejected
    for t in &h.toks {
        if (t.seen_accept_unrecorded || t.seen_accept_recorded) && t.seen_reject {
            acc.count("tokens.accepted_then_rejected");
        }
        if t.seen_accept_unrecorded && t.seen_accept_recorded {
            acc.count("tokens.accepted_unrecorded_and_recorded");
        }
    }
    let key = h
        .events
        .iter()
        .map(|e| format!("{}@{}", e["event"].as_str().unwrap_or(""), e["t"]))
        .collect::<Vec<_>>()
        .join("|");
    if h.toks.iter().any(|t| (t.seen_accept_unrecorded || t.seen_accept_recorded) && t.seen_reject) {
        acc.nontrivial(&key);
    }
    if acc.samples.len() < 3 {
        acc.sample(json!({"history": h.events, "tokens": h.toks.iter().map(|t| json!({"label": t.label, "issued": t.issued, "expiry": t.expiry})).collect::<Vec<_>>()}));
    }
    let _ = h.accts.iter().filter(|a| a.service).count();
}

pub fn run(args: Args) {
    let histories: u64 = args.tier.pick(160, 2400);
    let nevents: usize = 36;
    let mut run = Run::new(
        args.clone(),
        "exploration",
        "random histories of 36 events over {login pw / pw+totp / anonymous, re-authentication, API token issue classic/compact, drain all/one, destroy session, destroy API token, replace credential, change validity, revoke key, rotate key, time jumps around 5 min / 1 h / 1 day, delete account}; every issued token presented after every event; non-trivial history = some token was both accepted and later rejected; distinct by the event/time list",
    );
    run.assume("the grace window is kanidm_proto::constants::AUTH_TOKEN_GRACE_WINDOW (5 min); the statement only says 'short'");
    run.assume("key ids are read from the JWS header of the token itself; expiry / session id from the token body");
    run.assume("presentations at the exact expiry instant (token or account) are counted, not judged: the statement does not fix the boundary");
    let seed = args.seed;
    run.parallel(args.workers, |w, n| {
        let mut acc = Acc::new();
        let rt = kvcore::srv::rt();
        rt.block_on(async {
            let mut i = w as u64;
            while i < histories {
                one_history(kvcore::rng::mix(seed, i, 32), &mut acc, nevents).await;
                acc.count("histories");
                i += n as u64;
            }
        });
        acc
    });
    run.extra("histories", json!(histories));
    for key in [
        "accepted.uat.grace_unrecorded",
        "accepted.uat.recorded_inside_grace",
        "accepted.uat.recorded_after_grace",
        "accepted.api.recorded",
        "accepted.anonymous",
        "rejected.uat.session_revoked",
        "rejected.uat.no_record_after_grace",
        "rejected.uat.expired",
        "rejected.uat.key_revoked",
        "rejected.uat.outside_validity",
        "rejected.api.expired",
        "rejected.api.key_revoked",
        "rejected.api.session_revoked",
        "rejected.api.outside_validity",
        "rejected.uat.account_deleted",
        "event.destroy_session.ok",
        "event.destroy_api.ok",
        "event.replace_credential.ok",
        "event.key_revoke.ok",
        "event.key_rotate.ok",
        "event.change_validity.ok",
        "event.delete_account.ok",
        "event.reauth.ok",
        "tokens.accepted_unrecorded_and_recorded",
        "tokens.accepted_then_rejected",
    ] {
        let seen = run.acc.get(key) > 0;
        run.require(seen, &format!("never observed: {key}"));
    }
    // every refusal must be explainable by the model (over-rejection would hide acceptance bugs)
    let unexplained: u64 = run
        .acc
        .counters
        .iter()
        .filter(|(k, _)| k.starts_with("rejected.") && k.ends_with(".unexplained"))
        .map(|(_, v)| *v)
        .sum();
    run.require(
        unexplained == 0,
        &format!("{unexplained} presentations were refused although the model knows no reason (see observed_sets.unexplained_rejections)"),
    );
    run.finish();
}
