//! C01 Search returns exactly the matching entries, whatever is indexed.
//!
//! Three-way agreement per (population, filter, index layout):
//!  (a) the harness evaluator over a plain dump of the live entries,
//!  (b) the real search with every index switched off,
//!  (c) the real search under the layout being tested, at four cache temperatures, plus
//!      `internal_exists` and an impersonated (anonymous, default `Limits`) search.
//! `Err` answers are counted and never compared.

use crate::model::{analyse, classify, reference_answer, short_set, Flags, PEntry, A, F, V};
use crate::world::{alpha_keys, gen_population, ESpec, Kind, Layout, World, IT};
use kanidmd_lib::filter::verif_hooks::{optimise, resolve_unoptimised};
use kanidmd_lib::prelude::*;
use kvcore::{Acc, Args, Rng, Run};
use serde_json::json;
use std::collections::BTreeSet;
use std::panic::{catch_unwind, AssertUnwindSafe};

type Res = Result<BTreeSet<Uuid>, String>;

const KNOWN_SIG: &str = "c01/isolated-andnot-empty-under-index";

// ---------------------------------------------------------------------------------------------
// filter generation

struct Vals {
    names: Vec<String>,
    dnames: Vec<String>,
    descs: Vec<String>,
    members: Vec<Uuid>,
    classes: Vec<&'static str>,
    gids: Vec<u32>,
    uuids: Vec<Uuid>,
}

impl Vals {
    fn from_pop(pop: &[ESpec], rng: &mut Rng) -> Vals {
        let live: Vec<&ESpec> = pop.iter().filter(|s| !s.recycled).collect();
        let mut names: Vec<String> = live.iter().take(4).map(|s| s.name.clone()).collect();
        names.push("nosuchname".into());
        names.push(live[1].name.to_uppercase());
        names.push("zr0".into()); // the recycled entry's name
        let mut members: Vec<Uuid> = live.iter().flat_map(|s| s.members.clone()).collect();
        members.sort();
        members.dedup();
        members.truncate(3);
        members.push(live[0].uuid);
        members.push(rng.uuid());
        let mut gids: Vec<u32> = live.iter().filter_map(|s| s.gid).take(3).collect();
        gids.push(99_999);
        gids.push(70_001);
        let mut uuids: Vec<Uuid> = live.iter().take(3).map(|s| s.uuid).collect();
        uuids.push(UUID_ANONYMOUS);
        uuids.push(UUID_ADMIN);
        Vals {
            names,
            dnames: crate::world::DISPLAYNAMES
                .iter()
                .map(|s| s.to_string())
                .chain(["Alpha One".to_string(), "nosuch".to_string()])
                .collect(),
            descs: crate::world::DESCRIPTIONS
                .iter()
                .map(|s| s.to_string())
                .chain(["Probe".to_string(), "nosuch".to_string()])
                .collect(),
            members,
            classes: vec![
                "person",
                "group",
                "account",
                "posixgroup",
                "posixaccount",
                "object",
                "memberof",
                "service_account",
                "GROUP",
                "nosuchclass",
            ],
            gids,
            uuids,
        }
    }
}

fn leaf(rng: &mut Rng, v: &Vals) -> F {
    match rng.weighted(&[50, 14, 16, 10, 5, 5]) {
        0 => match rng.weighted(&[5, 3, 4, 4, 5, 2]) {
            0 => F::Eq(A::Name, V::S(rng.pick(&v.names).clone())),
            1 => F::Eq(A::DisplayName, V::S(rng.pick(&v.dnames).clone())),
            2 => F::Eq(A::Description, V::S(rng.pick(&v.descs).clone())),
            3 => F::Eq(A::Member, V::U(*rng.pick(&v.members))),
            4 => F::Eq(A::Class, V::S(rng.pick(&v.classes).to_string())),
            _ => F::Eq(A::GidNumber, V::N(*rng.pick(&v.gids))),
        },
        1 => F::Pres(*rng.pick(&[
            A::Name,
            A::DisplayName,
            A::Description,
            A::Member,
            A::Class,
            A::GidNumber,
            A::Uuid,
        ])),
        2 => match rng.below(4) {
            0 => F::Cnt(A::Name, rng.pick(&["g", "ga", "a", "dm", "n1", "GA", "zr", "zzz", "idm_adminx", "anonymouse"]).to_string()),
            1 => F::Cnt(
                A::DisplayName,
                rng.pick(&["alpha", "two", "a", "ray", "mm", "zzz", "alphabet", "gamma rat"]).to_string(),
            ),
            2 => F::Cnt(
                A::Description,
                rng.pick(&["probe", "ob", "two", "thing", "e t", "zzz", "uilt", "proxy", "other thin"]).to_string(),
            ),
            _ => F::Cnt(A::Class, rng.pick(&["posix", "p", "ou", "zzz"]).to_string()),
        },
        3 => F::Lt(
            A::GidNumber,
            *rng.pick(&[0u32, 70_002, 70_004, 70_007, 70_100, u32::MAX]),
        ),
        4 => F::SelfUuid,
        _ => {
            if rng.chance(1, 20) {
                // ill-typed assertion: must be refused, never answered
                F::Eq(A::GidNumber, V::S("seven".into()))
            } else {
                F::Eq(A::Uuid, V::U(*rng.pick(&v.uuids)))
            }
        }
    }
}

fn maybe_dup(rng: &mut Rng, cs: &mut Vec<F>) {
    if !cs.is_empty() && rng.chance(1, 4) {
        let d = cs[rng.usize(cs.len())].clone();
        let at = rng.usize(cs.len() + 1);
        cs.insert(at, d);
    }
}

/// No isolated negation by construction: a Not only ever sits in an And next to a positive term.
fn safe_tree(rng: &mut Rng, v: &Vals, depth: usize) -> F {
    if depth <= 1 || rng.chance(1, 4) {
        return leaf(rng, v);
    }
    if rng.chance(3, 5) {
        let np = rng.range(1, 2) as usize;
        let nn = rng.below(3) as usize;
        let mut cs: Vec<F> = (0..np).map(|_| safe_tree(rng, v, depth - 1)).collect();
        for _ in 0..nn {
            cs.push(F::Not(Box::new(safe_tree(rng, v, depth - 1))));
        }
        maybe_dup(rng, &mut cs);
        rng.shuffle(&mut cs);
        F::And(cs)
    } else {
        let n = rng.range(1, 3) as usize;
        let mut cs: Vec<F> = (0..n).map(|_| safe_tree(rng, v, depth - 1)).collect();
        maybe_dup(rng, &mut cs);
        F::Or(cs)
    }
}

fn any_tree(rng: &mut Rng, v: &Vals, depth: usize) -> F {
    if depth <= 1 || rng.chance(1, 4) {
        return leaf(rng, v);
    }
    match rng.weighted(&[4, 4, 3]) {
        2 => F::Not(Box::new(any_tree(rng, v, depth - 1))),
        k => {
            let n = rng.range(1, 3) as usize;
            let mut cs: Vec<F> = (0..n).map(|_| any_tree(rng, v, depth - 1)).collect();
            maybe_dup(rng, &mut cs);
            if k == 0 {
                F::And(cs)
            } else {
                F::Or(cs)
            }
        }
    }
}

/// The shapes the upstream suite lacks.
fn biased_tree(rng: &mut Rng, v: &Vals) -> F {
    let core = match rng.weighted(&[30, 20, 12, 28, 10]) {
        0 => {
            // OR containing NOT
            let mut cs: Vec<F> = (0..rng.range(1, 2)).map(|_| safe_tree(rng, v, 2)).collect();
            for _ in 0..rng.range(1, 2) {
                cs.push(F::Not(Box::new(safe_tree(rng, v, 2))));
            }
            maybe_dup(rng, &mut cs);
            rng.shuffle(&mut cs);
            F::Or(cs)
        }
        1 => {
            // AND made only of NOT
            let mut cs: Vec<F> = (0..rng.range(1, 3))
                .map(|_| F::Not(Box::new(safe_tree(rng, v, 2))))
                .collect();
            maybe_dup(rng, &mut cs);
            let a = F::And(cs);
            if rng.chance(1, 3) {
                F::Or(vec![safe_tree(rng, v, 1), a])
            } else {
                a
            }
        }
        2 => {
            // nested single-term groups
            let t = any_tree(rng, v, 2);
            match rng.below(3) {
                0 => F::And(vec![F::Or(vec![F::And(vec![t])])]),
                1 => F::Or(vec![F::And(vec![F::Or(vec![t])])]),
                _ => F::And(vec![F::And(vec![t])]),
            }
        }
        3 => any_tree(rng, v, 3),
        _ => F::Not(Box::new(any_tree(rng, v, 2))),
    };
    if rng.chance(1, 2) {
        // like the shape of the known probe: a positive term AND the odd group
        let mut cs = vec![leaf(rng, v), core];
        if rng.bool() {
            cs.swap(0, 1);
        }
        F::And(cs)
    } else {
        core
    }
}

fn gen_filters(rng: &mut Rng, v: &Vals, n: usize) -> Vec<F> {
    let mut out = Vec::with_capacity(n + 1);
    // always present: the shape of the orchestrator's probe, as a positive control of the layouts
    out.push(F::And(vec![
        F::Eq(A::Description, V::S("probe".into())),
        F::Or(vec![
            F::Eq(A::Name, V::S("ga".into())),
            F::Not(Box::new(F::Eq(A::Name, V::S("gb".into())))),
        ]),
    ]));
    while out.len() < n {
        let f = if rng.chance(1, 2) {
            let d = 2 + rng.usize(2);
            safe_tree(rng, v, d)
        } else {
            biased_tree(rng, v)
        };
        out.push(f);
    }
    out
}

// ---------------------------------------------------------------------------------------------
// execution

fn uuids_of(es: &[std::sync::Arc<kanidmd_lib::entry::EntrySealedCommitted>]) -> BTreeSet<Uuid> {
    es.iter().map(|e| e.get_uuid()).collect()
}

fn panic_msg(p: Box<dyn std::any::Any + Send>) -> String {
    p.downcast_ref::<String>()
        .cloned()
        .or_else(|| p.downcast_ref::<&str>().map(|s| s.to_string()))
        .unwrap_or_else(|| "panic".into())
}

fn search<'a, T: QueryServerTransaction<'a>>(t: &mut T, f: &F) -> Res {
    match catch_unwind(AssertUnwindSafe(|| t.internal_search(filter!(f.to_fc())))) {
        Ok(Ok(v)) => Ok(uuids_of(&v)),
        Ok(Err(e)) => Err(format!("{e:?}")),
        Err(p) => Err(format!("PANIC {}", panic_msg(p))),
    }
}

fn exists<'a, T: QueryServerTransaction<'a>>(t: &mut T, f: &F) -> Result<bool, String> {
    match catch_unwind(AssertUnwindSafe(|| t.internal_exists(&filter!(f.to_fc())))) {
        Ok(Ok(v)) => Ok(v),
        Ok(Err(e)) => Err(format!("{e:?}")),
        Err(p) => Err(format!("PANIC {}", panic_msg(p))),
    }
}

fn imp_search<'a, T: QueryServerTransaction<'a>>(t: &mut T, f: &F, ident: &Identity) -> Res {
    match catch_unwind(AssertUnwindSafe(|| {
        t.impersonate_search(filter!(f.to_fc()), filter!(f.to_fc()), ident)
    })) {
        Ok(Ok(v)) => Ok(uuids_of(&v)),
        Ok(Err(e)) => Err(format!("{e:?}")),
        Err(p) => Err(format!("PANIC {}", panic_msg(p))),
    }
}

/// The filter kanidm executes for this tree under the current index metadata (same construction
/// as `internal_search`: hidden-entry wrapper, schema validation, resolve, full optimise).
async fn executed_filter(w: &World, f: &F, ident: &Identity) -> Option<(Flags, String)> {
    let meta = w.current_idxmeta().await.ok()?;
    let r = w.qs.read().await.ok()?;
    let fv = filter!(f.to_fc()).validate(r.get_schema()).ok()?;
    let u = resolve_unoptimised(&fv, ident, Some(&meta))?;
    let o = optimise(&u);
    Some((analyse(o.to_inner()), format!("{:?}", o.to_inner())))
}

struct Case {
    f: F,
    ref_int: Option<BTreeSet<Uuid>>,
    ref_anon: Option<BTreeSet<Uuid>>,
    isolated: bool,
    base: Res,
}

fn brief_of(pop: &[PEntry], us: &BTreeSet<Uuid>) -> Vec<String> {
    pop.iter()
        .filter(|e| us.contains(&e.uuid))
        .take(6)
        .map(|e| format!("{}: {}", crate::model::short_uuid(&e.uuid), e.brief()))
        .collect()
}

#[allow(clippy::too_many_arguments)]
fn witness(
    pop_id: u64,
    pop: &[PEntry],
    f: &F,
    layout: &str,
    what: &str,
    got: &BTreeSet<Uuid>,
    want: &BTreeSet<Uuid>,
    executed: &str,
    extra: serde_json::Value,
) -> serde_json::Value {
    let missing: BTreeSet<Uuid> = want.difference(got).copied().collect();
    let surplus: BTreeSet<Uuid> = got.difference(want).copied().collect();
    json!({
        "population_seed": pop_id, "filter": f.to_string(), "layout": layout, "what": what,
        "answer": short_set(got), "reference": short_set(want),
        "missing_from_answer": brief_of(pop, &missing), "surplus_in_answer": brief_of(pop, &surplus),
        "executed_filter": executed, "detail": extra,
    })
}

struct Ctx<'a> {
    w: &'a mut World,
    pop_id: u64,
    plain: &'a [PEntry],
    anon: Identity,
    person: Uuid,
    shrunk: std::collections::BTreeMap<String, usize>,
}

/// One fresh search of `f` under the current layout against the reference: Some(signature) on mismatch.
async fn probe_mismatch(cx: &Ctx<'_>, f: &F, kind: &str) -> Option<String> {
    let want = reference_answer(f, cx.plain, UUID_SYSTEM)?;
    let got = {
        let mut r = cx.w.qs.read().await.ok()?;
        search(&mut r, f).ok()?
    };
    if got == want {
        return None;
    }
    let (iso, _) = executed_filter(cx.w, f, &cx.anon).await?;
    Some(classify("c01", kind, &got, &want, &iso))
}

/// greedy shrink keeping the signature; capped
async fn shrink(cx: &Ctx<'_>, f: &F, kind: &str, sig: &str) -> F {
    let mut cur = f.clone();
    let mut budget = 60;
    'outer: loop {
        for c in cur.shrinks() {
            if budget == 0 {
                break 'outer;
            }
            budget -= 1;
            if probe_mismatch(cx, &c, kind).await.as_deref() == Some(sig) {
                cur = c;
                continue 'outer;
            }
        }
        break;
    }
    cur
}

#[allow(clippy::too_many_arguments)]
async fn report_mismatch(
    acc: &mut Acc,
    cx: &mut Ctx<'_>,
    f: &F,
    layout: &Layout,
    kind: &str,
    what: &str,
    got: &BTreeSet<Uuid>,
    want: &BTreeSet<Uuid>,
    extra: serde_json::Value,
) {
    let (iso, exec) = executed_filter(cx.w, f, &cx.anon)
        .await
        .unwrap_or((Flags::default(), "<unavailable>".into()));
    let sig = classify("c01", kind, got, want, &iso);
    acc.count(&format!("mismatch.{}", &sig[4..]));
    // shrink the first few witnesses of each run (internal-identity comparisons only)
    let mut shrunk = None;
    let n = cx.shrunk.entry(sig.clone()).or_insert(0);
    *n += 1;
    if *n <= 2 && kind != "impersonated" {
        let s = shrink(cx, f, kind, &sig).await;
        if s != *f {
            let (_, sexec) = executed_filter(cx.w, &s, &cx.anon)
                .await
                .unwrap_or((Flags::default(), String::new()));
            shrunk = Some(json!({"filter": s.to_string(), "executed_filter": sexec}));
        }
    }
    let mut extra = extra;
    if kind == "impersonated" {
        // diagnostics: repeat in a fresh transaction, and ask for one differing entry by uuid alone
        if let Ok(mut pr) = cx.w.idms.proxy_read().await {
            let again = imp_search(&mut pr.qs_read, f, &cx.anon);
            let internal = search(&mut pr.qs_read, f);
            let one = want.symmetric_difference(got).next().copied();
            let by_uuid = one.map(|u| imp_search(&mut pr.qs_read, &F::Eq(A::Uuid, V::U(u)), &cx.anon));
            extra["diagnostics"] = json!({
                "impersonated_again": again.map(|s| short_set(&s)),
                "internal_same_txn": internal.map(|s| short_set(&s)),
                "differing_entry_by_uuid_alone_as_anonymous": by_uuid.map(|r| r.map(|s| short_set(&s))),
            });
        }
    }
    let mut wj = witness(cx.pop_id, cx.plain, f, &layout.name, what, got, want, &exec, extra);
    wj["shrunk"] = json!(shrunk);
    wj["executed_filter_flags"] = json!(format!("{iso:?}"));
    crate::model::viol(acc, &sig, wj);
}

fn nontrivial(f: &F, layout_default: &Layout, r: &Option<BTreeSet<Uuid>>, total: usize) -> bool {
    let mut kinds = BTreeSet::new();
    f.kinds(&mut kinds);
    if kinds.len() < 2 {
        return false;
    }
    let mut keys = BTreeSet::new();
    f.leaf_keys(&mut keys);
    let idx = |t: &str| match t {
        "eq" => IT::Eq,
        "pres" => IT::Pres,
        "sub" => IT::Sub,
        _ => IT::Ord,
    };
    let n_idx = keys
        .iter()
        .filter(|(a, t)| layout_default.is_indexed(*a, idx(t)))
        .count();
    let mixes = (n_idx > 0 && n_idx < keys.len()) || f.has_not();
    let partial = matches!(r, Some(s) if !s.is_empty() && s.len() < total);
    mixes && partial
}

fn layouts_for(rng: &mut Rng, thorough: bool, round: usize) -> Vec<Layout> {
    let mut ls = vec![Layout::default_(), Layout::all()];
    if thorough {
        let ks = alpha_keys();
        // every single toggle is covered across rounds: half of them per round
        for (i, k) in ks.iter().enumerate() {
            if i % 2 == round % 2 {
                ls.push(Layout::all_but(*k));
            } else if i % 6 == (round / 2) % 6 {
                ls.push(Layout::only(*k));
            }
        }
        for t in 0..4 {
            ls.push(Layout::random(rng, t));
        }
    } else {
        ls.push(Layout::random(rng, 0));
        ls.push(Layout::random(rng, 1));
        let ks = alpha_keys();
        ls.push(Layout::all_but(ks[rng.usize(ks.len())]));
    }
    ls
}

async fn one_round(acc: &mut Acc, seed: u64, round: usize, thorough: bool, nfilters: usize) -> Result<(), String> {
    let mut rng = Rng::new(seed);
    let pop_id = seed;
    let spec = gen_population(&mut rng);
    let mut w = World::new().await?;
    let grant: Vec<Attribute> = crate::model::ALL_A
        .iter()
        .map(|a| a.attr())
        .chain([Attribute::Spn])
        .collect();
    w.install(&spec, &grant).await?;
    let schema_default = w.schema_default_alpha().await?;
    if schema_default != crate::world::default_alpha_keys() {
        return Err(format!(
            "the schema's default index keys for the alphabet are not what the harness assumes: {schema_default:?}"
        ));
    }
    let plain = w.live_pop().await?;
    let total = plain.len();
    acc.observe("population_sizes", &format!("{}", spec.iter().filter(|s| !s.recycled).count()));
    for s in spec.iter().filter(|s| s.recycled) {
        if plain.iter().any(|e| e.uuid == s.uuid) {
            return Err("a deleted entry is still live in the dump".into());
        }
    }
    let person = spec
        .iter()
        .find(|s| s.kind == Kind::Person && !s.recycled)
        .map(|s| s.uuid)
        .ok_or("no person")?;
    let vals = Vals::from_pop(&spec, &mut rng);
    let filters = gen_filters(&mut rng, &vals, nfilters);
    let anon = w.anon_ident().await?;
    let ldefault = Layout::default_();

    // ---- baseline (b): every index off
    let lnone = Layout::none();
    w.set_layout(&lnone).await?;
    acc.count("layout.none");
    let mut cases: Vec<Case> = Vec::with_capacity(filters.len());
    for f in filters {
        let ref_int = reference_answer(&f, &plain, UUID_SYSTEM);
        let ref_anon = reference_answer(&f, &plain, UUID_ANONYMOUS);
        let isolated = executed_filter(&w, &f, &anon)
            .await
            .map(|x| x.0.iso)
            .unwrap_or(false);
        let base = {
            let mut r = w.qs.read().await.map_err(|e| format!("{e:?}"))?;
            search(&mut r, &f)
        };
        cases.push(Case {
            f,
            ref_int,
            ref_anon,
            isolated,
            base,
        });
    }
    let mut cx = Ctx {
        w: &mut w,
        pop_id,
        plain: &plain,
        anon,
        person,
        shrunk: Default::default(),
    };
    for c in &cases {
        acc.eval();
        let mut kinds = BTreeSet::new();
        c.f.kinds(&mut kinds);
        for k in &kinds {
            acc.count(&format!("filters.with.{k}"));
        }
        acc.count(if c.isolated {
            "filters.with-isolated-andnot"
        } else {
            "filters.safe(no-isolated-andnot)"
        });
        match &c.ref_int {
            None => acc.count("reference.ambiguous(case of substring on case-sensitive string)"),
            Some(s) if s.is_empty() => acc.count("reference.empty"),
            Some(s) if s.len() == total => acc.count("reference.everything"),
            Some(_) => acc.count("reference.partial"),
        }
        if nontrivial(&c.f, &ldefault, &c.ref_int, total) {
            acc.nontrivial(&format!("{pop_id}|{}", c.f));
        }
        match (&c.base, &c.ref_int) {
            (Err(e), _) => {
                acc.count("scan.err");
                if e.starts_with("PANIC") {
                    crate::model::viol(acc, "c01/panic-in-search", json!({"filter": c.f.to_string(), "layout": "none", "panic": e}));
                }
                acc.observe("error_kinds", e.split('(').next().unwrap_or(e));
            }
            (Ok(_), None) => acc.count("scan.ok.unjudged"),
            (Ok(b), Some(a)) => {
                acc.count("scan.ok");
                if b != a {
                    report_mismatch(acc, &mut cx, &c.f, &lnone, "scan", "the all-unindexed search differs from the reference evaluation", b, a, json!({})).await;
                } else if acc.samples.len() < 3 && !b.is_empty() && c.f.depth() >= 3 {
                    acc.sample(json!({"population_seed": pop_id, "filter": c.f.to_string(), "layout": "none", "answer": short_set(b)}));
                }
            }
        }
    }

    // ---- each tested layout (c)
    let layouts = layouts_for(&mut rng, thorough, round);
    for l in &layouts {
        cx.w.set_layout(l).await?;
        let lclass = ["all-but", "only", "random"]
            .iter()
            .find(|p| l.name.starts_with(**p))
            .map(|p| p.to_string())
            .unwrap_or_else(|| l.name.clone());
        acc.count(&format!("layout.{lclass}"));
        acc.observe("layouts", &l.name);
        for (i, c) in cases.iter().enumerate() {
            acc.eval();
            let f = &c.f;
            // temperature 1+2: fresh read txn, repeat in the same txn; exists in the same txn
            let (r1, r2, x1) = {
                let mut r = cx.w.qs.read().await.map_err(|e| format!("{e:?}"))?;
                let a = search(&mut r, f);
                let b = search(&mut r, f);
                let x = exists(&mut r, f);
                (a, b, x)
            };
            // temperature 3: the next read txn
            let r3 = {
                let mut r = cx.w.qs.read().await.map_err(|e| format!("{e:?}"))?;
                search(&mut r, f)
            };
            // temperature 4: after an unrelated committed write (every 6th case), through the idm layer
            let wrote = i % 6 == 0;
            if wrote {
                let p = cx.person;
                cx.w.unrelated_write(p).await?;
                acc.count("unrelated_writes");
            }
            let (r4, r5) = {
                let mut pr = cx.w.idms.proxy_read().await.map_err(|e| format!("{e:?}"))?;
                let a = search(&mut pr.qs_read, f);
                let b = imp_search(&mut pr.qs_read, f, &cx.anon);
                (a, b)
            };
            let temps = [
                ("fresh-txn", &r1),
                ("same-txn-repeat", &r2),
                ("next-txn", &r3),
                (if wrote { "after-unrelated-write" } else { "later-txn" }, &r4),
            ];
            for (name, r) in temps {
                match r {
                    Ok(_) => acc.count(&format!("search.{name}.ok")),
                    Err(e) => {
                        acc.count(&format!("search.{name}.err"));
                        acc.observe("error_kinds", e.split('(').next().unwrap_or(e));
                        if e.starts_with("PANIC") {
                            crate::model::viol(acc, "c01/panic-in-search", json!({"filter": f.to_string(), "layout": l.name, "panic": e}));
                        }
                    }
                }
            }
            // all Ok temperatures must agree
            let oks: Vec<(&str, &BTreeSet<Uuid>)> = temps
                .iter()
                .filter_map(|(n, r)| r.as_ref().ok().map(|s| (*n, s)))
                .collect();
            if oks.len() != temps.len() && !oks.is_empty() {
                acc.count("search.ok-and-err-mixed-across-temperatures");
            }
            if let Some((n0, s0)) = oks.first() {
                for (n, s) in oks.iter().skip(1) {
                    if s != s0 {
                        crate::model::viol(acc,
                            "c01/cache-temperature-changes-answer",
                            witness(pop_id, cx.plain, f, &l.name,
                                &format!("the same filter under the same layout answered differently at '{n0}' and at '{n}'"),
                                s, s0, "", json!({})),
                        );
                        break;
                    }
                }
            }
            // (c) against (a), else against (b)
            if let Ok(cset) = &r1 {
                match &c.ref_int {
                    Some(a) => {
                        if cset != a {
                            report_mismatch(acc, &mut cx, f, l, "indexed",
                                "the search under this layout differs from the reference evaluation",
                                cset, a,
                                json!({"all_unindexed_answer": c.base.as_ref().map(short_set).map_err(|e| e.clone()),
                                       "all_unindexed_agrees_with_reference": c.base.as_ref().ok().map(|b| b == a)})).await;
                        } else {
                            acc.count("three-way.agree");
                            if acc.samples.len() < 6 && !cset.is_empty() && cset.len() < total && f.has_not() && i % 7 == 3 {
                                acc.sample(json!({"population_seed": pop_id, "filter": f.to_string(), "layout": l.name, "answer": short_set(cset)}));
                            }
                        }
                    }
                    None => {
                        if let Ok(b) = &c.base {
                            if b != cset {
                                let (fl, exec) = executed_filter(cx.w, f, &cx.anon).await.unwrap_or((Flags::default(), String::new()));
                                let sig = if fl.iso || fl.part { classify("c01", "layouts", cset, b, &fl) } else { "c01/layouts-disagree".to_string() };
                                crate::model::viol(acc, &sig, witness(pop_id, cx.plain, f, &l.name,
                                    "this layout and the all-unindexed layout answer differently (reference not judged: case reading of a substring term)",
                                    cset, b, &exec, json!({})));
                            } else {
                                acc.count("two-way.agree(reference-unjudged)");
                            }
                        }
                    }
                }
                // mixed indexed / unindexed terms under this layout?
                let mut keys = BTreeSet::new();
                f.leaf_keys(&mut keys);
                let nidx = keys.iter().filter(|(a, t)| l.is_indexed(*a, match *t { "eq" => IT::Eq, "pres" => IT::Pres, "sub" => IT::Sub, _ => IT::Ord })).count();
                if nidx > 0 && nidx < keys.len() {
                    acc.count("cases.mixing-indexed-and-unindexed-terms");
                }
            }
            // exists
            match (&x1, &r1) {
                (Err(_), _) => acc.count("exists.err"),
                (Ok(x), Ok(s)) => {
                    acc.count(if *x { "exists.ok.true" } else { "exists.ok.false" });
                    if *x == s.is_empty() {
                        crate::model::viol(acc, "c01/exists-disagrees-with-search", json!({
                            "population_seed": pop_id, "filter": f.to_string(), "layout": l.name,
                            "exists": x, "search_answer": short_set(s)}));
                    }
                }
                (Ok(x), Err(_)) => {
                    acc.count("exists.ok.search-err");
                    if let Some(a) = &c.ref_int {
                        if *x == a.is_empty() {
                            let (fl, exec) = executed_filter(cx.w, f, &cx.anon).await.unwrap_or((Flags::default(), String::new()));
                            let sig = if !*x && fl.iso { KNOWN_SIG } else if !*x && fl.part { "c01/andnot-over-partial-index-answer-subset" }
                                else if *x && fl.iso_neg { "c01/isolated-andnot-under-negation-answer-superset" }
                                else if *x && fl.part_neg { "c01/andnot-over-partial-index-under-negation-answer-superset" }
                                else if *x { "c01/exists-true-but-nothing-matches" } else { "c01/exists-false-but-entries-match" };
                            crate::model::viol(acc, sig, json!({"population_seed": pop_id, "filter": f.to_string(), "layout": l.name,
                                "exists": x, "reference": short_set(a), "executed_filter": exec}));
                        }
                    }
                }
            }
            // impersonated, default limits
            match &r5 {
                Err(e) => {
                    acc.count("impersonated.err");
                    acc.observe("error_kinds", e.split('(').next().unwrap_or(e));
                    if e.starts_with("PANIC") {
                        crate::model::viol(acc, "c01/panic-in-search", json!({"filter": f.to_string(), "layout": l.name, "panic": e, "identity": "anonymous"}));
                    }
                }
                Ok(s) => {
                    acc.count("impersonated.ok");
                    if let Some(a) = &c.ref_anon {
                        if s != a {
                            report_mismatch(acc, &mut cx, f, l, "impersonated",
                                "the anonymous (granted read on every alphabet attribute, default Limits) search differs from the reference evaluation",
                                s, a, json!({})).await;
                        }
                    }
                }
            }
        }
    }
    // the population projection must not have moved under us
    let again = cx.w.live_pop().await?;
    if again != plain {
        return Err("the alphabet projection of the population changed during the round (unrelated write was not unrelated)".into());
    }
    Ok(())
}

pub fn run(args: Args) {
    let mut run = Run::new(
        args.clone(),
        "exploration",
        "(population of 6-12 persons/groups + built-in entries) x (filter tree depth<=3/width<=3(+duplicates) over name,displayname,description,member,class,gidnumber,uuid,SelfUuid; half without any isolated negation, half biased to OR-containing-NOT / AND-of-only-NOT / nested single-term groups / duplicates) x (index layout); an evaluation is one (filter,layout) pair run at 4 cache temperatures + exists + impersonated; non-trivial = >=2 operator kinds, mixes indexed and unindexed (default layout) or negated terms, and the reference answer is neither empty nor everything; distinct by (population, filter)",
    );
    run.assume("index layouts are switched from outside with update_idxmeta(subset)+reindex after a schema touch that makes the server clear its resolved-filter cache, as the production schema-reload path does");
    run.assume("the storage dump (to_dbentry JSON) shows the stored values; entries whose class contains recycled/tombstone/conflict are not live");
    run.assume("substring on a case-sensitive string attribute: the property does not fix the case rule, so cases where the two readings differ are compared across layouts only");
    let thorough = args.tier == kvcore::Tier::Thorough;
    let rounds: usize = args.tier.pick(2, 6);
    let nfilters: usize = args.tier.pick(260, 700);
    let seed = args.seed;
    if let Some(p) = &args.replay {
        if let Some(wv) = kvcore::run::load_replay(p) {
            println!("replay witness (re-run with the same seed/tier re-derives it): {wv}");
        }
    }
    run.parallel(args.workers, |w, _n| {
        let mut acc = Acc::new();
        let rt = kvcore::srv::rt();
        for round in 0..rounds {
            let s = kvcore::rng::mix(seed, w as u64, 100 + round as u64);
            let r = rt.block_on(one_round(&mut acc, s, round + w, thorough, nfilters));
            if let Err(e) = r {
                acc.inconclusive(&format!("worker {w} round {round}: {e}"));
            } else {
                acc.count("rounds");
            }
        }
        acc
    });
    let known = run.acc.get("mismatch.isolated-andnot-empty-under-index");
    run.extra("known_defect_witnesses_this_run", json!(known));
    let a = run.acc.clone();
    let need = |k: &str, n: u64| (a.get(k) >= n, format!("counter {k} = {} < {n}", a.get(k)));
    let mut checks = vec![
        need("rounds", 1),
        need("filters.safe(no-isolated-andnot)", 500),
        need("filters.with-isolated-andnot", 200),
        need("three-way.agree", 2000),
        need("reference.partial", 500),
        need("search.fresh-txn.ok", 2000),
        need("search.same-txn-repeat.ok", 2000),
        need("search.next-txn.ok", 2000),
        need("search.after-unrelated-write.ok", 300),
        need("exists.ok.true", 300),
        need("exists.ok.false", 300),
        need("impersonated.ok", 500),
        need("impersonated.err", 1),
        need("cases.mixing-indexed-and-unindexed-terms", 500),
        need("layout.default", 1),
        need("layout.all", 1),
        need("layout.random", 1),
        need("layout.none", 1),
    ];
    for k in ["and", "or", "not", "eq", "sub", "pres", "lt", "self"] {
        checks.push(need(&format!("filters.with.{k}"), 50));
    }
    for (ok, why) in checks {
        run.require(ok, &why);
    }
    crate::model::check_witness_retention(&mut run);
    run.finish();
}
