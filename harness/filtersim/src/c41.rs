//! C41 LDAP and SCIM filters mean what their standards say.
//!
//! LDAP: the real gateway (`LdapServer::do_op`, anonymous bind) is driven with generated RFC 4511
//! filters; the oracle evaluates the same filter over the entries *as the gateway itself presents
//! them* to the same identity (`(objectclass=*)` with `*` and `+`), so access control cannot cause
//! a false alarm. SCIM: `QueryServerReadTransaction::scim_search_ext` is driven with filter text
//! parsed by the production parser; the oracle evaluates RFC 7644 semantics over the plain dump of
//! the live entries (the identity is granted read on every attribute used, on every entry).
//! Any `Err` is "rejected as unsupported": counted, never judged.

use crate::model::{analyse, classify, short_uuid, viol, Flags, PEntry, Syn, A, V};
use crate::world::{gen_population, ESpec, Layout, World};
use kanidm_proto::scim_v1::{ScimEntryGetQuery, ScimFilter};
use kanidmd_lib::be::BackendTransaction;
use kanidmd_lib::filter::verif_hooks::{optimise, resolve_unoptimised};
use kanidmd_lib::filter::{Filter, FilterInvalid};
use kanidmd_lib::idm::ldap::{LdapResponseState, LdapServer};
use kanidmd_lib::prelude::*;
use kanidmd_lib::schema::SchemaTransaction;
use kvcore::{Acc, Args, Rng, Run};
use ldap3_proto::proto::{LdapFilter, LdapOp, LdapResultCode, LdapSearchScope, LdapSubstringFilter};
use ldap3_proto::simple::{SearchRequest, ServerOps};
use serde_json::json;
use std::collections::{BTreeMap, BTreeSet};
use std::net::{IpAddr, Ipv4Addr};
use std::panic::{catch_unwind, AssertUnwindSafe};
use std::str::FromStr;

const BASEDN: &str = "dc=example,dc=com";

// ---------------------------------------------------------------------------------------------
// LDAP side

/// an entry as the gateway presents it: lower-cased attribute name -> values
#[derive(Clone, Debug)]
struct LEntry {
    dn: String,
    attrs: BTreeMap<String, Vec<String>>,
}

#[derive(Clone, Copy, PartialEq, Eq, Debug)]
enum Rule {
    /// case-insensitive string (cn, uid, name, objectclass, class, spn, uuid forms, dn forms)
    Ci,
    /// string whose case rule the gateway does not publish: both readings are evaluated
    Amb,
    /// integer
    Int,
}

fn ldap_rule(attr: &str) -> Option<Rule> {
    Some(match attr {
        "name" | "cn" | "uid" | "class" | "objectclass" | "spn" | "uuid" | "entryuuid" | "member" => Rule::Ci,
        "displayname" | "gecos" | "description" => Rule::Amb,
        "gidnumber" | "uidnumber" => Rule::Int,
        _ => return None,
    })
}

fn fold(s: &str, ci: bool) -> String {
    if ci {
        s.to_lowercase()
    } else {
        s.to_string()
    }
}

/// RFC 4511 4.5.1.7 substrings: one value must carry initial, the any parts in order and
/// non-overlapping, and final. `independent` = the (non-standard) reading where each part is
/// looked for on its own in any value; used only to name the cause of a mismatch.
fn substr_match(vals: &[String], sf: &LdapSubstringFilter, ci: bool, independent: bool) -> bool {
    if independent {
        let ini = sf
            .initial
            .as_ref()
            .map(|i| vals.iter().any(|v| fold(v, ci).starts_with(&fold(i, ci))))
            .unwrap_or(true);
        let any = sf
            .any
            .iter()
            .all(|a| vals.iter().any(|v| fold(v, ci).contains(&fold(a, ci))));
        let fin = sf
            .final_
            .as_ref()
            .map(|f| vals.iter().any(|v| fold(v, ci).ends_with(&fold(f, ci))))
            .unwrap_or(true);
        return ini && any && fin;
    }
    vals.iter().any(|v| {
        let v = fold(v, ci);
        let mut rest: &str = &v;
        if let Some(i) = &sf.initial {
            let i = fold(i, ci);
            if !rest.starts_with(&i) {
                return false;
            }
            rest = &rest[i.len()..];
        }
        for a in &sf.any {
            let a = fold(a, ci);
            match rest.find(&a) {
                Some(p) => rest = &rest[p + a.len()..],
                None => return false,
            }
        }
        if let Some(f) = &sf.final_ {
            let f = fold(f, ci);
            if !rest.ends_with(&f) {
                return false;
            }
        }
        true
    })
}

/// None = the filter uses something this oracle does not judge
fn ldap_eval(f: &LdapFilter, e: &LEntry, ci_amb: bool, independent: bool) -> Option<bool> {
    Some(match f {
        LdapFilter::And(l) => {
            let mut r = true;
            for x in l {
                r &= ldap_eval(x, e, ci_amb, independent)?;
            }
            r
        }
        LdapFilter::Or(l) => {
            let mut r = false;
            for x in l {
                r |= ldap_eval(x, e, ci_amb, independent)?;
            }
            r
        }
        LdapFilter::Not(x) => !ldap_eval(x, e, ci_amb, independent)?,
        LdapFilter::Present(a) => e.attrs.contains_key(&a.to_lowercase()),
        LdapFilter::Equality(a, v) => {
            let a = a.to_lowercase();
            let rule = ldap_rule(&a)?;
            let Some(vals) = e.attrs.get(&a) else {
                return Some(false);
            };
            match rule {
                Rule::Ci => vals.iter().any(|x| x.to_lowercase() == v.to_lowercase()),
                Rule::Amb => vals.iter().any(|x| fold(x, ci_amb) == fold(v, ci_amb)),
                Rule::Int => {
                    let want: u64 = v.parse().ok()?;
                    vals.iter().any(|x| x.parse::<u64>().ok() == Some(want))
                }
            }
        }
        LdapFilter::Substring(a, sf) => {
            let a = a.to_lowercase();
            let rule = ldap_rule(&a)?;
            let Some(vals) = e.attrs.get(&a) else {
                return Some(false);
            };
            match rule {
                Rule::Ci => substr_match(vals, sf, true, independent),
                Rule::Amb => substr_match(vals, sf, ci_amb, independent),
                Rule::Int => return None,
            }
        }
        LdapFilter::GreaterOrEqual(a, v) | LdapFilter::LessOrEqual(a, v) => {
            let a = a.to_lowercase();
            if ldap_rule(&a)? != Rule::Int {
                return None;
            }
            let want: u64 = v.parse().ok()?;
            let ge = matches!(f, LdapFilter::GreaterOrEqual(..));
            e.attrs
                .get(&a)
                .map(|vals| {
                    vals.iter().filter_map(|x| x.parse::<u64>().ok()).any(|x| {
                        if ge {
                            x >= want
                        } else {
                            x <= want
                        }
                    })
                })
                .unwrap_or(false)
        }
        LdapFilter::Approx(..) | LdapFilter::Extensible(..) => return None,
    })
}

/// answer set by dn under one case reading
fn ldap_answer(f: &LdapFilter, uni: &[LEntry], ci: bool, independent: bool) -> Option<BTreeSet<String>> {
    let mut a = BTreeSet::new();
    for e in uni {
        if ldap_eval(f, e, ci, independent)? {
            a.insert(e.dn.clone());
        }
    }
    Some(a)
}

/// answer set by dn, or None when not judged / the two case readings differ
fn ldap_reference(f: &LdapFilter, uni: &[LEntry], independent: bool) -> Option<BTreeSet<String>> {
    let mut a = BTreeSet::new();
    let mut b = BTreeSet::new();
    for e in uni {
        if ldap_eval(f, e, true, independent)? {
            a.insert(e.dn.clone());
        }
        if ldap_eval(f, e, false, independent)? {
            b.insert(e.dn.clone());
        }
    }
    if a == b {
        Some(a)
    } else {
        None
    }
}

fn ldap_kinds(f: &LdapFilter, out: &mut BTreeSet<&'static str>) {
    match f {
        LdapFilter::And(l) => {
            out.insert("and");
            l.iter().for_each(|x| ldap_kinds(x, out));
        }
        LdapFilter::Or(l) => {
            out.insert("or");
            l.iter().for_each(|x| ldap_kinds(x, out));
        }
        LdapFilter::Not(x) => {
            out.insert("not");
            ldap_kinds(x, out);
        }
        LdapFilter::Equality(..) => {
            out.insert("eq");
        }
        LdapFilter::Substring(_, sf) => {
            out.insert("substring");
            if sf.initial.is_some() {
                out.insert("substring.initial");
            }
            if !sf.any.is_empty() {
                out.insert("substring.any");
            }
            if sf.final_.is_some() {
                out.insert("substring.final");
            }
        }
        LdapFilter::GreaterOrEqual(..) => {
            out.insert("ge");
        }
        LdapFilter::LessOrEqual(..) => {
            out.insert("le");
        }
        LdapFilter::Present(_) => {
            out.insert("present");
        }
        LdapFilter::Approx(..) => {
            out.insert("approx");
        }
        LdapFilter::Extensible(..) => {
            out.insert("extensible");
        }
    }
}

fn ldap_text(f: &LdapFilter) -> String {
    match f {
        LdapFilter::And(l) => format!("(&{})", l.iter().map(ldap_text).collect::<String>()),
        LdapFilter::Or(l) => format!("(|{})", l.iter().map(ldap_text).collect::<String>()),
        LdapFilter::Not(x) => format!("(!{})", ldap_text(x)),
        LdapFilter::Equality(a, v) => format!("({a}={v})"),
        LdapFilter::Substring(a, sf) => format!(
            "({a}={}*{}{})",
            sf.initial.clone().unwrap_or_default(),
            sf.any.iter().map(|x| format!("{x}*")).collect::<String>(),
            sf.final_.clone().unwrap_or_default()
        ),
        LdapFilter::GreaterOrEqual(a, v) => format!("({a}>={v})"),
        LdapFilter::LessOrEqual(a, v) => format!("({a}<={v})"),
        LdapFilter::Present(a) => format!("({a}=*)"),
        LdapFilter::Approx(a, v) => format!("({a}~={v})"),
        LdapFilter::Extensible(_) => "(extensible)".into(),
    }
}

struct LVals {
    /// (ldap attribute, candidate assertion values)
    eq: Vec<(&'static str, Vec<String>)>,
    strs: Vec<(&'static str, Vec<String>)>,
}

fn lvals(spec: &[ESpec], uni: &[LEntry]) -> LVals {
    let live: Vec<&ESpec> = spec.iter().filter(|s| !s.recycled).collect();
    let names: Vec<String> = live
        .iter()
        .take(4)
        .map(|s| s.name.clone())
        .chain(["admin".to_string(), "GA".to_string(), "nosuch".to_string(), "zr0".to_string()])
        .collect();
    let dn: Vec<String> = crate::world::DISPLAYNAMES
        .iter()
        .map(|s| s.to_string())
        .chain(["Alpha One".into(), "Anonymous".into(), "nosuch".into()])
        .collect();
    let ds: Vec<String> = crate::world::DESCRIPTIONS
        .iter()
        .map(|s| s.to_string())
        .chain(["Probe".into(), "nosuch".into()])
        .collect();
    let classes: Vec<String> = [
        "person", "group", "account", "posixgroup", "posixaccount", "object", "memberof", "service_account",
        "Group", "builtin", "nosuchclass",
    ]
    .iter()
    .map(|s| s.to_string())
    .collect();
    let gids: Vec<String> = live
        .iter()
        .filter_map(|s| s.gid)
        .take(3)
        .map(|g| g.to_string())
        .chain(["99999".to_string()])
        .collect();
    let uuids: Vec<String> = live
        .iter()
        .take(3)
        .map(|s| s.uuid.to_string())
        .chain([UUID_ANONYMOUS.to_string(), Uuid::from_u128(77).to_string()])
        .collect();
    let mut members: Vec<String> = uni
        .iter()
        .filter(|e| live.iter().any(|s| e.dn.starts_with(&format!("spn={}@", s.name))))
        .flat_map(|e| e.attrs.get("member").cloned().unwrap_or_default())
        .collect();
    members.sort();
    members.dedup();
    members.truncate(4);
    members.push(format!("spn=nosuch@example.com,{BASEDN}"));
    LVals {
        eq: vec![
            ("name", names.clone()),
            ("cn", names.clone()),
            ("uid", names.clone()),
            ("displayname", dn.clone()),
            ("gecos", dn.clone()),
            ("description", ds.clone()),
            ("class", classes.clone()),
            ("objectClass", classes.clone()),
            ("gidnumber", gids.clone()),
            ("uidNumber", gids),
            ("uuid", uuids.clone()),
            ("entryuuid", uuids),
            ("member", members),
        ],
        strs: vec![
            ("name", names.clone()),
            ("cn", names),
            ("displayname", dn),
            ("description", ds),
            ("objectclass", classes.clone()),
            ("class", classes),
        ],
    }
}

fn ldap_substring(rng: &mut Rng, v: &LVals) -> LdapFilter {
    let (attr, vals) = rng.pick(&v.strs);
    let a = rng.pick(vals).clone();
    let b = rng.pick(vals).clone();
    let cut = |s: &str, rng: &mut Rng| -> usize {
        let n = s.chars().count().max(1);
        let k = 1 + rng.usize(n);
        s.char_indices().nth(k).map(|(i, _)| i).unwrap_or(s.len())
    };
    let mut sf = LdapSubstringFilter {
        initial: None,
        any: Vec::new(),
        final_: None,
    };
    let tail = |s: &str, rng: &mut Rng| -> String {
        let n = s.chars().count().max(1);
        let k = rng.usize(n);
        s.chars().skip(k).collect()
    };
    match rng.below(7) {
        0 => sf.initial = Some(a[..cut(&a, rng)].to_string()),
        1 => sf.final_ = Some(tail(&a, rng)),
        2 => {
            let t = tail(&a, rng);
            let c = cut(&t, rng);
            sf.any.push(t[..c].to_string());
        }
        3 => {
            // initial and final from the same value, possibly overlapping
            sf.initial = Some(a[..cut(&a, rng)].to_string());
            sf.final_ = Some(tail(&a, rng));
        }
        4 => {
            // initial from one value, final from another (multi-valued attributes)
            sf.initial = Some(a[..cut(&a, rng)].to_string());
            sf.final_ = Some(tail(&b, rng));
        }
        5 => {
            // two any parts, possibly out of order
            let t = tail(&a, rng);
            let c = cut(&t, rng);
            sf.any.push(t[..c].to_string());
            sf.any.push(a[..cut(&a, rng)].to_string());
        }
        _ => {
            sf.initial = Some(a[..cut(&a, rng)].to_string());
            let t = tail(&a, rng);
            let c = cut(&t, rng);
            sf.any.push(t[..c].to_string());
            sf.final_ = Some(tail(&a, rng));
        }
    }
    LdapFilter::Substring(attr.to_string(), sf)
}

fn ldap_leaf(rng: &mut Rng, v: &LVals) -> LdapFilter {
    match rng.weighted(&[45, 14, 33, 8]) {
        0 => {
            let (a, vals) = rng.pick(&v.eq);
            LdapFilter::Equality(a.to_string(), rng.pick(vals).clone())
        }
        1 => LdapFilter::Present(
            rng.pick(&[
                "name", "cn", "displayname", "description", "member", "objectclass", "gidnumber", "uidnumber",
                "entryuuid", "gecos",
            ])
            .to_string(),
        ),
        2 => ldap_substring(rng, v),
        _ => match rng.below(3) {
            0 => LdapFilter::GreaterOrEqual("gidnumber".into(), "70003".into()),
            1 => LdapFilter::LessOrEqual("gidnumber".into(), "70003".into()),
            _ => LdapFilter::Approx("cn".into(), "ga".into()),
        },
    }
}

fn ldap_tree(rng: &mut Rng, v: &LVals, depth: usize) -> LdapFilter {
    if depth <= 1 || rng.chance(1, 3) {
        return ldap_leaf(rng, v);
    }
    match rng.weighted(&[4, 4, 3]) {
        2 => LdapFilter::Not(Box::new(ldap_tree(rng, v, depth - 1))),
        k => {
            let n = rng.range(1, 3) as usize;
            let cs: Vec<LdapFilter> = (0..n).map(|_| ldap_tree(rng, v, depth - 1)).collect();
            if k == 0 {
                LdapFilter::And(cs)
            } else {
                LdapFilter::Or(cs)
            }
        }
    }
}

fn ldap_has_not(f: &LdapFilter) -> bool {
    match f {
        LdapFilter::Not(_) => true,
        LdapFilter::And(l) | LdapFilter::Or(l) => l.iter().any(ldap_has_not),
        _ => false,
    }
}

/// a NOT is never isolated: only inside an AND next to a positive term
fn ldap_safe_tree(rng: &mut Rng, v: &LVals, depth: usize) -> LdapFilter {
    if depth <= 1 || rng.chance(1, 3) {
        return ldap_leaf(rng, v);
    }
    if rng.bool() {
        let mut cs: Vec<LdapFilter> = (0..rng.range(1, 2)).map(|_| ldap_safe_tree(rng, v, depth - 1)).collect();
        for _ in 0..rng.below(3) {
            cs.push(LdapFilter::Not(Box::new(ldap_safe_tree(rng, v, depth - 1))));
        }
        LdapFilter::And(cs)
    } else {
        LdapFilter::Or((0..rng.range(1, 3)).map(|_| ldap_safe_tree(rng, v, depth - 1)).collect())
    }
}

type LRes = Result<BTreeSet<String>, String>;

async fn ldap_search(
    w: &World,
    ldaps: &LdapServer,
    filter: &LdapFilter,
    attrs: Vec<String>,
) -> Result<Vec<ldap3_proto::proto::LdapSearchResultEntry>, String> {
    let sr = SearchRequest {
        msgid: 1,
        base: BASEDN.to_string(),
        scope: LdapSearchScope::Subtree,
        filter: filter.clone(),
        attrs,
    };
    let r = ldaps
        .do_op(
            &w.idms,
            ServerOps::Search(sr),
            None,
            IpAddr::V4(Ipv4Addr::LOCALHOST),
            Uuid::from_u128(1),
        )
        .await
        .map_err(|e| format!("{e:?}"))?;
    let msgs = match r {
        LdapResponseState::BindMultiPartResponse(_, m) | LdapResponseState::MultiPartResponse(m) => m,
        LdapResponseState::Respond(m) | LdapResponseState::Disconnect(m) => vec![m],
        _ => return Err("unexpected response state".into()),
    };
    let mut out = Vec::new();
    let mut done = false;
    for m in msgs {
        match m.op {
            LdapOp::SearchResultEntry(e) => out.push(e),
            LdapOp::SearchResultDone(r) => {
                if r.code != LdapResultCode::Success {
                    return Err(format!("{:?}", r.code));
                }
                done = true;
            }
            _ => {}
        }
    }
    if !done {
        return Err("no SearchResultDone".into());
    }
    Ok(out)
}

/// flags of the filter kanidm executes for an LDAP request (same wrapping as `do_search`)
async fn ldap_flags(w: &World, f: &LdapFilter, ident: &Identity) -> Option<(Flags, String)> {
    let wrapped = LdapFilter::And(vec![
        f.clone(),
        LdapFilter::Not(Box::new(LdapFilter::Or(vec![
            LdapFilter::Equality("class".into(), "classtype".into()),
            LdapFilter::Equality("class".into(), "attributetype".into()),
            LdapFilter::Equality("class".into(), "access_control_profile".into()),
        ]))),
    ]);
    let mut r = w.qs.read().await.ok()?;
    let fi: Filter<FilterInvalid> = Filter::from_ldap_ro(ident, &wrapped, &mut r).ok()?;
    exec_flags(&mut r, fi, ident)
}

fn exec_flags(
    r: &mut QueryServerReadTransaction<'_>,
    fi: Filter<FilterInvalid>,
    ident: &Identity,
) -> Option<(Flags, String)> {
    let fv = fi.validate(r.get_schema()).ok()?.into_ignore_hidden();
    let meta = r.get_be_txn().get_idxmeta_ref().clone();
    let u = resolve_unoptimised(&fv, ident, Some(&meta))?;
    let o = optimise(&u);
    Some((analyse(o.to_inner()), format!("{:?}", o.to_inner())))
}

// ---------------------------------------------------------------------------------------------
// SCIM side

#[derive(Clone, Debug)]
enum S {
    And(Box<S>, Box<S>),
    Or(Box<S>, Box<S>),
    Not(Box<S>),
    Pr(A),
    /// op in eq ne co sw ew gt ge lt le
    Cmp(A, &'static str, V),
}

fn scim_text(s: &S) -> String {
    match s {
        S::And(a, b) => format!("({} and {})", scim_text(a), scim_text(b)),
        S::Or(a, b) => format!("({} or {})", scim_text(a), scim_text(b)),
        S::Not(a) => format!("not ({})", scim_text(a)),
        S::Pr(a) => format!("{} pr", a.key()),
        S::Cmp(a, op, v) => match v {
            V::N(n) => format!("{} {op} {n}", a.key()),
            other => format!("{} {op} {}", a.key(), serde_json::to_string(&other.to_string()).unwrap_or_default()),
        },
    }
}

fn scim_kinds(s: &S, out: &mut BTreeSet<&'static str>) {
    match s {
        S::And(a, b) => {
            out.insert("and");
            scim_kinds(a, out);
            scim_kinds(b, out);
        }
        S::Or(a, b) => {
            out.insert("or");
            scim_kinds(a, out);
            scim_kinds(b, out);
        }
        S::Not(a) => {
            out.insert("not");
            scim_kinds(a, out);
        }
        S::Pr(_) => {
            out.insert("pr");
        }
        S::Cmp(_, op, _) => {
            out.insert(op);
        }
    }
}

fn scim_has_string_ordering(s: &S) -> bool {
    match s {
        S::And(a, b) | S::Or(a, b) => scim_has_string_ordering(a) || scim_has_string_ordering(b),
        S::Not(a) => scim_has_string_ordering(a),
        S::Pr(_) => false,
        S::Cmp(a, op, _) => {
            matches!(*op, "gt" | "ge" | "lt" | "le") && matches!(a.syn(), Syn::Iname | Syn::Iutf8 | Syn::Utf8)
        }
    }
}

/// RFC 7644 3.4.2.2. `lt_never` = the (non-standard) reading in which "less than" never holds for
/// strings; used only to name the cause of a mismatch. None = not judged by this oracle.
fn scim_eval(s: &S, e: &PEntry, ci_amb: bool, lt_never: bool) -> Option<bool> {
    Some(match s {
        S::And(a, b) => scim_eval(a, e, ci_amb, lt_never)? & scim_eval(b, e, ci_amb, lt_never)?,
        S::Or(a, b) => scim_eval(a, e, ci_amb, lt_never)? | scim_eval(b, e, ci_amb, lt_never)?,
        S::Not(a) => !scim_eval(a, e, ci_amb, lt_never)?,
        S::Pr(a) => e.attrs.contains_key(a),
        S::Cmp(a, op, v) => {
            let vals = e.attrs.get(a);
            match (a.syn(), v) {
                (Syn::Iname | Syn::Iutf8 | Syn::Utf8, V::S(want)) => {
                    let ci = match a.syn() {
                        Syn::Utf8 => ci_amb,
                        _ => true,
                    };
                    let w = fold(want, ci);
                    let any = |p: &dyn Fn(&str) -> bool| -> bool {
                        vals.map(|vs| {
                            vs.iter().any(|x| match x {
                                V::S(x) => p(&fold(x, ci)),
                                _ => false,
                            })
                        })
                        .unwrap_or(false)
                    };
                    // in the "less-than never holds" reading: gt = present and no value equal
                    // (all values), ge = present, le = eq
                    let all_ne = vals
                        .map(|vs| vs.iter().all(|x| !matches!(x, V::S(x) if fold(x, ci) == w)))
                        .unwrap_or(false);
                    match *op {
                        "eq" => any(&|x| x == w),
                        "co" => any(&|x| x.contains(&w)),
                        "sw" => any(&|x| x.starts_with(&w)),
                        "ew" => any(&|x| x.ends_with(&w)),
                        "lt" => !lt_never && any(&|x| x < w.as_str()),
                        "le" => {
                            if lt_never {
                                any(&|x| x == w)
                            } else {
                                any(&|x| x <= w.as_str())
                            }
                        }
                        "gt" => {
                            if lt_never {
                                vals.is_some() && all_ne
                            } else {
                                any(&|x| x > w.as_str())
                            }
                        }
                        "ge" => {
                            if lt_never {
                                vals.is_some()
                            } else {
                                any(&|x| x >= w.as_str())
                            }
                        }
                        _ => return None,
                    }
                }
                (Syn::Uuid | Syn::Refer, V::U(want)) => match *op {
                    "eq" => vals
                        .map(|vs| vs.iter().any(|x| matches!(x, V::U(u) if u == want)))
                        .unwrap_or(false),
                    _ => return None,
                },
                (Syn::U32, V::N(want)) => {
                    let any = |p: &dyn Fn(u32) -> bool| {
                        vals.map(|vs| vs.iter().any(|x| matches!(x, V::N(n) if p(*n))))
                            .unwrap_or(false)
                    };
                    match *op {
                        "eq" => any(&|n| n == *want),
                        "lt" => any(&|n| n < *want),
                        "le" => any(&|n| n <= *want),
                        "gt" => any(&|n| n > *want),
                        "ge" => any(&|n| n >= *want),
                        _ => return None,
                    }
                }
                _ => return None,
            }
        }
    })
}

fn scim_answer(s: &S, pop: &[PEntry], ci: bool, lt_never: bool) -> Option<BTreeSet<Uuid>> {
    let mut a = BTreeSet::new();
    for e in pop {
        if scim_eval(s, e, ci, lt_never)? {
            a.insert(e.uuid);
        }
    }
    Some(a)
}

fn scim_reference(s: &S, pop: &[PEntry], lt_never: bool) -> Option<BTreeSet<Uuid>> {
    let mut a = BTreeSet::new();
    let mut b = BTreeSet::new();
    for e in pop {
        if scim_eval(s, e, true, lt_never)? {
            a.insert(e.uuid);
        }
        if scim_eval(s, e, false, lt_never)? {
            b.insert(e.uuid);
        }
    }
    if a == b {
        Some(a)
    } else {
        None
    }
}

struct SVals {
    names: Vec<String>,
    dnames: Vec<String>,
    descs: Vec<String>,
    classes: Vec<String>,
    uuids: Vec<Uuid>,
    gids: Vec<u32>,
}

fn svals(spec: &[ESpec]) -> SVals {
    let live: Vec<&ESpec> = spec.iter().filter(|s| !s.recycled).collect();
    SVals {
        names: live
            .iter()
            .take(4)
            .map(|s| s.name.clone())
            .chain(["admin".to_string(), "GB".to_string(), "idm".to_string(), "m".to_string(), "zr0".to_string()])
            .collect(),
        dnames: crate::world::DISPLAYNAMES
            .iter()
            .map(|s| s.to_string())
            .chain(["Beta".into(), "b".into(), "two".into()])
            .collect(),
        descs: crate::world::DESCRIPTIONS
            .iter()
            .map(|s| s.to_string())
            .chain(["pro".into(), "thing".into(), "Builtin".into()])
            .collect(),
        classes: ["person", "group", "object", "posixgroup", "account", "Group", "p", "nosuch"]
            .iter()
            .map(|s| s.to_string())
            .collect(),
        uuids: live
            .iter()
            .take(4)
            .map(|s| s.uuid)
            .chain([UUID_ANONYMOUS, Uuid::from_u128(99)])
            .collect(),
        gids: live.iter().filter_map(|s| s.gid).take(2).chain([70_003]).collect(),
    }
}

fn scim_leaf(rng: &mut Rng, v: &SVals) -> S {
    if rng.chance(1, 7) {
        return S::Pr(*rng.pick(&[A::Name, A::DisplayName, A::Description, A::Member, A::Class, A::GidNumber]));
    }
    let strop = |rng: &mut Rng| -> &'static str {
        *rng.pick(&["eq", "eq", "eq", "co", "sw", "ew", "gt", "ge", "lt", "le", "ne"])
    };
    match rng.weighted(&[5, 3, 3, 4, 2, 2, 1]) {
        0 => S::Cmp(A::Name, strop(rng), V::S(rng.pick(&v.names).clone())),
        1 => S::Cmp(A::DisplayName, strop(rng), V::S(rng.pick(&v.dnames).clone())),
        2 => S::Cmp(A::Description, strop(rng), V::S(rng.pick(&v.descs).clone())),
        3 => S::Cmp(A::Class, strop(rng), V::S(rng.pick(&v.classes).clone())),
        4 => S::Cmp(A::Member, "eq", V::U(*rng.pick(&v.uuids))),
        5 => S::Cmp(A::Uuid, "eq", V::U(*rng.pick(&v.uuids))),
        _ => S::Cmp(
            A::GidNumber,
            *rng.pick(&["eq", "gt", "ge", "lt", "le"]),
            V::N(*rng.pick(&v.gids)),
        ),
    }
}

fn scim_tree(rng: &mut Rng, v: &SVals, depth: usize, safe: bool) -> S {
    if depth <= 1 || rng.chance(1, 3) {
        return scim_leaf(rng, v);
    }
    if safe {
        // a NOT only as the right-hand side of an AND whose left-hand side is positive
        return match rng.below(3) {
            0 => S::And(
                Box::new(scim_tree(rng, v, depth - 1, true)),
                Box::new(S::Not(Box::new(scim_tree(rng, v, depth - 1, true)))),
            ),
            1 => S::And(
                Box::new(scim_tree(rng, v, depth - 1, true)),
                Box::new(scim_tree(rng, v, depth - 1, true)),
            ),
            _ => S::Or(
                Box::new(scim_tree(rng, v, depth - 1, true)),
                Box::new(scim_tree(rng, v, depth - 1, true)),
            ),
        };
    }
    match rng.weighted(&[4, 4, 3]) {
        0 => S::And(
            Box::new(scim_tree(rng, v, depth - 1, false)),
            Box::new(scim_tree(rng, v, depth - 1, false)),
        ),
        1 => S::Or(
            Box::new(scim_tree(rng, v, depth - 1, false)),
            Box::new(scim_tree(rng, v, depth - 1, false)),
        ),
        _ => S::Not(Box::new(scim_tree(rng, v, depth - 1, false))),
    }
}

fn scim_search(
    r: &mut QueryServerReadTransaction<'_>,
    ident: &Identity,
    sf: &ScimFilter,
) -> Result<BTreeSet<Uuid>, String> {
    match catch_unwind(AssertUnwindSafe(|| {
        r.scim_search_ext(ident.clone(), sf.clone(), ScimEntryGetQuery::default())
    })) {
        Ok(Ok(l)) => Ok(l.resources.iter().map(|e| e.header.id).collect()),
        Ok(Err(e)) => Err(format!("{e:?}")),
        Err(_) => Err("PANIC".into()),
    }
}

fn is_generic(sig: &str) -> bool {
    sig.ends_with("/ldap-answer-superset")
        || sig.ends_with("/ldap-mismatch-without-isolated-andnot")
        || sig.ends_with("/scim-answer-superset")
        || sig.ends_with("/scim-mismatch-without-isolated-andnot")
}

async fn ldap_classify(
    w: &World,
    anon: &Identity,
    uni: &[LEntry],
    f: &LdapFilter,
    got: &BTreeSet<String>,
    want: &BTreeSet<String>,
) -> (String, Flags, String) {
    let (fl, exec) = ldap_flags(w, f, anon).await.unwrap_or((Flags::default(), String::new()));
    let fake = |s: &BTreeSet<String>| -> BTreeSet<Uuid> {
        s.iter().map(|d| Uuid::from_u128(kvcore::rng::hash_str(d) as u128)).collect()
    };
    let mut sig = classify("c41", "ldap", &fake(got), &fake(want), &fl);
    let mut kinds = BTreeSet::new();
    ldap_kinds(f, &mut kinds);
    // an exact match with the alternative reading is a verified explanation: it goes first
    if kinds.contains("substring")
        && (ldap_answer(f, uni, true, true).as_ref() == Some(got)
            || ldap_answer(f, uni, false, true).as_ref() == Some(got))
    {
        sig = "c41/ldap-substring-parts-matched-independently".into();
    } else if is_generic(&sig) && kinds.contains("substring") {
        for ci in [true, false] {
            if let Some(alt) = ldap_answer(f, uni, ci, true) {
                let s2 = classify("c41", "ldap", &fake(got), &fake(&alt), &fl);
                if !is_generic(&s2) {
                    sig = format!(
                        "c41/ldap-substring-parts-matched-independently+{}",
                        s2.trim_start_matches("c41/")
                    );
                    break;
                }
            }
        }
    }
    (sig, fl, exec)
}

fn ldap_shrinks(f: &LdapFilter) -> Vec<LdapFilter> {
    let mut out = Vec::new();
    match f {
        LdapFilter::And(l) | LdapFilter::Or(l) => {
            let is_and = matches!(f, LdapFilter::And(_));
            let mk = |m: Vec<LdapFilter>| if is_and { LdapFilter::And(m) } else { LdapFilter::Or(m) };
            out.extend(l.iter().cloned());
            if l.len() > 1 {
                for i in 0..l.len() {
                    let mut m = l.clone();
                    m.remove(i);
                    out.push(mk(m));
                }
            }
            for i in 0..l.len() {
                for sx in ldap_shrinks(&l[i]) {
                    let mut m = l.clone();
                    m[i] = sx;
                    out.push(mk(m));
                }
            }
        }
        LdapFilter::Not(x) => {
            out.push((**x).clone());
            for sx in ldap_shrinks(x) {
                out.push(LdapFilter::Not(Box::new(sx)));
            }
        }
        LdapFilter::Substring(a, sf) => {
            let parts = sf.initial.is_some() as usize + sf.any.len() + sf.final_.is_some() as usize;
            if parts > 1 {
                if sf.initial.is_some() {
                    let mut t = sf.clone();
                    t.initial = None;
                    out.push(LdapFilter::Substring(a.clone(), t));
                }
                if sf.final_.is_some() {
                    let mut t = sf.clone();
                    t.final_ = None;
                    out.push(LdapFilter::Substring(a.clone(), t));
                }
                for i in 0..sf.any.len() {
                    let mut t = sf.clone();
                    t.any.remove(i);
                    out.push(LdapFilter::Substring(a.clone(), t));
                }
            }
        }
        _ => {}
    }
    out
}

fn scim_shrinks(s: &S) -> Vec<S> {
    let mut out = Vec::new();
    match s {
        S::And(a, b) | S::Or(a, b) => {
            let is_and = matches!(s, S::And(..));
            let mk = |x: S, y: S| if is_and { S::And(Box::new(x), Box::new(y)) } else { S::Or(Box::new(x), Box::new(y)) };
            out.push((**a).clone());
            out.push((**b).clone());
            for sx in scim_shrinks(a) {
                out.push(mk(sx, (**b).clone()));
            }
            for sx in scim_shrinks(b) {
                out.push(mk((**a).clone(), sx));
            }
        }
        S::Not(a) => {
            out.push((**a).clone());
            for sx in scim_shrinks(a) {
                out.push(S::Not(Box::new(sx)));
            }
        }
        _ => {}
    }
    out
}

fn scim_classify(
    r: &mut QueryServerReadTransaction<'_>,
    ident: &Identity,
    plain: &[PEntry],
    s: &S,
    sf: &ScimFilter,
    got: &BTreeSet<Uuid>,
    want: &BTreeSet<Uuid>,
) -> (String, Flags, String) {
    let (fl, exec) = match Filter::from_scim_ro(ident, sf, r) {
        Ok(fi) => exec_flags(r, fi, ident).unwrap_or((Flags::default(), String::new())),
        Err(_) => (Flags::default(), String::new()),
    };
    let mut sig = classify("c41", "scim", got, want, &fl);
    if scim_has_string_ordering(s)
        && (scim_answer(s, plain, true, true).as_ref() == Some(got)
            || scim_answer(s, plain, false, true).as_ref() == Some(got))
    {
        sig = "c41/scim-ordering-on-string-not-lexicographic".into();
    } else if is_generic(&sig) && scim_has_string_ordering(s) {
        // two causes at once: relative to the reading in which string "less than" never holds,
        // is the remaining difference one of the index-planner classes?
        for ci in [true, false] {
            if let Some(alt) = scim_answer(s, plain, ci, true) {
                let s2 = classify("c41", "scim", got, &alt, &fl);
                if !is_generic(&s2) {
                    sig = format!(
                        "c41/scim-ordering-on-string-not-lexicographic+{}",
                        s2.trim_start_matches("c41/")
                    );
                    break;
                }
            }
        }
    }
    (sig, fl, exec)
}

// ---------------------------------------------------------------------------------------------

fn brief_l(uni: &[LEntry], dns: &BTreeSet<String>) -> Vec<String> {
    uni.iter()
        .filter(|e| dns.contains(&e.dn))
        .take(5)
        .map(|e| {
            let pick = |k: &str| e.attrs.get(k).map(|v| v.join(",")).unwrap_or_default();
            format!(
                "{} objectclass={} displayname={} description={} gidnumber={}",
                e.dn,
                pick("objectclass"),
                pick("displayname"),
                pick("description"),
                pick("gidnumber")
            )
        })
        .collect()
}

async fn one_round(acc: &mut Acc, seed: u64, n_ldap: usize, n_scim: usize) -> Result<(), String> {
    let mut rng = Rng::new(seed);
    let spec = gen_population(&mut rng);
    let mut w = World::new().await?;
    let grant: Vec<Attribute> = crate::model::ALL_A
        .iter()
        .map(|a| a.attr())
        .chain([Attribute::Spn])
        .collect();
    w.install(&spec, &grant).await?;
    w.set_layout(&Layout::default_()).await?;
    let ldaps = LdapServer::new(&w.idms).await.map_err(|e| format!("ldap server: {e:?}"))?;
    let anon = w.anon_ident().await?;

    // which multi-valued ordered attributes exist, and can a protocol filter reach them?
    {
        let r = w.qs.read().await.map_err(|e| format!("{e:?}"))?;
        for (name, sa) in r.get_schema().get_attributes().iter() {
            if sa.multivalue
                && matches!(
                    sa.syntax,
                    SyntaxType::Uint32 | SyntaxType::Uint64 | SyntaxType::Int64 | SyntaxType::DateTime
                )
            {
                acc.observe("multivalued_ordered_attributes_in_schema", &format!("{name}:{:?}", sa.syntax));
            }
        }
    }

    // ---------------- LDAP
    let all = ldap_search(
        &w,
        &ldaps,
        &LdapFilter::Present("objectclass".into()),
        vec!["*".into(), "+".into()],
    )
    .await
    .map_err(|e| format!("cannot list the directory over LDAP: {e}"))?;
    let uni: Vec<LEntry> = all
        .into_iter()
        .map(|e| LEntry {
            dn: e.dn,
            attrs: e
                .attributes
                .into_iter()
                .map(|a| {
                    (
                        a.atype.to_lowercase(),
                        a.vals
                            .into_iter()
                            .map(|v| String::from_utf8_lossy(&v).to_string())
                            .collect(),
                    )
                })
                .collect(),
        })
        .collect();
    // positive control: every live population entry is presented with every alphabet attribute it has
    for s in spec.iter().filter(|s| !s.recycled) {
        let Some(e) = uni.iter().find(|e| e.dn == format!("spn={}@example.com,{BASEDN}", s.name)) else {
            return Err(format!("population entry {} is not visible over LDAP", s.name));
        };
        let has = |k: &str| e.attrs.contains_key(k);
        if !has("name") || !has("cn") || !has("objectclass") || !has("entryuuid")
            || (s.displayname.is_some() && !(has("displayname") && has("gecos")))
            || (s.description.is_some() && !has("description"))
            || (!s.members.is_empty() && !has("member"))
            || (s.gid.is_some() && !(has("gidnumber") && has("uidnumber")))
        {
            return Err(format!("population entry {} is not fully readable over LDAP: {:?}", s.name, e.attrs.keys()));
        }
    }
    for s in spec.iter().filter(|s| s.recycled) {
        if uni.iter().any(|e| e.dn.starts_with(&format!("spn={}@", s.name))) {
            return Err("a deleted entry is presented over LDAP".into());
        }
    }
    acc.observe("ldap_universe_sizes", &uni.len().to_string());
    let lv = lvals(&spec, &uni);
    for i in 0..n_ldap {
        let f = match i % 3 {
            0 => {
                let d = 2 + rng.usize(2);
                ldap_safe_tree(&mut rng, &lv, d)
            }
            1 => ldap_tree(&mut rng, &lv, 3),
            _ => ldap_leaf(&mut rng, &lv),
        };
        acc.eval();
        let mut kinds = BTreeSet::new();
        ldap_kinds(&f, &mut kinds);
        for k in &kinds {
            acc.count(&format!("ldap.filters.with.{k}"));
        }
        let got: LRes = ldap_search(&w, &ldaps, &f, vec!["1.1".into()])
            .await
            .map(|es| es.into_iter().map(|e| e.dn).collect());
        let got = match got {
            Err(e) => {
                acc.count("ldap.rejected");
                acc.observe("ldap_rejections", &e);
                for k in ["ge", "le", "approx"] {
                    if kinds.contains(k) {
                        acc.count(&format!("ldap.rejected.with.{k}"));
                    }
                }
                continue;
            }
            Ok(g) => g,
        };
        acc.count("ldap.answered");
        let Some(want) = ldap_reference(&f, &uni, false) else {
            acc.count("ldap.answered.not-judged(case rule of displayname/description, or operator outside the oracle)");
            continue;
        };
        if !want.is_empty() && want.len() < uni.len() && kinds.len() >= 2 {
            acc.nontrivial(&format!("ldap|{seed}|{}", ldap_text(&f)));
        }
        if got == want {
            acc.count("ldap.agree");
            if !want.is_empty() {
                acc.count("ldap.agree.nonempty");
            }
            if ldap_has_not(&f) && !want.is_empty() {
                acc.count("ldap.agree.with-not.nonempty");
            }
            if kinds.contains("substring") && !want.is_empty() {
                acc.count("ldap.agree.substring.nonempty");
            }
            if acc.samples.len() < 3 && kinds.len() >= 3 && !want.is_empty() {
                acc.sample(json!({"protocol": "ldap", "filter": ldap_text(&f), "answer": want.iter().take(4).collect::<Vec<_>>()}));
            }
            continue;
        }
        // classify; when no single cause class explains the answer, shrink the filter first so
        // that overlapping causes separate
        let (mut sig, mut fl, mut exec) = ldap_classify(&w, &anon, &uni, &f, &got, &want).await;
        let mut shrunk = None;
        if is_generic(&sig) {
            let mut cur = f.clone();
            let mut cur_gw = (got.clone(), want.clone());
            let mut budget = 50;
            'outer: loop {
                for c in ldap_shrinks(&cur) {
                    if budget == 0 {
                        break 'outer;
                    }
                    budget -= 1;
                    let Some(cw) = ldap_reference(&c, &uni, false) else { continue };
                    let Ok(cg) = ldap_search(&w, &ldaps, &c, vec!["1.1".into()]).await else { continue };
                    let cg: BTreeSet<String> = cg.into_iter().map(|e| e.dn).collect();
                    if cg != cw {
                        cur = c;
                        cur_gw = (cg, cw);
                        continue 'outer;
                    }
                }
                break;
            }
            if cur != f {
                let (s2, f2, e2) = ldap_classify(&w, &anon, &uni, &cur, &cur_gw.0, &cur_gw.1).await;
                shrunk = Some(json!({"filter": ldap_text(&cur), "answer_size": cur_gw.0.len(), "reference_size": cur_gw.1.len(), "executed_filter": e2.clone()}));
                sig = s2;
                fl = f2;
                exec = e2;
            }
        }
        let missing: BTreeSet<String> = want.difference(&got).cloned().collect();
        let surplus: BTreeSet<String> = got.difference(&want).cloned().collect();
        viol(acc, &sig, json!({
            "protocol": "ldap", "population_seed": seed, "filter": ldap_text(&f),
            "answer_size": got.len(), "reference_size": want.len(),
            "missing_from_answer": brief_l(&uni, &missing), "surplus_in_answer": brief_l(&uni, &surplus),
            "shrunk": shrunk, "signature_computed_from": if shrunk.is_some() { "shrunk filter" } else { "original filter" },
            "executed_filter": exec, "executed_filter_flags": format!("{fl:?}"),
        }));
    }

    // ---------------- SCIM
    let plain = w.live_pop().await?;
    let anon_entry = {
        let mut r = w.qs.read().await.map_err(|e| format!("{e:?}"))?;
        r.internal_search_uuid(UUID_ANONYMOUS).map_err(|e| format!("{e:?}"))?
    };
    // anonymous with unlimited resource limits (otherwise every unindexed term is refused), read-only
    let anon_unl = Identity::from_impersonate_entry_readwrite(anon_entry).project_with_scope(AccessScope::ReadOnly);
    {
        // positive control: the identity sees every live entry
        let mut r = w.qs.read().await.map_err(|e| format!("{e:?}"))?;
        let sf = ScimFilter::from_str("class pr").map_err(|e| format!("{e:?}"))?;
        let all = scim_search(&mut r, &anon_unl, &sf).map_err(|e| format!("scim list: {e}"))?;
        let want: BTreeSet<Uuid> = plain.iter().map(|e| e.uuid).collect();
        if all != want {
            return Err(format!(
                "SCIM 'class pr' shows {} entries, the dump has {} live ones",
                all.len(),
                want.len()
            ));
        }
    }
    let sv = svals(&spec);
    for i in 0..n_scim {
        let s = match i % 3 {
            0 => scim_tree(&mut rng, &sv, 3, true),
            1 => scim_tree(&mut rng, &sv, 3, false),
            _ => scim_leaf(&mut rng, &sv),
        };
        acc.eval();
        let text = scim_text(&s);
        let mut kinds = BTreeSet::new();
        scim_kinds(&s, &mut kinds);
        for k in &kinds {
            acc.count(&format!("scim.filters.with.{k}"));
        }
        let sf = match ScimFilter::from_str(&text) {
            Ok(sf) => sf,
            Err(_) => {
                acc.count("scim.parse-rejected");
                acc.observe("scim_parse_rejections", &text);
                continue;
            }
        };
        let ident = if i % 4 == 3 { &anon } else { &anon_unl };
        let got = {
            let mut r = w.qs.read().await.map_err(|e| format!("{e:?}"))?;
            scim_search(&mut r, ident, &sf)
        };
        let got = match got {
            Err(e) => {
                acc.count("scim.rejected");
                acc.observe("scim_rejections", e.split('(').next().unwrap_or(&e));
                if e == "PANIC" {
                    viol(acc, "c41/scim-panic", json!({"filter": text}));
                }
                for k in ["ne", "gt", "ge", "lt", "le"] {
                    if kinds.contains(k) {
                        acc.count(&format!("scim.rejected.with.{k}"));
                    }
                }
                continue;
            }
            Ok(g) => g,
        };
        acc.count("scim.answered");
        let Some(want) = scim_reference(&s, &plain, false) else {
            acc.count("scim.answered.not-judged(case rule of displayname/description)");
            continue;
        };
        if !want.is_empty() && want.len() < plain.len() && kinds.len() >= 2 {
            acc.nontrivial(&format!("scim|{seed}|{text}"));
        }
        if got == want {
            acc.count("scim.agree");
            if !want.is_empty() {
                acc.count("scim.agree.nonempty");
            }
            for k in ["gt", "ge", "lt", "le", "co", "sw", "ew", "not"] {
                if kinds.contains(k) {
                    acc.count(&format!("scim.agree.with.{k}"));
                }
            }
            if acc.samples.len() < 6 && kinds.len() >= 3 && !want.is_empty() {
                acc.sample(json!({"protocol": "scim", "filter": text, "answer": want.iter().take(4).map(short_uuid).collect::<Vec<_>>()}));
            }
            continue;
        }
        let (mut sig, mut fl, mut exec) = {
            let mut r = w.qs.read().await.map_err(|e| format!("{e:?}"))?;
            scim_classify(&mut r, ident, &plain, &s, &sf, &got, &want)
        };
        let mut shrunk = None;
        if is_generic(&sig) {
            let mut cur = s.clone();
            let mut cur_gw = (got.clone(), want.clone());
            let mut budget = 50;
            'outer: loop {
                for c in scim_shrinks(&cur) {
                    if budget == 0 {
                        break 'outer;
                    }
                    budget -= 1;
                    let Some(cw) = scim_reference(&c, &plain, false) else { continue };
                    let Ok(csf) = ScimFilter::from_str(&scim_text(&c)) else { continue };
                    let cg = {
                        let mut r = w.qs.read().await.map_err(|e| format!("{e:?}"))?;
                        scim_search(&mut r, ident, &csf)
                    };
                    let Ok(cg) = cg else { continue };
                    if cg != cw {
                        cur = c;
                        cur_gw = (cg, cw);
                        continue 'outer;
                    }
                }
                break;
            }
            let ctext = scim_text(&cur);
            if ctext != text {
                if let Ok(csf) = ScimFilter::from_str(&ctext) {
                    let mut r = w.qs.read().await.map_err(|e| format!("{e:?}"))?;
                    let (s2, f2, e2) = scim_classify(&mut r, ident, &plain, &cur, &csf, &cur_gw.0, &cur_gw.1);
                    shrunk = Some(json!({"filter": ctext, "answer_size": cur_gw.0.len(), "reference_size": cur_gw.1.len(), "executed_filter": e2.clone()}));
                    sig = s2;
                    fl = f2;
                    exec = e2;
                }
            }
        }
        let missing: Vec<String> = plain
            .iter()
            .filter(|e| want.contains(&e.uuid) && !got.contains(&e.uuid))
            .take(4)
            .map(|e| e.brief())
            .collect();
        let surplus: Vec<String> = plain
            .iter()
            .filter(|e| got.contains(&e.uuid) && !want.contains(&e.uuid))
            .take(4)
            .map(|e| e.brief())
            .collect();
        viol(acc, &sig, json!({
            "protocol": "scim", "population_seed": seed, "filter": text,
            "answer_size": got.len(), "reference_size": want.len(),
            "missing_from_answer": missing, "surplus_in_answer": surplus,
            "shrunk": shrunk, "signature_computed_from": if shrunk.is_some() { "shrunk filter" } else { "original filter" },
            "executed_filter": exec, "executed_filter_flags": format!("{fl:?}"),
        }));
    }
    Ok(())
}

pub fn run(args: Args) {
    let mut run = Run::new(
        args.clone(),
        "exploration",
        "random LDAP filter trees (and/or/not, equality, presence, substring initial/any/final incl. overlapping and cross-value parts, >=, <=, ~=) through the real gateway as anonymous, and random SCIM filter text (and/or/not, pr eq ne co sw ew gt ge lt le) through scim_search_ext, on a population of 6-12 persons/groups plus the built-in entries; depth<=3; non-trivial = >=2 operator kinds and an answer that is neither empty nor everything; distinct by (population, filter text)",
    );
    run.assume("LDAP oracle universe = what the gateway presents for (objectclass=*) with attributes * and + to the same (anonymous) identity; an ACP created by the harness grants it search/read on name, displayname, description, member, class, gidnumber, uuid, spn of every entry");
    run.assume("equality/substring on displayname, gecos, description: the case rule is not published by the gateway; cases where case-exact and case-ignore readings differ are not judged. cn/uid/name/objectclass/class are case-insensitive (RFC 4519); SCIM strings on name/class likewise (caseExact=false)");
    run.assume("not generated, hence not judged: LDAP extensible match, dn/entrydn/homedirectory virtual attributes, SCIM co/sw/ew/ordering on uuid/reference attributes, SCIM sub-attribute and complex filters");
    let rounds: usize = args.tier.pick(1, 12);
    let n_ldap: usize = args.tier.pick(1200, 3000);
    let n_scim: usize = args.tier.pick(1200, 3000);
    let seed = args.seed;
    run.parallel(args.workers, |w, _n| {
        let mut acc = Acc::new();
        let rt = kvcore::srv::rt();
        for round in 0..rounds {
            let s = kvcore::rng::mix(seed, w as u64, 4100 + round as u64);
            match rt.block_on(one_round(&mut acc, s, n_ldap, n_scim)) {
                Ok(()) => acc.count("rounds"),
                Err(e) => acc.inconclusive(&format!("worker {w} round {round}: {e}")),
            }
        }
        acc
    });
    let a = run.acc.clone();
    let mv = a
        .sets
        .get("multivalued_ordered_attributes_in_schema")
        .map(|s| s.iter().cloned().collect::<Vec<_>>())
        .unwrap_or_default();
    run.extra("multivalued_ordered_attributes_in_schema", json!(mv));
    run.extra("multivalued_ordered_attributes_reachable", json!("none: LDAP >=/<= are rejected for every attribute and SCIM rejects comparison values for uint32/uint64/int64/datetime syntaxes (see counters scim.rejected.with.* / ldap.rejected.with.*)"));
    let need = |k: &str, n: u64| (a.get(k) >= n, format!("counter {k} = {} < {n}", a.get(k)));
    let mut checks = vec![
        need("rounds", 1),
        need("ldap.answered", 2000),
        need("ldap.rejected", 50),
        need("ldap.agree.nonempty", 500),
        need("ldap.agree.with-not.nonempty", 30),
        need("ldap.agree.substring.nonempty", 100),
        need("scim.answered", 2000),
        need("scim.rejected", 100),
        need("scim.agree.nonempty", 500),
        need("scim.agree.with.not", 100),
        need("scim.agree.with.co", 50),
        need("scim.agree.with.sw", 50),
        need("scim.agree.with.ew", 50),
    ];
    for k in ["and", "or", "not", "eq", "present", "substring.initial", "substring.any", "substring.final", "ge", "le"] {
        checks.push(need(&format!("ldap.filters.with.{k}"), 50));
    }
    for k in ["and", "or", "not", "pr", "eq", "ne", "co", "sw", "ew", "gt", "ge", "lt", "le"] {
        checks.push(need(&format!("scim.filters.with.{k}"), 50));
    }
    for (ok, why) in checks {
        run.require(ok, &why);
    }
    crate::model::check_witness_retention(&mut run);
    run.finish();
}
