//! The harness's own view of entries and filters: a plain entry representation taken from the
//! storage dump, a small filter AST, and a reference boolean evaluator. Nothing in here calls
//! kanidm's matcher; kanidm types appear only in the conversions *to* kanidm inputs and in the
//! structural walker over the (public) `FilterResolved` enum used for classifying witnesses.

use kanidmd_lib::filter::{FilterResolved, FC};
use kanidmd_lib::prelude::*;
use serde_json::Value as Json;
use std::collections::{BTreeMap, BTreeSet};
use std::fmt;

/// The attribute alphabet shared by the checks.
#[derive(Clone, Copy, PartialEq, Eq, Hash, Debug, PartialOrd, Ord)]
pub enum A {
    Name,
    DisplayName,
    Description,
    Member,
    Class,
    GidNumber,
    Uuid,
}

#[derive(Clone, Copy, PartialEq, Eq, Debug)]
pub enum Syn {
    Iname,
    Iutf8,
    Utf8,
    U32,
    Refer,
    Uuid,
}

pub const ALL_A: [A; 7] = [
    A::Name,
    A::DisplayName,
    A::Description,
    A::Member,
    A::Class,
    A::GidNumber,
    A::Uuid,
];

impl A {
    pub fn attr(&self) -> Attribute {
        match self {
            A::Name => Attribute::Name,
            A::DisplayName => Attribute::DisplayName,
            A::Description => Attribute::Description,
            A::Member => Attribute::Member,
            A::Class => Attribute::Class,
            A::GidNumber => Attribute::GidNumber,
            A::Uuid => Attribute::Uuid,
        }
    }
    pub fn key(&self) -> &'static str {
        match self {
            A::Name => "name",
            A::DisplayName => "displayname",
            A::Description => "description",
            A::Member => "member",
            A::Class => "class",
            A::GidNumber => "gidnumber",
            A::Uuid => "uuid",
        }
    }
    pub fn syn(&self) -> Syn {
        match self {
            A::Name => Syn::Iname,
            A::DisplayName | A::Description => Syn::Utf8,
            A::Member => Syn::Refer,
            A::Class => Syn::Iutf8,
            A::GidNumber => Syn::U32,
            A::Uuid => Syn::Uuid,
        }
    }
    /// storage tag the dump is expected to carry for this attribute
    fn dump_tag(&self) -> &'static str {
        match self.syn() {
            Syn::Iname => "N8",
            Syn::Iutf8 => "I8",
            Syn::Utf8 => "U8",
            Syn::U32 => "UI",
            Syn::Refer => "RF",
            Syn::Uuid => "UU",
        }
    }
}

/// A plain value: what is stored, or what a filter asserts.
#[derive(Clone, Debug, PartialEq, Eq, Hash, PartialOrd, Ord)]
pub enum V {
    S(String),
    N(u32),
    U(Uuid),
}

impl fmt::Display for V {
    fn fmt(&self, f: &mut fmt::Formatter<'_>) -> fmt::Result {
        match self {
            V::S(s) => write!(f, "{s}"),
            V::N(n) => write!(f, "{n}"),
            V::U(u) => write!(f, "{u}"),
        }
    }
}

/// The harness's filter tree.
#[derive(Clone, Debug, PartialEq, Eq, Hash)]
pub enum F {
    Eq(A, V),
    /// substring: contains
    Cnt(A, String),
    Pres(A),
    /// strictly less than, on the uint32 attribute
    Lt(A, u32),
    And(Vec<F>),
    Or(Vec<F>),
    Not(Box<F>),
    SelfUuid,
}

impl fmt::Display for F {
    fn fmt(&self, f: &mut fmt::Formatter<'_>) -> fmt::Result {
        match self {
            F::Eq(a, v) => write!(f, "({}={})", a.key(), v),
            F::Cnt(a, s) => write!(f, "({}=*{}*)", a.key(), s),
            F::Pres(a) => write!(f, "({}=*)", a.key()),
            F::Lt(a, n) => write!(f, "({}<{})", a.key(), n),
            F::And(l) => {
                write!(f, "(&")?;
                for x in l {
                    write!(f, "{x}")?;
                }
                write!(f, ")")
            }
            F::Or(l) => {
                write!(f, "(|")?;
                for x in l {
                    write!(f, "{x}")?;
                }
                write!(f, ")")
            }
            F::Not(x) => write!(f, "(!{x})"),
            F::SelfUuid => write!(f, "(uuid=SELF)"),
        }
    }
}

impl F {
    pub fn to_fc(&self) -> FC {
        match self {
            F::Eq(a, v) => FC::Eq(a.attr(), pv(*a, v)),
            F::Cnt(a, s) => FC::Cnt(a.attr(), pv(*a, &V::S(s.clone()))),
            F::Pres(a) => FC::Pres(a.attr()),
            F::Lt(a, n) => FC::LessThan(a.attr(), PartialValue::Uint32(*n)),
            F::And(l) => FC::And(l.iter().map(|x| x.to_fc()).collect()),
            F::Or(l) => FC::Or(l.iter().map(|x| x.to_fc()).collect()),
            F::Not(x) => FC::AndNot(Box::new(x.to_fc())),
            F::SelfUuid => FC::SelfUuid,
        }
    }

    pub fn depth(&self) -> usize {
        match self {
            F::And(l) | F::Or(l) => 1 + l.iter().map(|x| x.depth()).max().unwrap_or(0),
            F::Not(x) => 1 + x.depth(),
            _ => 1,
        }
    }

    /// operator kinds used (for the non-triviality rule and histograms)
    pub fn kinds(&self, out: &mut BTreeSet<&'static str>) {
        match self {
            F::Eq(..) => {
                out.insert("eq");
            }
            F::Cnt(..) => {
                out.insert("sub");
            }
            F::Pres(..) => {
                out.insert("pres");
            }
            F::Lt(..) => {
                out.insert("lt");
            }
            F::SelfUuid => {
                out.insert("self");
            }
            F::And(l) => {
                out.insert("and");
                l.iter().for_each(|x| x.kinds(out));
            }
            F::Or(l) => {
                out.insert("or");
                l.iter().for_each(|x| x.kinds(out));
            }
            F::Not(x) => {
                out.insert("not");
                x.kinds(out);
            }
        }
    }

    /// (attribute, index type name) pairs the leaf terms would use
    pub fn leaf_keys(&self, out: &mut BTreeSet<(A, &'static str)>) {
        match self {
            F::Eq(a, _) => {
                out.insert((*a, "eq"));
            }
            F::Cnt(a, _) => {
                out.insert((*a, "sub"));
            }
            F::Pres(a) => {
                out.insert((*a, "pres"));
            }
            F::Lt(a, _) => {
                out.insert((*a, "ord"));
            }
            F::SelfUuid => {
                out.insert((A::Uuid, "eq"));
            }
            F::And(l) | F::Or(l) => l.iter().for_each(|x| x.leaf_keys(out)),
            F::Not(x) => x.leaf_keys(out),
        }
    }

    pub fn has_not(&self) -> bool {
        match self {
            F::Not(_) => true,
            F::And(l) | F::Or(l) => l.iter().any(|x| x.has_not()),
            _ => false,
        }
    }

    /// One-step structural reductions, for greedy shrinking.
    pub fn shrinks(&self) -> Vec<F> {
        let mut out = Vec::new();
        match self {
            F::And(l) | F::Or(l) => {
                let is_and = matches!(self, F::And(_));
                for c in l {
                    out.push(c.clone());
                }
                if l.len() > 1 {
                    for i in 0..l.len() {
                        let mut m = l.clone();
                        m.remove(i);
                        out.push(if is_and { F::And(m) } else { F::Or(m) });
                    }
                }
                for i in 0..l.len() {
                    for s in l[i].shrinks() {
                        let mut m = l.clone();
                        m[i] = s;
                        out.push(if is_and { F::And(m) } else { F::Or(m) });
                    }
                }
            }
            F::Not(x) => {
                out.push((**x).clone());
                for s in x.shrinks() {
                    out.push(F::Not(Box::new(s)));
                }
            }
            _ => {}
        }
        out
    }
}

/// The partial value kanidm expects for an assertion on this attribute (constructors normalise
/// case for the case-insensitive syntaxes themselves).
pub fn pv(a: A, v: &V) -> PartialValue {
    match (a.syn(), v) {
        (Syn::Iname, V::S(s)) => PartialValue::new_iname(s),
        (Syn::Iutf8, V::S(s)) => PartialValue::new_iutf8(s),
        (Syn::Utf8, V::S(s)) => PartialValue::new_utf8s(s),
        (Syn::U32, V::N(n)) => PartialValue::Uint32(*n),
        (Syn::Refer, V::U(u)) => PartialValue::Refer(*u),
        (Syn::Uuid, V::U(u)) => PartialValue::Uuid(*u),
        // ill-typed assertion: hand kanidm something of the wrong type, it must refuse
        (_, V::S(s)) => PartialValue::new_utf8s(s),
        (_, V::N(n)) => PartialValue::Uint32(*n),
        (_, V::U(u)) => PartialValue::Uuid(*u),
    }
}

pub fn well_typed(a: A, v: &V) -> bool {
    matches!(
        (a.syn(), v),
        (Syn::Iname, V::S(_))
            | (Syn::Iutf8, V::S(_))
            | (Syn::Utf8, V::S(_))
            | (Syn::U32, V::N(_))
            | (Syn::Refer, V::U(_))
            | (Syn::Uuid, V::U(_))
    )
}

/// A stored entry, restricted to the alphabet.
#[derive(Clone, Debug, PartialEq, Eq)]
pub struct PEntry {
    pub uuid: Uuid,
    pub attrs: BTreeMap<A, Vec<V>>,
}

impl PEntry {
    pub fn brief(&self) -> String {
        let mut s = String::new();
        for (a, vs) in &self.attrs {
            if *a == A::Uuid {
                continue;
            }
            s.push_str(a.key());
            s.push('=');
            let vv: Vec<String> = vs.iter().map(|v| short(v)).collect();
            s.push_str(&vv.join(","));
            s.push(' ');
        }
        s
    }
}

fn short(v: &V) -> String {
    match v {
        V::U(u) => format!("{:x}", u.as_u128() & 0xffff),
        o => o.to_string(),
    }
}

/// Parse one dumped entry (storage JSON) into its alphabet projection.
pub fn pentry_from_dump(uuid: Uuid, e: &Json) -> Result<PEntry, String> {
    let attrs = kvcore::srv::dump_attrs(e).ok_or_else(|| format!("{uuid}: no attrs in dump"))?;
    let mut out = BTreeMap::new();
    for a in ALL_A {
        let Some(raw) = attrs.get(a.key()) else {
            continue;
        };
        let obj = raw
            .as_object()
            .ok_or_else(|| format!("{uuid}: {} not a tagged set", a.key()))?;
        let (tag, list) = obj
            .iter()
            .next()
            .ok_or_else(|| format!("{uuid}: {} empty tag", a.key()))?;
        if tag != a.dump_tag() {
            return Err(format!(
                "{uuid}: {} stored with tag {tag}, expected {}",
                a.key(),
                a.dump_tag()
            ));
        }
        let list = list
            .as_array()
            .ok_or_else(|| format!("{uuid}: {} values not a list", a.key()))?;
        let mut vs = Vec::new();
        for x in list {
            let v = match a.syn() {
                Syn::Iname | Syn::Iutf8 | Syn::Utf8 => V::S(
                    x.as_str()
                        .ok_or_else(|| format!("{uuid}: {} non-string", a.key()))?
                        .to_string(),
                ),
                Syn::U32 => V::N(
                    x.as_u64()
                        .ok_or_else(|| format!("{uuid}: {} non-number", a.key()))?
                        as u32,
                ),
                Syn::Refer | Syn::Uuid => V::U(
                    x.as_str()
                        .and_then(|s| Uuid::parse_str(s).ok())
                        .ok_or_else(|| format!("{uuid}: {} non-uuid", a.key()))?,
                ),
            };
            vs.push(v);
        }
        if !vs.is_empty() {
            out.insert(a, vs);
        }
    }
    Ok(PEntry { uuid, attrs: out })
}

/// Reference semantics. `ci_utf8` selects the reading of *substring* terms on case-sensitive
/// strings (the property does not say; callers evaluate both and skip cases where it matters).
pub fn eval(f: &F, e: &PEntry, self_uuid: Uuid, ci_utf8: bool) -> bool {
    match f {
        F::Eq(a, v) => {
            if !well_typed(*a, v) {
                return false;
            }
            let want = norm(*a, v);
            e.attrs
                .get(a)
                .map(|vs| vs.iter().any(|x| *x == want))
                .unwrap_or(false)
        }
        F::Cnt(a, s) => {
            let (needle, fold) = match a.syn() {
                Syn::Iname | Syn::Iutf8 => (s.to_lowercase(), true),
                Syn::Utf8 => {
                    if ci_utf8 {
                        (s.to_lowercase(), true)
                    } else {
                        (s.clone(), false)
                    }
                }
                _ => return false,
            };
            e.attrs
                .get(a)
                .map(|vs| {
                    vs.iter().any(|x| match x {
                        V::S(h) => {
                            if fold {
                                h.to_lowercase().contains(&needle)
                            } else {
                                h.contains(&needle)
                            }
                        }
                        _ => false,
                    })
                })
                .unwrap_or(false)
        }
        F::Pres(a) => e.attrs.contains_key(a),
        F::Lt(a, n) => e
            .attrs
            .get(a)
            .map(|vs| vs.iter().any(|x| matches!(x, V::N(m) if m < n)))
            .unwrap_or(false),
        F::And(l) => l.iter().all(|x| eval(x, e, self_uuid, ci_utf8)),
        F::Or(l) => l.iter().any(|x| eval(x, e, self_uuid, ci_utf8)),
        F::Not(x) => !eval(x, e, self_uuid, ci_utf8),
        F::SelfUuid => e.uuid == self_uuid,
    }
}

/// normalise an assertion value per syntax
fn norm(a: A, v: &V) -> V {
    match (a.syn(), v) {
        (Syn::Iname | Syn::Iutf8, V::S(s)) => V::S(s.to_lowercase()),
        _ => v.clone(),
    }
}

/// The set of entries (by uuid) the reference says match; None if the two readings of
/// case-sensitive substring disagree (not judged).
pub fn reference_answer(f: &F, pop: &[PEntry], self_uuid: Uuid) -> Option<BTreeSet<Uuid>> {
    let a: BTreeSet<Uuid> = pop
        .iter()
        .filter(|e| eval(f, e, self_uuid, true))
        .map(|e| e.uuid)
        .collect();
    let b: BTreeSet<Uuid> = pop
        .iter()
        .filter(|e| eval(f, e, self_uuid, false))
        .map(|e| e.uuid)
        .collect();
    if a == b {
        Some(a)
    } else {
        None
    }
}

// ---------------------------------------------------------------------------------------------
// Structural walker over kanidm's resolved filter (public enum), used only to classify witnesses.

/// Cause-class flags of an executed (resolved + optimised) filter.
#[derive(Clone, Copy, Debug, Default, PartialEq, Eq)]
pub struct Flags {
    /// contains an `AndNot` whose parent is not an `And` with at least one positive
    /// (non-`AndNot`) sibling (the root has no parent)
    pub iso: bool,
    /// ... and such an `AndNot` sits below another `AndNot`
    pub iso_neg: bool,
    /// contains a properly placed `AndNot` whose inner filter the planner can only bound by a
    /// *superset* of its matches (indexed ordering / substring term, or an AND / OR mixing such or
    /// unindexed terms with indexed ones) while the candidates it is subtracted from are narrowed
    pub part: bool,
    /// ... and such an `AndNot` sits below another `AndNot`
    pub part_neg: bool,
}

/// The *precision class* of the candidate id list kanidm's planner derives for a resolved
/// filter (contents ignored): every id / a superset of the matches / exactly the matches.
/// Used only to name the cause class of an already established mismatch.
#[derive(Clone, Copy, PartialEq, Eq, Debug)]
enum K {
    All,
    Partial,
    Exact,
}

fn plan_kind(fr: &FilterResolved) -> K {
    match fr {
        FilterResolved::Eq(_, _, s) | FilterResolved::Pres(_, s) => {
            if s.is_some() {
                K::Exact
            } else {
                K::All
            }
        }
        FilterResolved::LessThan(_, _, s)
        | FilterResolved::Cnt(_, _, s)
        | FilterResolved::Stw(_, _, s)
        | FilterResolved::Enw(_, _, s) => {
            if s.is_some() {
                K::Partial
            } else {
                K::All
            }
        }
        FilterResolved::Or(l, _) => {
            let ks: Vec<K> = l.iter().map(plan_kind).collect();
            if ks.contains(&K::All) {
                K::All
            } else if ks.contains(&K::Partial) {
                K::Partial
            } else {
                K::Exact
            }
        }
        FilterResolved::And(l, _) => and_kinds(l).1,
        FilterResolved::Inclusion(_, _) | FilterResolved::AndNot(_, _) | FilterResolved::Invalid(_) => K::Exact,
    }
}

/// (candidate class after the positive terms, final class) of an And
fn and_kinds(l: &[FilterResolved]) -> (K, K) {
    let pos: Vec<K> = l.iter().filter(|x| !x.is_andnot()).map(plan_kind).collect();
    if pos.is_empty() {
        return (K::Exact, K::Exact);
    }
    let mut cand = pos[0];
    for k in &pos[1..] {
        cand = match (cand, *k) {
            (K::All, K::All) => K::All,
            (K::Exact, K::Exact) => K::Exact,
            _ => K::Partial,
        };
    }
    let after_pos = cand;
    for x in l.iter() {
        if let FilterResolved::AndNot(inner, _) = x {
            let ik = plan_kind(inner);
            cand = match (cand, ik) {
                (K::All, _) | (_, K::All) => K::All,
                (K::Exact, K::Exact) => K::Exact,
                _ => K::Partial,
            };
        }
    }
    (after_pos, cand)
}

pub fn analyse(fr: &FilterResolved) -> Flags {
    fn walk(fr: &FilterResolved, parent_and_with_positive: bool, cand: K, neg: usize, fl: &mut Flags) {
        match fr {
            FilterResolved::AndNot(inner, _) => {
                if !parent_and_with_positive {
                    fl.iso = true;
                    if neg > 0 {
                        fl.iso_neg = true;
                    }
                } else {
                    // a superset list subtracted from a narrowed candidate list
                    if plan_kind(inner) == K::Partial && cand != K::All {
                        fl.part = true;
                        if neg > 0 {
                            fl.part_neg = true;
                        }
                    }
                    walk(inner, false, K::All, neg + 1, fl);
                }
            }
            FilterResolved::And(l, _) => {
                let pos = l.iter().any(|x| !x.is_andnot());
                let (after_pos, _) = and_kinds(l);
                l.iter().for_each(|x| walk(x, pos, after_pos, neg, fl));
            }
            FilterResolved::Or(l, _) | FilterResolved::Inclusion(l, _) => {
                l.iter().for_each(|x| walk(x, false, K::All, neg, fl));
            }
            _ => {}
        }
    }
    let mut fl = Flags::default();
    walk(fr, false, K::All, 0, &mut fl);
    fl
}

/// Signature of an answer that differs from what it should be. `kind` names the comparison
/// (indexed / scan / impersonated / ldap / scim) and only appears in the unexplained classes.
pub fn classify(prop: &str, kind: &str, got: &BTreeSet<Uuid>, want: &BTreeSet<Uuid>, fl: &Flags) -> String {
    let strict_subset = got.is_subset(want) && got != want;
    if strict_subset {
        if fl.iso {
            format!("{prop}/isolated-andnot-empty-under-index")
        } else if fl.part {
            format!("{prop}/andnot-over-partial-index-answer-subset")
        } else {
            format!("{prop}/{kind}-mismatch-without-isolated-andnot")
        }
    } else if fl.iso_neg {
        format!("{prop}/isolated-andnot-under-negation-answer-superset")
    } else if fl.part_neg {
        format!("{prop}/andnot-over-partial-index-under-negation-answer-superset")
    } else {
        format!("{prop}/{kind}-answer-superset")
    }
}

/// structural identity including order and slopes (kanidm's own PartialEq ignores some variants)
pub fn same_shape(a: &FilterResolved, b: &FilterResolved) -> bool {
    use FilterResolved as R;
    match (a, b) {
        (R::Eq(a1, v1, s1), R::Eq(a2, v2, s2))
        | (R::Cnt(a1, v1, s1), R::Cnt(a2, v2, s2))
        | (R::Stw(a1, v1, s1), R::Stw(a2, v2, s2))
        | (R::Enw(a1, v1, s1), R::Enw(a2, v2, s2))
        | (R::LessThan(a1, v1, s1), R::LessThan(a2, v2, s2)) => a1 == a2 && v1 == v2 && s1 == s2,
        (R::Pres(a1, s1), R::Pres(a2, s2)) => a1 == a2 && s1 == s2,
        (R::Invalid(a1), R::Invalid(a2)) => a1 == a2,
        (R::And(l1, s1), R::And(l2, s2))
        | (R::Or(l1, s1), R::Or(l2, s2))
        | (R::Inclusion(l1, s1), R::Inclusion(l2, s2)) => {
            s1 == s2 && l1.len() == l2.len() && l1.iter().zip(l2.iter()).all(|(x, y)| same_shape(x, y))
        }
        (R::AndNot(x, s1), R::AndNot(y, s2)) => s1 == s2 && same_shape(x, y),
        _ => false,
    }
}

pub fn short_uuid(u: &Uuid) -> String {
    format!("{:x}", u.as_u128() & 0xffff_ffff)
}

pub fn short_set(s: &BTreeSet<Uuid>) -> Vec<String> {
    s.iter().map(short_uuid).collect()
}

/// Record a violation, keeping one witness per signature per worker so that a frequent (e.g.
/// known) finding can never crowd a different signature out of the run's witness list.
pub fn viol(acc: &mut kvcore::Acc, sig: &str, detail: Json) {
    let k = format!("violations.{sig}");
    acc.count(&k);
    if acc.get(&k) <= 1 {
        acc.violation(sig, detail);
    }
}

/// After the workers were merged: every signature that was counted must still have a witness in
/// the run (the merge caps the witness list); otherwise the run must not end "held".
pub fn check_witness_retention(run: &mut kvcore::Run) {
    let have: BTreeSet<String> = run.acc.violations.iter().map(|v| v.signature.clone()).collect();
    let counted: Vec<String> = run
        .acc
        .counters
        .keys()
        .filter_map(|k| k.strip_prefix("violations.").map(|s| s.to_string()))
        .collect();
    for sig in counted {
        if !have.contains(&sig) {
            run.acc
                .inconclusive(&format!("a witness with signature {sig} was counted but dropped by the witness cap"));
        }
    }
}
