use crate::model::{A, F};
use crate::world::{gen_population, Layout, World, IT};
use kanidmd_lib::prelude::*;
use kvcore::{Args, Rng};

async fn run1(w: &World, f: &F, anon: &Identity, tag: &str) {
    let mut pr = w.idms.proxy_read().await.unwrap();
    let a = pr.qs_read.internal_search(filter!(f.to_fc())).map(|v| v.len());
    let b = pr
        .qs_read
        .impersonate_search(filter!(f.to_fc()), filter!(f.to_fc()), anon)
        .map(|v| v.len());
    println!("{tag}: internal {a:?} anon {b:?}");
}

pub fn run(_args: Args) {
    let rt = kvcore::srv::rt();
    rt.block_on(async {
        let mut rng = Rng::new(7);
        let spec = gen_population(&mut rng);
        let mut w = World::new().await.unwrap();
        let grant: Vec<Attribute> = crate::model::ALL_A.iter().map(|a| a.attr()).chain([Attribute::Spn]).collect();
        w.install(&spec, &grant).await.unwrap();
        let anon = w.anon_ident().await.unwrap();
        let f = F::Lt(A::GidNumber, 70100);
        w.set_layout(&Layout::default_()).await.unwrap();
        run1(&w, &f, &anon, "default").await;
        run1(&w, &f, &anon, "default (again)").await;
        w.unrelated_write(spec[0].uuid).await.unwrap();
        run1(&w, &f, &anon, "default (after write)").await;
        let mut l = Layout::default_();
        l.alpha.remove(&(A::GidNumber, IT::Ord));
        l.name = "no-gid-ord".into();
        w.set_layout(&l).await.unwrap();
        run1(&w, &f, &anon, "no gid ord").await;
        run1(&w, &f, &anon, "no gid ord (again)").await;
        let f2 = F::Lt(A::GidNumber, 70101);
        run1(&w, &f2, &anon, "no gid ord, never-seen filter").await;
        println!("idxmeta has gid ord: {}", w.current_idxmeta().await.unwrap().idxkeys.keys().any(|k| k.attr == Attribute::GidNumber && k.itype == IndexType::Ordering));
        w.set_layout(&l).await.unwrap();
        run1(&w, &f, &anon, "no gid ord, after a second switch to the same layout").await;
        w.set_layout(&Layout::default_()).await.unwrap();
        run1(&w, &f, &anon, "default").await;
        run1(&w, &f2, &anon, "default f2").await;
        w.set_layout(&l).await.unwrap();
        run1(&w, &f, &anon, "no gid ord 3").await;
        println!("idxmeta keys now: {}", w.current_idxmeta().await.unwrap().idxkeys.len());
        {
            let ct = w.tick();
            let mut wr = w.qs.write(ct).await.unwrap();
            let ff = filter_all!(f_and(vec![
                f_eq(Attribute::Class, EntryClass::AttributeType.into()),
                f_eq(Attribute::AttributeName, PartialValue::new_iutf8("legalname"))
            ]));
            let m = ModifyList::new_purge_and_set(Attribute::Description, Value::new_utf8s("touch only"));
            println!("matching schema entries: {:?}", wr.internal_search(ff.clone()).map(|v| v.len()));
            let fa = filter_all!(f_eq(Attribute::Class, EntryClass::AttributeType.into()));
            println!("attributetype entries: {:?}", wr.internal_search(fa).map(|v| v.len()));
            println!("touch: {:?}", wr.internal_modify(&ff, &m));
            println!("commit: {:?}", wr.commit());
        }
        println!("idxmeta keys after touch-only: {}", w.current_idxmeta().await.unwrap().idxkeys.len());
        run1(&w, &f, &anon, "after touch-only f").await;
        run1(&w, &f2, &anon, "no gid ord 3 f2").await;
    });
}

pub fn arc_probe() {
    use concread::arcache::ARCacheBuilder;
    let c: concread::arcache::ARCache<u32, u32> = ARCacheBuilder::new()
        .set_size(64, 8)
        .set_reader_quiesce(true)
        .build()
        .unwrap();
    {
        let mut r = c.read();
        r.insert(1, 100);
    }
    {
        let w = c.write();
        w.commit();
    }
    {
        let mut r = c.read();
        println!("before clear: {:?}", r.get(&1));
    }
    {
        let mut w = c.write();
        w.clear();
        w.commit();
    }
    {
        let mut r = c.read();
        println!("after clear: {:?}", r.get(&1));
        r.insert(2, 200);
    }
    {
        let mut r = c.read();
        let a = r.get(&1).copied(); let b = r.get(&2).copied(); println!("after clear (2nd read): {a:?} {b:?}");
    }
}
