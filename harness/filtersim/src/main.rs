//! filtersim engine. See /verif/DESIGN.md section 2 and /verif/harness/AGENT_GUIDE.md.
#[macro_use]
extern crate kanidmd_lib;

mod c01;
mod c02;
mod c41;
mod model;
mod world;

fn main() {
    let args = kvcore::parse_args();
    match args.prop.as_str() {
        "C01" => c01::run(args),
        "C02" => c02::run(args),
        "C41" => c41::run(args),
        p => {
            println!("INCONCLUSIVE property={p} reason=filtersim does not serve this property");
            std::process::exit(2);
        }
    }
}
