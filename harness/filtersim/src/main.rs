//! filtersim engine. See /verif/DESIGN.md section 2 and /verif/harness/AGENT_GUIDE.md.

fn main() {
    let args = kvcore::parse_args();
    match args.prop.as_str() {
        p => {
            println!("INCONCLUSIVE property={p} reason=filtersim does not serve this property yet");
            std::process::exit(2);
        }
    }
}
