//! C02 Filter rewriting preserves meaning.
//!
//! Pure check, no database content involved: filters are resolved against an identity, then the
//! code's own matcher (`entry_match_no_index`) is applied to the un-optimised resolved filter and to
//! every rewritten form (`optimise`, `fast_optimise`, the production `Filter::resolve`, a second
//! `optimise`, and the rewrite of a duplicate-padded variant) on every entry over the same alphabet.
//! The harness's own evaluator cross-checks the un-optimised side on the original tree.

use crate::model::{eval, same_shape, PEntry, A, F, V};
use kanidmd_lib::be::IdxMeta;
use kanidmd_lib::entry::{Entry, EntryInit, EntryNew, EntrySealedCommitted};
use kanidmd_lib::filter::verif_hooks::{fast_optimise, idxmeta_from, optimise, resolve_unoptimised};
use kanidmd_lib::filter::{Filter, FilterValid, FilterValidResolved, FC};
use kanidmd_lib::prelude::*;
use kvcore::{Acc, Args, Rng, Run};
use serde_json::json;
use std::collections::BTreeMap;
use std::panic::{catch_unwind, AssertUnwindSafe};
use std::sync::Arc;

const SELF: Uuid = Uuid::from_u128(0xc020_0000_0000_4000_8000_0000_0000_0001);
const OTHER: Uuid = Uuid::from_u128(0xc020_0000_0000_4000_8000_0000_0000_0002);

struct Ent {
    real: Arc<EntrySealedCommitted>,
    plain: PEntry,
}

fn subsets<T: Clone>(xs: &[T]) -> Vec<Vec<T>> {
    let mut out = Vec::new();
    for m in 0..(1u32 << xs.len()) {
        out.push(
            xs.iter()
                .enumerate()
                .filter(|(i, _)| m & (1 << i) != 0)
                .map(|(_, x)| x.clone())
                .collect(),
        );
    }
    out
}

/// every entry over the alphabet: each attribute holds any subset of its values (absent = empty)
fn all_entries(with_gid: bool) -> Vec<Ent> {
    let names = subsets(&["xa", "xb"]);
    let descs = subsets(&["xa", "xb"]);
    let classes = subsets(&["person", "group"]);
    let gids: Vec<Vec<u32>> = if with_gid {
        subsets(&[1u32, 3])
    } else {
        vec![vec![]]
    };
    let mut out = Vec::new();
    let mut id = 1u64;
    for u in [SELF, OTHER] {
        for n in &names {
            for d in &descs {
                for c in &classes {
                    for g in &gids {
                        let mut e: Entry<EntryInit, EntryNew> = Entry::new();
                        let mut p = BTreeMap::new();
                        e.add_ava(Attribute::Uuid, Value::Uuid(u));
                        p.insert(A::Uuid, vec![V::U(u)]);
                        for x in n {
                            e.add_ava(Attribute::Name, Value::new_iname(x));
                        }
                        if !n.is_empty() {
                            p.insert(A::Name, n.iter().map(|x| V::S(x.to_string())).collect());
                        }
                        for x in d {
                            e.add_ava(Attribute::Description, Value::new_utf8s(x));
                        }
                        if !d.is_empty() {
                            p.insert(
                                A::Description,
                                d.iter().map(|x| V::S(x.to_string())).collect(),
                            );
                        }
                        for x in c {
                            e.add_ava(Attribute::Class, Value::new_iutf8(x));
                        }
                        if !c.is_empty() {
                            p.insert(A::Class, c.iter().map(|x| V::S(x.to_string())).collect());
                        }
                        for x in g {
                            e.add_ava(Attribute::GidNumber, Value::new_uint32(*x));
                        }
                        if !g.is_empty() {
                            p.insert(A::GidNumber, g.iter().map(|x| V::N(*x)).collect());
                        }
                        out.push(Ent {
                            real: Arc::new(e.verif_into_sealed_committed(id)),
                            plain: PEntry { uuid: u, attrs: p },
                        });
                        id += 1;
                    }
                }
            }
        }
    }
    out
}

fn leaves() -> Vec<F> {
    vec![
        F::Eq(A::Name, V::S("xa".into())),
        F::Eq(A::Name, V::S("xb".into())),
        F::Eq(A::Description, V::S("xa".into())),
        F::Eq(A::Description, V::S("xb".into())),
        F::Pres(A::Name),
        F::Pres(A::Description),
        F::Eq(A::Class, V::S("person".into())),
        F::Eq(A::Class, V::S("group".into())),
        F::Cnt(A::Description, "x".into()),
        F::SelfUuid,
    ]
}

fn rich_leaves() -> Vec<F> {
    let mut l = leaves();
    l.extend([
        F::Cnt(A::Name, "a".into()),
        F::Cnt(A::Name, "X".into()),
        F::Eq(A::Name, V::S("XA".into())),
        F::Eq(A::Description, V::S("zz".into())),
        F::Pres(A::Class),
        F::Pres(A::GidNumber),
        F::Eq(A::GidNumber, V::N(1)),
        F::Eq(A::GidNumber, V::N(3)),
        F::Lt(A::GidNumber, 1),
        F::Lt(A::GidNumber, 2),
        F::Lt(A::GidNumber, 4),
        F::Eq(A::Uuid, V::U(OTHER)),
        F::Eq(A::Uuid, V::U(SELF)),
        F::Pres(A::Uuid),
    ]);
    l
}

/// children-of-one-level: every And/Or of 1..=width children drawn from `pool`, plus Not(child)
fn level_up(pool: &[F], width: usize, out: &mut Vec<F>) {
    for k in 1..=width {
        let n = pool.len();
        let total = n.pow(k as u32);
        for mut idx in 0..total {
            let mut cs = Vec::with_capacity(k);
            for _ in 0..k {
                cs.push(pool[idx % n].clone());
                idx /= n;
            }
            out.push(F::And(cs.clone()));
            out.push(F::Or(cs));
        }
    }
    for c in pool {
        out.push(F::Not(Box::new(c.clone())));
    }
}

#[derive(Clone)]
struct Map {
    name: String,
    meta: Option<IdxMeta>,
}

fn key_universe() -> Vec<(Attribute, IndexType)> {
    vec![
        (Attribute::Name, IndexType::Equality),
        (Attribute::Name, IndexType::Presence),
        (Attribute::Name, IndexType::SubString),
        (Attribute::Description, IndexType::Equality),
        (Attribute::Description, IndexType::Presence),
        (Attribute::Description, IndexType::SubString),
        (Attribute::Class, IndexType::Equality),
        (Attribute::Class, IndexType::Presence),
        (Attribute::Uuid, IndexType::Equality),
        (Attribute::Uuid, IndexType::Presence),
        (Attribute::GidNumber, IndexType::Equality),
        (Attribute::GidNumber, IndexType::Presence),
        (Attribute::GidNumber, IndexType::Ordering),
    ]
}

fn map_from(name: &str, slopes: &[Option<u8>]) -> Map {
    let keys: Vec<(Attribute, IndexType, u8)> = key_universe()
        .into_iter()
        .zip(slopes.iter())
        .filter_map(|((a, t), s)| s.map(|s| (a, t, s)))
        .collect();
    Map {
        name: format!("{name}:{slopes:?}"),
        meta: Some(idxmeta_from(&keys)),
    }
}

fn fixed_maps() -> Vec<Map> {
    let n = key_universe().len();
    vec![
        Map {
            name: "no-idxmeta".into(),
            meta: None,
        },
        map_from("all-unindexed", &vec![None; n]),
        map_from("all-equal-45", &vec![Some(45); n]),
        map_from(
            "ascending",
            &[
                Some(1),
                Some(90),
                Some(45),
                Some(45),
                Some(1),
                Some(45),
                Some(90),
                Some(180),
                Some(180),
                Some(90),
                Some(1),
                Some(45),
                Some(90),
            ],
        ),
        map_from(
            "mixed-with-gaps",
            &[
                Some(180),
                None,
                Some(45),
                None,
                Some(45),
                Some(1),
                Some(1),
                None,
                Some(45),
                None,
                Some(0),
                Some(90),
                None,
            ],
        ),
        map_from(
            "eq-slow-pres-fast",
            &[
                Some(180),
                Some(1),
                Some(90),
                Some(180),
                Some(1),
                Some(90),
                Some(180),
                Some(1),
                Some(1),
                Some(1),
                Some(180),
                Some(1),
                Some(45),
            ],
        ),
    ]
}

fn random_map(rng: &mut Rng) -> Map {
    if rng.chance(1, 8) {
        return Map {
            name: "no-idxmeta".into(),
            meta: None,
        };
    }
    let n = key_universe().len();
    let equal = rng.chance(1, 5);
    let s0 = *rng.pick(&[1u8, 45, 90, 180]);
    let slopes: Vec<Option<u8>> = (0..n)
        .map(|_| {
            if equal {
                Some(s0)
            } else {
                *rng.pick(&[Some(1u8), Some(45), Some(90), Some(180), None])
            }
        })
        .collect();
    map_from("random", &slopes)
}

struct Ctx<'a> {
    schema: &'a dyn kanidmd_lib::schema::SchemaTransaction,
    ident: Identity,
}

fn pad_variant(f: &F, which: u64) -> F {
    match which % 4 {
        0 => F::And(vec![f.clone()]),
        1 => F::Or(vec![f.clone(), f.clone()]),
        2 => F::And(vec![f.clone(), f.clone()]),
        _ => match f {
            // duplicate the first child in place
            F::And(l) if !l.is_empty() => {
                let mut m = l.clone();
                m.push(l[0].clone());
                F::And(m)
            }
            F::Or(l) if !l.is_empty() => {
                let mut m = l.clone();
                m.insert(0, l[l.len() - 1].clone());
                F::Or(m)
            }
            o => F::Or(vec![F::And(vec![o.clone()])]),
        },
    }
}

fn validate(ctx: &Ctx, fc: FC) -> Option<Filter<FilterValid>> {
    Filter::new(fc).validate(ctx.schema).ok()
}

type RF = Filter<FilterValidResolved>;

/// One (filter, map) case against all given entries.
#[allow(clippy::too_many_arguments)]
fn check_case(
    acc: &mut Acc,
    ctx: &Ctx,
    f: &F,
    special: Option<&FC>,
    map: &Map,
    ents: &[&Ent],
    pad_sel: u64,
    enumerated: bool,
) {
    acc.eval();
    let fc = special.cloned().unwrap_or_else(|| f.to_fc());
    let Some(fv) = validate(ctx, fc) else {
        acc.count("rejected_by_schema_validation");
        return;
    };
    let meta = map.meta.as_ref();
    let Some(u) = resolve_unoptimised(&fv, &ctx.ident, meta) else {
        acc.count("resolve_returned_none");
        return;
    };
    let witness = |what: &str, e: Option<&Ent>, extra: serde_json::Value| {
        json!({
            "filter": f.to_string(), "special_fc": special.map(|s| format!("{s:?}")),
            "idxmeta": map.name, "what": what,
            "entry": e.map(|e| e.plain.brief()), "entry_uuid_is_self": e.map(|e| e.plain.uuid == SELF),
            "unoptimised": format!("{:?}", u.to_inner()), "detail": extra,
        })
    };
    // the rewrites, each guarded: a panic in the rewrite is a violation of this property
    let guarded = |acc: &mut Acc, name: &str, g: &dyn Fn() -> Option<RF>| -> Option<RF> {
        match catch_unwind(AssertUnwindSafe(g)) {
            Ok(r) => r,
            Err(p) => {
                let msg = p
                    .downcast_ref::<String>()
                    .cloned()
                    .or_else(|| p.downcast_ref::<&str>().map(|s| s.to_string()))
                    .unwrap_or_default();
                crate::model::viol(acc,
                    &format!("c02/panic-in-{name}"),
                    witness("panic inside the rewrite", None, json!({"panic": msg})),
                );
                None
            }
        }
    };
    let o = guarded(acc, "optimise", &|| Some(optimise(&u)));
    let fo = guarded(acc, "fast-optimise", &|| Some(fast_optimise(&u)));
    let prod = guarded(acc, "production-resolve", &|| {
        fv.resolve(&ctx.ident, meta, None).ok()
    });
    let oo = o
        .as_ref()
        .and_then(|o| guarded(acc, "optimise", &|| Some(optimise(o))));
    // duplicate-padded variant, resolved and rewritten the production way
    let padded = pad_variant(f, pad_sel);
    let po = if special.is_none() {
        validate(ctx, padded.to_fc()).and_then(|pv| {
            guarded(acc, "production-resolve", &|| {
                pv.resolve(&ctx.ident, meta, None).ok()
            })
        })
    } else {
        None
    };
    if prod.is_none() {
        acc.count("production_resolve_err");
    }

    let changed = o
        .as_ref()
        .map(|o| !same_shape(u.to_inner(), o.to_inner()))
        .unwrap_or(false);
    if changed {
        acc.count("rewrite_changed_structure");
        if enumerated {
            acc.nontrivial_distinct();
        } else {
            acc.nontrivial(&format!("{f}|{}", map.name));
        }
    }
    if let Some(fo) = &fo {
        if !same_shape(u.to_inner(), fo.to_inner()) {
            acc.count("fast_rewrite_changed_structure");
        }
    }
    if let (Some(o), Some(p)) = (&o, &prod) {
        if meta.is_some() && !same_shape(o.to_inner(), p.to_inner()) {
            // the hook and the production path must be the same rewrite
            acc.count("hook_optimise_differs_structurally_from_production");
        }
    }

    // sides to compare against the un-optimised matcher; skip those structurally identical to it
    let sides: [(&str, &Option<RF>); 5] = [
        ("optimise-changes-match", &o),
        ("fast-optimise-changes-match", &fo),
        ("production-resolve-changes-match", &prod),
        ("optimise-not-idempotent-in-meaning", &oo),
        ("duplicate-padding-changes-match", &po),
    ];
    let mut reported = [false; 6];
    let mut any_true = false;
    let mut any_false = false;
    for e in ents {
        let mu = e.real.entry_match_no_index(&u);
        if mu {
            any_true = true
        } else {
            any_false = true
        }
        for (i, (sig, side)) in sides.iter().enumerate() {
            let Some(s) = side else { continue };
            if i != 4 && same_shape(u.to_inner(), s.to_inner()) {
                continue;
            }
            let ms = e.real.entry_match_no_index(s);
            if ms != mu && !reported[i] {
                reported[i] = true;
                crate::model::viol(acc,
                    &format!("c02/{sig}"),
                    witness(
                        "the code's matcher disagrees between the un-optimised and the rewritten filter",
                        Some(e),
                        json!({"rewritten": format!("{:?}", s.to_inner()), "padded_variant": padded.to_string(),
                               "match_unoptimised": mu, "match_rewritten": ms}),
                    ),
                );
            }
        }
        if special.is_none() {
            let r1 = eval(f, &e.plain, SELF, true);
            let r2 = eval(f, &e.plain, SELF, false);
            if r1 != r2 {
                acc.count("reference_case_ambiguous");
            } else if r1 != mu && !reported[5] {
                reported[5] = true;
                crate::model::viol(acc,
                    "c02/resolve-differs-from-reference",
                    witness(
                        "the matcher on the resolved (un-optimised) filter disagrees with the reference evaluation of the original",
                        Some(e),
                        json!({"match_unoptimised": mu, "reference": r1}),
                    ),
                );
            }
        }
    }
    if any_true && any_false {
        acc.count("filter_discriminates_entries");
    }
    if acc.samples.len() < 5 && changed && acc.evaluations % 4099 == 0 {
        acc.sample(json!({"filter": f.to_string(), "idxmeta": map.name,
            "unoptimised": format!("{:?}", u.to_inner()),
            "optimised": o.as_ref().map(|o| format!("{:?}", o.to_inner()))}));
    }
}

fn random_tree(rng: &mut Rng, leaves: &[F], depth: usize, maxw: usize) -> F {
    if depth <= 1 || rng.chance(1, 4) {
        return rng.pick(leaves).clone();
    }
    match rng.weighted(&[4, 4, 2]) {
        2 => F::Not(Box::new(random_tree(rng, leaves, depth - 1, maxw))),
        k => {
            let w = match rng.weighted(&[2, 3, 3, 2, 1]) {
                i => (i + 1).min(maxw),
            };
            let mut cs: Vec<F> = (0..w)
                .map(|_| random_tree(rng, leaves, depth - 1, maxw))
                .collect();
            // duplicates on purpose
            if rng.chance(1, 3) && !cs.is_empty() {
                let d = cs[rng.usize(cs.len())].clone();
                let at = rng.usize(cs.len() + 1);
                cs.insert(at, d);
            }
            if k == 0 {
                F::And(cs)
            } else {
                F::Or(cs)
            }
        }
    }
}

/// kanidm-specific extras the harness AST does not model (compared matcher-vs-matcher only)
fn random_special(rng: &mut Rng, leaves: &[F]) -> FC {
    let term = |rng: &mut Rng| -> FC {
        if rng.chance(1, 4) {
            FC::Invalid(Attribute::Name)
        } else {
            random_tree(rng, leaves, 2, 3).to_fc()
        }
    };
    match rng.below(4) {
        0 => FC::Inclusion(vec![term(rng), term(rng)]),
        1 => FC::And(vec![
            term(rng),
            FC::Inclusion(vec![term(rng), FC::Inclusion(vec![term(rng), term(rng)])]),
        ]),
        2 => FC::Or(vec![FC::Invalid(Attribute::Description), term(rng), term(rng)]),
        _ => FC::And(vec![
            FC::AndNot(Box::new(FC::Invalid(Attribute::Name))),
            term(rng),
            FC::Or(vec![FC::Or(vec![term(rng)]), term(rng)]),
        ]),
    }
}

pub fn run(args: Args) {
    let mut run = Run::new(
        args.clone(),
        "exploration",
        "filter trees over {name,description}x{xa,xb} + class + SelfUuid (+gidnumber/uuid/ordering in the sampled part), each resolved under several index-metadata maps and matched on every entry over the same alphabet; exhaustive for (depth<=2,width<=3) and (depth 3,width<=2), sampled beyond; non-trivial = the full rewrite's output differs structurally from its input; distinct by (tree, map)",
    );
    run.assume("verif_hooks::{resolve_unoptimised, optimise, fast_optimise} call the private FilterResolved::{resolve_idx/resolve_no_idx, optimise, fast_optimise} unchanged");
    run.assume("entry_match_no_index is the matcher both sides are judged with (C01 separately compares it with index-driven execution and with the harness evaluator)");
    let seed = args.seed;
    let workers = args.workers;
    let tier = args.tier;

    // the enumerated spaces
    let l1 = leaves();
    let mut t2w3 = l1.clone();
    level_up(&l1, 3, &mut t2w3); // depth <= 2, width <= 3
    let mut t2w2 = l1.clone();
    level_up(&l1, 2, &mut t2w2); // depth <= 2, width <= 2 (children pool for depth 3)
    let mut t3w2_new = Vec::new();
    level_up(&t2w2, 2, &mut t3w2_new);
    t3w2_new.retain(|f| f.depth() == 3);
    let maps = fixed_maps();
    let nrand: u64 = tier.pick(250_000, 6_000_000);
    let nbig: u64 = tier.pick(0, 1);
    let quick = tier == kvcore::Tier::Quick;

    let t2w3r = &t2w3;
    let t3r = &t3w2_new;
    let mapsr = &maps;
    run.parallel(workers, |w, n| {
        let mut acc = Acc::new();
        let rt = kvcore::srv::rt();
        let qs = rt.block_on(kvcore::srv::mk_mem_server());
        let rd = rt.block_on(qs.read()).expect("read txn");
        let schema = rd.get_schema();
        let ents = all_entries(false);
        let self_entry = ents
            .iter()
            .find(|e| e.plain.uuid == SELF)
            .map(|e| e.real.clone())
            .expect("self entry");
        let ctx = Ctx {
            schema,
            ident: Identity::from_impersonate_entry_readwrite(self_entry),
        };
        let eref: Vec<&Ent> = ents.iter().collect();
        // exhaustive part
        let mut i = w;
        let total = t2w3r.len() + t3r.len();
        while i < total {
            let f = if i < t2w3r.len() {
                &t2w3r[i]
            } else {
                &t3r[i - t2w3r.len()]
            };
            for (mi, m) in mapsr.iter().enumerate() {
                // quick tier: depth-3 trees under every second map (no-idxmeta, equal slopes, gaps)
                if quick && i >= t2w3r.len() && mi % 2 == 1 {
                    continue;
                }
                check_case(&mut acc, &ctx, f, None, m, &eref, (i + mi) as u64, true);
            }
            acc.count(if i < t2w3r.len() {
                "enumerated.depth<=2.width<=3"
            } else {
                "enumerated.depth3.width<=2"
            });
            i += n;
        }
        // thorough only: depth 3 with width-3 subtrees below a width<=2 root, on a third of the maps
        if nbig > 0 {
            let pool = t2w3r;
            let np = pool.len() as u64;
            let total = np * np;
            let mut idx = w as u64;
            let stride = n as u64 * 7; // every 7th pair: stated as sampled-by-stride, not exhaustive
            while idx < total {
                let a = &pool[(idx / np) as usize];
                let b = &pool[(idx % np) as usize];
                if a.depth() == 2 || b.depth() == 2 {
                    let f = if idx % 2 == 0 {
                        F::And(vec![a.clone(), b.clone()])
                    } else {
                        F::Or(vec![a.clone(), b.clone()])
                    };
                    let m = &mapsr[(idx % mapsr.len() as u64) as usize];
                    check_case(&mut acc, &ctx, &f, None, m, &eref, idx, true);
                    acc.count("strided.depth3.width3-subtrees");
                }
                idx += stride;
            }
        }
        // sampled part: deeper / wider, richer leaves, random maps, entries incl. gidnumber
        let ents2 = all_entries(true);
        let rl = rich_leaves();
        let mut rng = Rng::new(kvcore::rng::mix(seed, w as u64, 2));
        for k in 0..(nrand / n as u64) {
            let depth = 3 + rng.usize(3);
            let f = random_tree(&mut rng, &rl, depth, 5);
            let m = random_map(&mut rng);
            // a random 40-entry slice of the 512-entry universe, always including both uuids
            let start = rng.usize(ents2.len());
            let sel: Vec<&Ent> = (0..40)
                .map(|j| &ents2[(start + j * 13) % ents2.len()])
                .collect();
            if k % 16 == 0 {
                let sp = random_special(&mut rng, &rl);
                check_case(&mut acc, &ctx, &f, Some(&sp), &m, &sel, rng.next(), false);
                acc.count("sampled.special(inclusion/invalid)");
            } else {
                check_case(&mut acc, &ctx, &f, None, &m, &sel, rng.next(), false);
                acc.count("sampled.random-depth<=5.width<=6");
            }
        }
        drop(rd);
        acc
    });
    run.extra("enumerated_trees_depth_le2_width_le3", json!(t2w3.len()));
    run.extra("enumerated_trees_depth3_width_le2", json!(t3w2_new.len()));
    run.extra("idxmeta_maps_fixed", json!(maps.iter().map(|m| m.name.clone()).collect::<Vec<_>>()));
    run.extra("entries_exhaustive_part", json!(128));
    run.extra("entries_sampled_part_universe", json!(512));
    run.extra("sampled_cases", json!(nrand));
    run.extra("exhaustive_scope", json!("(depth<=2,width<=3) and (depth 3,width<=2) over 10 leaf terms, all 128 entries, 6 index-metadata maps (quick tier: 3 of the 6 for the depth-3 trees); depth-3/width-3 and deeper trees are sampled only"));
    run.exhaustive = Some(true);
    let a = &run.acc;
    let checks = [
        (a.get("rewrite_changed_structure") > 10_000, "fewer than 10000 cases where the rewrite changed the structure"),
        (a.get("fast_rewrite_changed_structure") > 1_000, "fast_optimise almost never changed anything"),
        (a.get("filter_discriminates_entries") > 10_000, "too few filters that match some entries and not others"),
        (a.get("enumerated.depth3.width<=2") as usize == t3w2_new.len(), "depth-3 enumeration incomplete"),
        (a.get("enumerated.depth<=2.width<=3") as usize == t2w3.len(), "depth-2 enumeration incomplete"),
        (a.get("sampled.special(inclusion/invalid)") > 100, "inclusion/invalid extras not exercised"),
        (a.get("rejected_by_schema_validation") == 0, "some generated filters were rejected by schema validation (harness alphabet wrong)"),
        (a.get("resolve_returned_none") == 0, "resolve returned None although the identity has a uuid"),
        (a.get("production_resolve_err") == 0, "production resolve failed"),
        (a.get("hook_optimise_differs_structurally_from_production") == 0, "hook optimise output differs from the production resolve output"),
    ];
    for (ok, why) in checks {
        run.require(ok, why);
    }
    crate::model::check_witness_retention(&mut run);
    run.finish();
}
