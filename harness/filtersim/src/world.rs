//! A real in-memory kanidm server with an IDM layer, a generated small population, a reader grant
//! for the anonymous account, index-layout switching from outside, and plain dumps.

use crate::model::{pentry_from_dump, PEntry, A};
use kanidmd_lib::be::{BackendTransaction, IdxMeta};
use kanidmd_lib::entry::{Entry, EntryInit, EntryNew};
use kanidmd_lib::idm::ldap::LdapSession;
use kanidmd_lib::idm::server::IdmServerTransaction;
use kanidmd_lib::prelude::*;
use kvcore::Rng;
use std::collections::BTreeSet;

#[derive(Clone, Copy, PartialEq, Eq, PartialOrd, Ord, Debug, Hash)]
pub enum IT {
    Eq,
    Pres,
    Sub,
    Ord,
}

impl IT {
    pub fn real(&self) -> IndexType {
        match self {
            IT::Eq => IndexType::Equality,
            IT::Pres => IndexType::Presence,
            IT::Sub => IndexType::SubString,
            IT::Ord => IndexType::Ordering,
        }
    }
    pub fn name(&self) -> &'static str {
        match self {
            IT::Eq => "eq",
            IT::Pres => "pres",
            IT::Sub => "sub",
            IT::Ord => "ord",
        }
    }
}

/// every (attribute, index type) of the alphabet that can be switched
pub fn alpha_keys() -> Vec<(A, IT)> {
    vec![
        (A::Name, IT::Eq),
        (A::Name, IT::Pres),
        (A::Name, IT::Sub),
        (A::DisplayName, IT::Eq),
        (A::DisplayName, IT::Pres),
        (A::DisplayName, IT::Sub),
        (A::Description, IT::Eq),
        (A::Description, IT::Pres),
        (A::Description, IT::Sub),
        (A::Member, IT::Eq),
        (A::Member, IT::Pres),
        (A::Class, IT::Eq),
        (A::Class, IT::Pres),
        (A::GidNumber, IT::Eq),
        (A::GidNumber, IT::Pres),
        (A::GidNumber, IT::Ord),
        (A::Uuid, IT::Eq),
        (A::Uuid, IT::Pres),
    ]
}

/// what the shipped schema indexes, for the alphabet (checked against the server at run time)
pub fn default_alpha_keys() -> BTreeSet<(A, IT)> {
    [
        (A::Name, IT::Eq),
        (A::Name, IT::Pres),
        (A::Name, IT::Sub),
        (A::DisplayName, IT::Eq),
        (A::DisplayName, IT::Pres),
        (A::Member, IT::Eq),
        (A::Member, IT::Pres),
        (A::Class, IT::Eq),
        (A::Class, IT::Pres),
        (A::GidNumber, IT::Eq),
        (A::GidNumber, IT::Pres),
        (A::GidNumber, IT::Ord),
        (A::Uuid, IT::Eq),
        (A::Uuid, IT::Pres),
    ]
    .into_iter()
    .collect()
}

#[derive(Clone, Debug)]
pub struct Layout {
    pub name: String,
    /// alphabet keys that are indexed
    pub alpha: BTreeSet<(A, IT)>,
    /// keep the schema's index keys for all attributes outside the alphabet
    pub others_on: bool,
    /// load analysed slopes after the reindex (second update_idxmeta)
    pub reload_slopes: bool,
}

impl Layout {
    pub fn none() -> Layout {
        Layout {
            name: "none".into(),
            alpha: BTreeSet::new(),
            others_on: false,
            reload_slopes: false,
        }
    }
    pub fn default_() -> Layout {
        Layout {
            name: "default".into(),
            alpha: default_alpha_keys(),
            others_on: true,
            reload_slopes: true,
        }
    }
    pub fn all() -> Layout {
        Layout {
            name: "all".into(),
            alpha: alpha_keys().into_iter().collect(),
            others_on: true,
            reload_slopes: true,
        }
    }
    pub fn all_but(k: (A, IT)) -> Layout {
        let mut l = Layout::all();
        l.alpha.remove(&k);
        l.name = format!("all-but-{}.{}", k.0.key(), k.1.name());
        l
    }
    pub fn only(k: (A, IT)) -> Layout {
        Layout {
            name: format!("only-{}.{}", k.0.key(), k.1.name()),
            alpha: [k].into_iter().collect(),
            others_on: true,
            reload_slopes: false,
        }
    }
    pub fn random(rng: &mut Rng, tag: u64) -> Layout {
        let p = *rng.pick(&[1u64, 2, 3]);
        let alpha: BTreeSet<(A, IT)> = alpha_keys()
            .into_iter()
            .filter(|_| rng.chance(p, 4))
            .collect();
        Layout {
            name: format!(
                "random{tag}[{}]",
                alpha
                    .iter()
                    .map(|(a, t)| format!("{}.{}", a.key(), t.name()))
                    .collect::<Vec<_>>()
                    .join(",")
            ),
            alpha,
            others_on: !rng.chance(1, 4),
            reload_slopes: rng.bool(),
        }
    }
    pub fn is_indexed(&self, a: A, t: IT) -> bool {
        self.alpha.contains(&(a, t))
    }
}

#[derive(Clone, Copy, PartialEq, Eq, Debug)]
pub enum Kind {
    Person,
    Group,
}

#[derive(Clone, Debug)]
pub struct ESpec {
    pub uuid: Uuid,
    pub kind: Kind,
    pub name: String,
    pub displayname: Option<String>,
    pub description: Option<String>,
    pub members: Vec<Uuid>,
    pub gid: Option<u32>,
    pub recycled: bool,
}

impl ESpec {
    pub fn to_entry(&self) -> Entry<EntryInit, EntryNew> {
        let mut e: Entry<EntryInit, EntryNew> = Entry::new();
        e.add_ava(Attribute::Class, EntryClass::Object.to_value());
        e.add_ava(Attribute::Uuid, Value::Uuid(self.uuid));
        e.add_ava(Attribute::Name, Value::new_iname(&self.name));
        match self.kind {
            Kind::Person => {
                e.add_ava(Attribute::Class, EntryClass::Account.to_value());
                e.add_ava(Attribute::Class, EntryClass::Person.to_value());
                if self.gid.is_some() {
                    e.add_ava(Attribute::Class, EntryClass::PosixAccount.to_value());
                }
            }
            Kind::Group => {
                e.add_ava(Attribute::Class, EntryClass::Group.to_value());
                if self.gid.is_some() {
                    e.add_ava(Attribute::Class, EntryClass::PosixGroup.to_value());
                }
            }
        }
        if let Some(d) = &self.displayname {
            e.add_ava(Attribute::DisplayName, Value::new_utf8s(d));
        }
        if let Some(d) = &self.description {
            e.add_ava(Attribute::Description, Value::new_utf8s(d));
        }
        for m in &self.members {
            e.add_ava(Attribute::Member, Value::Refer(*m));
        }
        if let Some(g) = self.gid {
            e.add_ava(Attribute::GidNumber, Value::new_uint32(g));
        }
        e
    }
}

pub const DISPLAYNAMES: [&str; 3] = ["alpha one", "beta two", "gamma ray"];
pub const DESCRIPTIONS: [&str; 3] = ["probe", "probe two", "other thing"];

pub fn pop_uuid(i: usize) -> Uuid {
    Uuid::from_u128(0xf117_0000_0000_4000_8000_0000_0000_0100 + i as u128)
}

/// 6..=12 persons/groups (+1..2 recycled ones) over a 3-value alphabet per attribute
pub fn gen_population(rng: &mut Rng) -> Vec<ESpec> {
    let n = rng.range(6, 12) as usize;
    let mut out = Vec::new();
    for i in 0..n {
        let kind = if i == 0 || (i != 1 && rng.chance(2, 5)) {
            Kind::Person
        } else {
            Kind::Group
        };
        let name = match i {
            0 => "pa".to_string(),
            1 => "ga".to_string(),
            2 => "gb".to_string(),
            3 => "gc".to_string(),
            _ => format!("n{i}"),
        };
        let gid = if rng.chance(1, 2) {
            Some(70001 + i as u32)
        } else {
            None
        };
        out.push(ESpec {
            uuid: pop_uuid(i),
            kind,
            name,
            displayname: match kind {
                Kind::Person => Some(rng.pick(&DISPLAYNAMES).to_string()),
                Kind::Group => None,
            },
            description: if rng.chance(3, 4) {
                Some(rng.pick(&DESCRIPTIONS).to_string())
            } else {
                None
            },
            members: Vec::new(),
            gid,
            recycled: false,
        });
    }
    // memberships among the population (groups only hold members)
    for i in 0..n {
        if out[i].kind == Kind::Group && rng.chance(2, 3) {
            let k = rng.range(1, 3) as usize;
            let mut ms = BTreeSet::new();
            for _ in 0..k {
                let j = rng.usize(n);
                if j != i {
                    ms.insert(pop_uuid(j));
                }
            }
            out[i].members = ms.into_iter().collect();
        }
    }
    // entries that will be deleted (recycled): same attribute values, must never be returned
    for r in 0..rng.range(1, 2) as usize {
        let i = n + r;
        out.push(ESpec {
            uuid: pop_uuid(i),
            kind: if r == 0 { Kind::Group } else { Kind::Person },
            name: format!("zr{r}"),
            displayname: if r == 0 {
                None
            } else {
                Some(DISPLAYNAMES[0].to_string())
            },
            description: Some(DESCRIPTIONS[0].to_string()),
            members: if r == 0 { vec![pop_uuid(0)] } else { vec![] },
            gid: None,
            recycled: true,
        });
    }
    out
}

pub const UUID_READERS: Uuid = Uuid::from_u128(0xf117_0000_0000_4000_8000_0000_0000_0010);
pub const UUID_READ_ACP: Uuid = Uuid::from_u128(0xf117_0000_0000_4000_8000_0000_0000_0011);

pub struct World {
    pub qs: QueryServer,
    pub idms: IdmServer,
    _delayed: IdmServerDelayed,
    _audit: IdmServerAudit,
    pub ct: Duration,
    touch: u64,
}

impl World {
    pub async fn new() -> Result<World, String> {
        let qs = kvcore::srv::mk_mem_server().await;
        let (idms, d, a) = IdmServer::new(
            qs.clone(),
            &Url::parse("https://idm.example.com").map_err(|e| e.to_string())?,
            true,
            kvcore::srv::T0,
        )
        .await
        .map_err(|e| format!("idm server: {e:?}"))?;
        Ok(World {
            qs,
            idms,
            _delayed: d,
            _audit: a,
            ct: kvcore::srv::T0 + Duration::from_secs(60),
            touch: 0,
        })
    }

    pub fn tick(&mut self) -> Duration {
        self.ct += Duration::from_secs(1);
        self.ct
    }

    /// create the population, recycle the marked entries, and grant anonymous search/read on
    /// the given attributes of every entry
    pub async fn install(&mut self, pop: &[ESpec], grant: &[Attribute]) -> Result<(), String> {
        let ct = self.tick();
        let mut w = self.qs.write(ct).await.map_err(|e| format!("{e:?}"))?;
        let mut es: Vec<_> = pop.iter().map(|s| s.to_entry()).collect();
        let mut readers: Entry<EntryInit, EntryNew> = Entry::new();
        readers.add_ava(Attribute::Class, EntryClass::Object.to_value());
        readers.add_ava(Attribute::Class, EntryClass::Group.to_value());
        readers.add_ava(Attribute::Name, Value::new_iname("verif_readers"));
        readers.add_ava(Attribute::Uuid, Value::Uuid(UUID_READERS));
        readers.add_ava(Attribute::Member, Value::Refer(UUID_ANONYMOUS));
        es.push(readers);
        let mut acp: Entry<EntryInit, EntryNew> = Entry::new();
        for c in [
            EntryClass::Object,
            EntryClass::AccessControlProfile,
            EntryClass::AccessControlReceiverGroup,
            EntryClass::AccessControlTargetScope,
            EntryClass::AccessControlSearch,
        ] {
            acp.add_ava(Attribute::Class, c.to_value());
        }
        acp.add_ava(Attribute::Name, Value::new_iname("verif_acp_read_all"));
        acp.add_ava(Attribute::Uuid, Value::Uuid(UUID_READ_ACP));
        acp.add_ava(Attribute::AcpReceiverGroup, Value::Refer(UUID_READERS));
        acp.add_ava(
            Attribute::AcpTargetScope,
            Value::new_json_filter_s("{\"pres\":\"class\"}").ok_or("json filter")?,
        );
        for a in grant {
            acp.add_ava(Attribute::AcpSearchAttr, Value::from(a.clone()));
        }
        es.push(acp);
        w.internal_create(es).map_err(|e| format!("create: {e:?}"))?;
        w.commit().map_err(|e| format!("commit: {e:?}"))?;
        let ct = self.tick();
        let mut w = self.qs.write(ct).await.map_err(|e| format!("{e:?}"))?;
        for s in pop.iter().filter(|s| s.recycled) {
            w.internal_delete_uuid(s.uuid)
                .map_err(|e| format!("delete: {e:?}"))?;
        }
        w.commit().map_err(|e| format!("commit: {e:?}"))?;
        Ok(())
    }

    /// plain projection of every live entry (recycled / tombstone / conflict excluded by class)
    pub async fn live_pop(&self) -> Result<Vec<PEntry>, String> {
        let d = kvcore::srv::dump(&self.qs).await;
        let mut out = Vec::new();
        for (u, e) in &d.entries {
            if kvcore::srv::is_live(e) {
                out.push(pentry_from_dump(*u, e)?);
            }
        }
        Ok(out)
    }

    /// Switch the index layout. Two transactions: (1) create and delete a throw-away schema
    /// attribute entry, which flags the schema as changed so that the commit reloads it, reindexes
    /// and clears the resolved-filter cache exactly as the production path does whenever index
    /// metadata changes (without this, resolutions cached under the previous layout would be
    /// served, a state production cannot reach); (2) install the key subset and reindex.
    pub async fn set_layout(&mut self, l: &Layout) -> Result<usize, String> {
        self.touch += 1;
        let ct = self.tick();
        {
            let mut w = self.qs.write(ct).await.map_err(|e| format!("{e:?}"))?;
            // creating (and at once deleting) a schema attribute entry flags the schema as
            // changed: the commit reloads it, reindexes and clears the resolved-filter cache
            let u = Uuid::from_u128(0xf117_0000_0000_4000_8000_0000_0001_0000 + self.touch as u128);
            let mut e: Entry<EntryInit, EntryNew> = Entry::new();
            e.add_ava(Attribute::Class, EntryClass::Object.to_value());
            e.add_ava(Attribute::Class, EntryClass::AttributeType.to_value());
            e.add_ava(Attribute::Uuid, Value::Uuid(u));
            e.add_ava(
                Attribute::AttributeName,
                Value::new_iutf8(&format!("verif_touch_{}", self.touch)),
            );
            e.add_ava(Attribute::Description, Value::new_utf8s("verif layout switch"));
            e.add_ava(Attribute::MultiValue, Value::new_bool(false));
            e.add_ava(Attribute::Unique, Value::new_bool(false));
            e.add_ava(
                Attribute::Syntax,
                Value::new_syntaxs("UTF8STRING").ok_or("syntax")?,
            );
            w.internal_create(vec![e])
                .map_err(|e| format!("schema touch (create): {e:?}"))?;
            w.internal_delete_uuid(u)
                .map_err(|e| format!("schema touch (delete): {e:?}"))?;
            w.commit().map_err(|e| format!("commit: {e:?}"))?;
        }
        let ct = self.tick();
        let mut w = self.qs.write(ct).await.map_err(|e| format!("{e:?}"))?;
        let keys = w.get_schema().reload_idxmeta();
        let Some(template) = keys.first().cloned() else {
            return Err("schema has no index keys".into());
        };
        let alpha_attrs: Vec<Attribute> = crate::model::ALL_A.iter().map(|a| a.attr()).collect();
        let mut sub: Vec<_> = keys
            .iter()
            .filter(|k| l.others_on && !alpha_attrs.contains(&k.attr))
            .cloned()
            .collect();
        for (a, t) in &l.alpha {
            let mut k = template.clone();
            k.attr = a.attr();
            k.itype = t.real();
            sub.push(k);
        }
        let n = sub.len();
        w.get_be_txn()
            .update_idxmeta(sub.clone())
            .map_err(|e| format!("update_idxmeta: {e:?}"))?;
        w.reindex(false).map_err(|e| format!("reindex: {e:?}"))?;
        if l.reload_slopes {
            w.get_be_txn()
                .update_idxmeta(sub)
                .map_err(|e| format!("update_idxmeta(2): {e:?}"))?;
        }
        w.commit().map_err(|e| format!("commit: {e:?}"))?;
        Ok(n)
    }

    /// which alphabet keys the shipped schema indexes (to validate `default_alpha_keys`)
    pub async fn schema_default_alpha(&mut self) -> Result<BTreeSet<(A, IT)>, String> {
        let ct = self.tick();
        let w = self.qs.write(ct).await.map_err(|e| format!("{e:?}"))?;
        let keys = w.get_schema().reload_idxmeta();
        let mut out = BTreeSet::new();
        for k in keys.iter() {
            for (a, t) in alpha_keys() {
                if k.attr == a.attr() && k.itype == t.real() {
                    out.insert((a, t));
                }
            }
        }
        Ok(out)
    }

    /// a committed write that changes nothing in the alphabet projection
    pub async fn unrelated_write(&mut self, person: Uuid) -> Result<(), String> {
        self.touch += 1;
        let ct = self.tick();
        let mut w = self.qs.write(ct).await.map_err(|e| format!("{e:?}"))?;
        let m = ModifyList::new_purge_and_set(
            Attribute::LegalName,
            Value::new_utf8s(&format!("legal name {}", self.touch)),
        );
        w.internal_modify_uuid(person, &m)
            .map_err(|e| format!("unrelated write: {e:?}"))?;
        w.commit().map_err(|e| format!("commit: {e:?}"))
    }

    /// the anonymous identity as the LDAP gateway derives it: default `Limits`
    pub async fn anon_ident(&self) -> Result<Identity, String> {
        let mut pr = self.idms.proxy_read().await.map_err(|e| format!("{e:?}"))?;
        pr.validate_ldap_session(
            &LdapSession::UnixBind(UUID_ANONYMOUS),
            Source::Internal,
            self.ct,
        )
        .map_err(|e| format!("anonymous identity: {e:?}"))
    }

    /// the index metadata the backend currently uses (with its real slopes)
    pub async fn current_idxmeta(&self) -> Result<IdxMeta, String> {
        let mut r = self.qs.read().await.map_err(|e| format!("{e:?}"))?;
        Ok(r.get_be_txn().get_idxmeta_ref().clone())
    }
}
