//! Workload generation (weighted op alphabet over a small object population) and the generic
//! history runner shared by all dirsim properties.

use crate::mon::{self, Finding, SchemaSnap};
use crate::world::*;
use kvcore::rng::mix;
use kvcore::{Acc, Args, Rng, Run};
use serde_json::json;
use uuid::Uuid;

#[derive(Clone, Debug, Default)]
pub struct Weights {
    pub create: u32,
    pub create_pair: u32,
    pub create_bad_spn: u32,
    pub rename: u32,
    pub set_desc: u32,
    pub add_desc_multi: u32,
    pub add_member: u32,
    pub rem_member: u32,
    pub set_manager: u32,
    pub scope_map: u32,
    pub dyn_filter: u32,
    pub delete: u32,
    pub revive: u32,
    pub purge_recycled: u32,
    pub purge_tombstones: u32,
    pub reindex: u32,
    pub domain_rename: u32,
    pub spn_tamper: u32,
    pub abort: u32,
    pub schema_attr: u32,
    pub schema_class: u32,
    pub ill_formed: u32,
    pub custom_set: u32,
    pub class_remove: u32,
    pub ext_id: u32,
    pub claim_map: u32,
    pub advance_small: u32,
    pub advance_big: u32,
    pub repl: u32,
    pub refresh: u32,
    pub restart: u32,
}

#[derive(Clone, Debug)]
pub struct Pop {
    pub persons: u8,
    pub services: u8,
    pub groups: u8,
    pub dyngroups: u8,
    pub oauths: u8,
    pub certs: u8,
    pub names: u8,
}

impl Pop {
    pub fn all(&self) -> Vec<Obj> {
        let mut v = Vec::new();
        for i in 0..self.persons {
            v.push(Obj(Kind::Person, i));
        }
        for i in 0..self.services {
            v.push(Obj(Kind::Service, i));
        }
        for i in 0..self.groups {
            v.push(Obj(Kind::Group, i));
        }
        for i in 0..self.dyngroups {
            v.push(Obj(Kind::DynGroup, i));
        }
        for i in 0..self.oauths {
            v.push(Obj(Kind::OAuth2, i));
        }
        for i in 0..self.certs {
            v.push(Obj(Kind::Cert, i));
        }
        v
    }
    pub fn of(&self, k: Kind) -> Vec<Obj> {
        self.all().into_iter().filter(|o| o.0 == k).collect()
    }
    pub fn named(&self) -> Vec<Obj> {
        self.all().into_iter().filter(|o| o.0 != Kind::Cert).collect()
    }
    pub fn groups_all(&self) -> Vec<Obj> {
        self.all().into_iter().filter(|o| o.is_group()).collect()
    }
}

pub struct Profile {
    pub replicas_min: usize,
    pub replicas_max: usize,
    pub file_backed: bool,
    pub ops_min: usize,
    pub ops_max: usize,
    pub pop: Pop,
    pub w: Weights,
    /// bias: probability (of 8) that a data op picks an object that currently exists somewhere
    pub prefill: usize,
    /// allow > changelog-window time jumps and purges in multi-replica histories (C09 only)
    pub long_gaps_when_replicated: bool,
    /// domain level of the servers (dynamic schema entries only take effect below level 15)
    pub level: u32,
    /// every object has its own names: no attribute-uniqueness clashes can arise
    pub unique_names: bool,
    /// every object is only ever created on its home replica (index mod replicas): no same-uuid
    /// creates, hence no conflict entries at all
    pub home_creates: bool,
    /// fraction (of 4) of replicated histories whose replicas have skewed clocks
    pub skewed_quarters: u64,
    /// with 3 replicas, the last one takes no part until it joins by refresh from a random replica at
    /// a random point of the history (a late joiner), then takes part normally
    pub late_joiner: bool,
    /// a third of the revives name two entries in one request
    pub revive_pairs: bool,
}

fn pick_obj(rng: &mut Rng, v: &[Obj]) -> Obj {
    *rng.pick(v)
}

fn any_target(rng: &mut Rng, pop: &Pop) -> Uuid {
    if rng.chance(1, 12) {
        ghost_uuid(rng.below(3) as u8)
    } else {
        pick_obj(rng, &pop.all()).uuid()
    }
}

pub fn gen_op(rng: &mut Rng, n_rep: usize, n_home: usize, p: &Profile, created: &std::collections::BTreeSet<Obj>) -> Op {
    // Dynamic groups other than the built-in ones only ever come from the server's own migrations,
    // identically on every replica; creating new ones on one replica and replicating them is not a
    // supported operation, so harness dyngroups exist in single-replica histories only.
    // Gaps longer than the changelog window between replications (and the purges they enable) are
    // the subject of C09; other replicated profiles stay inside the window so that every replica
    // remains a valid incremental partner.
    let pp;
    let p = if n_rep > 1 && !p.long_gaps_when_replicated {
        let mut q = Profile { pop: p.pop.clone(), w: p.w.clone(), ..*p };
        q.pop.dyngroups = 0;
        q.w.dyn_filter = 0;
        q.w.advance_big = 0;
        q.w.purge_recycled = 0;
        q.w.purge_tombstones = 0;
        pp = q;
        &pp
    } else {
        p
    };
    let w = &p.w;
    let ws = [
        w.create, w.create_pair, w.create_bad_spn, w.rename, w.set_desc, w.add_desc_multi, w.add_member, w.rem_member,
        w.set_manager, w.scope_map, w.dyn_filter, w.delete, w.revive, w.purge_recycled, w.purge_tombstones, w.reindex,
        w.domain_rename, w.spn_tamper, w.abort, w.schema_attr, w.schema_class, w.ill_formed, w.custom_set, w.class_remove,
        w.advance_small, w.advance_big, w.repl, w.refresh, w.restart, w.ext_id, w.claim_map,
    ];
    let r = rng.usize(n_rep);
    let pop = &p.pop;
    let nm = |rng: &mut Rng| rng.below(pop.names as u64) as u8;
    loop {
        let k = rng.weighted(&ws);
        let op = match k {
            0 => {
                let obj = pick_obj(rng, &pop.all());
                if p.long_gaps_when_replicated && created.contains(&obj) { continue; }
                let r = if p.home_creates { obj.1 as usize % n_home.max(1) } else { r };
                Op::Create { r, obj, name: nm(rng), bad_spn: false }
            }
            1 if p.home_creates && n_rep > 1 => continue,
            1 => Op::CreatePair { r, a: pick_obj(rng, &pop.named()), an: nm(rng), b: pick_obj(rng, &pop.named()), bn: nm(rng) },
            2 => Op::Create { r, obj: pick_obj(rng, &pop.named()), name: nm(rng), bad_spn: true },
            3 => Op::Rename { r, obj: pick_obj(rng, &pop.named()), name: nm(rng) },
            4 => Op::SetDesc { r, obj: pick_obj(rng, &pop.named()), val: if rng.chance(1, 4) { None } else { Some(rng.below(3) as u8) } },
            5 => Op::AddDescMulti { r, obj: pick_obj(rng, &pop.named()), val: rng.below(3) as u8 },
            6 => {
                if pop.groups == 0 { continue; }
                let grp = pick_obj(rng, &pop.of(Kind::Group));
                let member = if rng.chance(1, 10) { grp.uuid() } else { any_target(rng, pop) };
                Op::AddMember { r, grp, member }
            }
            7 => {
                if pop.groups == 0 { continue; }
                Op::RemMember { r, grp: pick_obj(rng, &pop.of(Kind::Group)), member: any_target(rng, pop) }
            }
            8 => {
                let cands: Vec<Obj> = pop.all().into_iter().filter(|o| matches!(o.0, Kind::Service | Kind::Group)).collect();
                if cands.is_empty() { continue; }
                Op::SetManager { r, obj: pick_obj(rng, &cands), target: if rng.chance(1, 5) { None } else { Some(any_target(rng, pop)) } }
            }
            9 => {
                if pop.oauths == 0 { continue; }
                Op::ScopeMap { r, oauth: pick_obj(rng, &pop.of(Kind::OAuth2)), grp: any_target(rng, pop), remove: rng.chance(1, 4) }
            }
            10 => {
                if pop.dyngroups == 0 { continue; }
                Op::DynFilter { r, grp: pick_obj(rng, &pop.of(Kind::DynGroup)), filter: rng.below(DYN_FILTERS.len() as u64) as u8 }
            }
            11 => Op::Delete { r, obj: pick_obj(rng, &pop.all()) },
            12 => Op::Revive { r, obj: pick_obj(rng, &pop.all()), also: if p.revive_pairs && rng.chance(1, 3) { Some(pick_obj(rng, &pop.all())) } else { None } },
            13 => Op::PurgeRecycled { r },
            14 => Op::PurgeTombstones { r },
            15 => Op::Reindex { r },
            16 => Op::DomainRename { r, name: rng.below(DOMAINS.len() as u64) as u8 },
            17 => Op::SpnTamper { r, obj: pick_obj(rng, &pop.named()), purge: rng.bool() },
            18 => Op::Abort { r, obj: pick_obj(rng, &pop.named()) },
            19 => Op::SchemaAttr { r, idx: rng.below(2) as u8, multi: rng.bool() },
            20 => Op::SchemaClass { r, idx: rng.below(2) as u8 },
            21 => Op::IllFormed { r, obj: pick_obj(rng, &pop.named()), kind: rng.below(8) as u8 },
            22 => Op::CustomSet { r, obj: pick_obj(rng, &pop.named()), idx: rng.below(2) as u8, with_class: rng.chance(3, 4) },
            23 => Op::ClassRemove { r, obj: pick_obj(rng, &pop.named()), idx: rng.below(2) as u8 },
            24 => Op::Advance { r, secs: *rng.pick(&[0u64, 0, 1, 30, 3600]), nanos: rng.below(3) as u32 },
            25 => Op::Advance { r, secs: *rng.pick(&[DAY, 3 * DAY, 7 * DAY - 1, 7 * DAY + 1, 8 * DAY, 15 * DAY]), nanos: 0 },
            26 => {
                if n_rep < 2 { continue; }
                let to = rng.usize(n_rep);
                let mut from = rng.usize(n_rep);
                if from == to { from = (to + 1) % n_rep; }
                Op::Repl { from, to }
            }
            27 => {
                if n_rep < 2 { continue; }
                let to = rng.usize(n_rep);
                let mut from = rng.usize(n_rep);
                if from == to { from = (to + 1) % n_rep; }
                Op::Refresh { from, to }
            }
            28 => {
                if !p.file_backed { continue; }
                Op::Restart { r: 0 }
            }
            29 => Op::ExtId { r, obj: pick_obj(rng, &pop.named()), val: if rng.chance(1, 4) { None } else { Some(rng.below(4) as u8) } },
            _ => {
                if pop.oauths == 0 { continue; }
                Op::ClaimMap { r, oauth: pick_obj(rng, &pop.of(Kind::OAuth2)), claim: rng.below(4).min(2) as u8, grp: any_target(rng, pop), remove: rng.chance(1, 6) }
            }
        };
        return op;
    }
}

/// What a property module plugs into the runner.
pub struct Hooks<'a> {
    /// called after every op with the world (latest dump of the touched replica is in w.dumps[r])
    pub after_op: &'a (dyn Fn(&World, &LogRec, &SchemaSnap, &mut Acc) -> Vec<Finding> + Sync),
    /// called once the history ended and (if multi replica) the mesh was quiesced; arg = quiesced?
    pub at_end: &'a (dyn Fn(&World, bool, &[SchemaSnap], &mut Acc) -> Vec<Finding> + Sync),
    /// does this history count as non-trivial (given the op-kind histogram of accepted ops)?
    pub nontrivial: &'a (dyn Fn(&World) -> bool + Sync),
    /// run dyngroup check (needs server) after each op
    pub dyn_check: bool,
    /// quiesce at end even when single replica (no-op) / skip quiesce
    pub quiesce: bool,
    /// run the server's own verify() at the end of each history, attribute findings to the property
    pub verify_sig: Option<&'static str>,
}

/// ops of a kind that were accepted AND changed stored state
pub fn count_ops(w: &World, kind: &str) -> usize {
    w.log.iter().filter(|l| l.ok && l.changed && l.op.kind() == kind).count()
}

fn report(acc: &mut Acc, w: &World, findings: Vec<Finding>, at: &str, seed_info: &serde_json::Value) -> bool {
    let any = !findings.is_empty();
    // one violation per distinct signature per history is enough
    let mut seen = std::collections::BTreeSet::new();
    for (sig, why) in findings {
        // the context in which the bad state first became observable is part of the cause class
        let sig = format!("{sig}/{at}");
        if seen.insert(sig.clone()) {
            acc.violation(
                &sig,
                json!({"at": at, "why": why, "history_seed": seed_info, "history_tail": w.history_json(60)}),
            );
        }
    }
    any
}

pub type BoxFut<'a, T> = std::pin::Pin<Box<dyn std::future::Future<Output = T> + 'a>>;

/// Optional monitors that need to talk to the live server.
pub struct Ext<'a> {
    pub after_op_async: &'a (dyn for<'b> Fn(&'b World, &'b LogRec) -> BoxFut<'b, Vec<Finding>> + Sync),
    pub at_end_async: &'a (dyn for<'b> Fn(&'b World) -> BoxFut<'b, Vec<Finding>> + Sync),
}

pub fn run_histories(run: &mut Run, args: &Args, prop_salt: u64, histories: u64, prof: &Profile, hooks: &Hooks) {
    run_histories_ext(run, args, prop_salt, histories, prof, hooks, None)
}

/// Run `histories` random histories split over the workers.
pub fn run_histories_ext(run: &mut Run, args: &Args, prop_salt: u64, histories: u64, prof: &Profile, hooks: &Hooks, ext: Option<&Ext>) {
    let mut seed = args.seed;
    // replay: run exactly the history named by the witness (same seed, same index), verbosely
    let only: Option<u64> = args.replay.as_ref().and_then(|p| kvcore::run::load_replay(p)).and_then(|w| {
        if let Some(s) = w["history_seed"]["seed"].as_u64() {
            seed = s;
        }
        w["history_seed"]["history"].as_u64()
    }).or_else(|| std::env::var("VERIF_ONLY_HISTORY").ok().and_then(|s| s.parse().ok()));
    let verbose = only.is_some();
    let workers = if verbose { 1 } else { args.workers.min(histories.max(1) as usize) };
    kvcore::run::install_panic_hook();
    run.parallel(workers, |wk, n| {
        let mut acc = Acc::new();
        let rt = kvcore::srv::rt();
        let mut h = only.unwrap_or(wk as u64);
        while h < histories || verbose {
            let hseed = mix(seed, prop_salt, h);
            let seed_info = json!({"seed": seed, "history": h, "hseed": hseed});
            let mut rng = Rng::new(hseed);
            let nrep = rng.range(prof.replicas_min as u64, prof.replicas_max as u64) as usize;
            let res = std::panic::catch_unwind(std::panic::AssertUnwindSafe(|| {
                rt.block_on(async {
                    let cfg = WorldCfg {
                        replicas: nrep,
                        level: prof.level,
                        unique_names: prof.unique_names,
                        skew: nrep > 1 && rng.below(4) < prof.skewed_quarters,
                        file_backed: if prof.file_backed { Some(if rng.bool() { Some(64) } else { Some(2048) }) } else { None },
                    };
                    let mut w = World::new(&cfg, &mut rng).await;
                    let nops = rng.range(prof.ops_min as u64, prof.ops_max as u64) as usize;
                    let mut bad = false;
                    let mut snaps: Vec<SchemaSnap> = Vec::new();
                    for i in 0..nrep {
                        snaps.push(mon::schema_snap(w.qs(i)).await);
                    }
                    let late = prof.late_joiner && nrep == 3;
                    let join_at = if late { rng.range(nops as u64 / 4, 3 * nops as u64 / 4) as usize } else { usize::MAX };
                    let mut active = if late { nrep - 1 } else { nrep };
                    let n_home = active;
                    for i in 0..nops {
                        let op = if i == join_at {
                            active = nrep;
                            acc.count("late_joiner_refreshed");
                            Op::Refresh { from: rng.usize(nrep - 1), to: nrep - 1 }
                        } else {
                            gen_op(&mut rng, active, n_home, prof, &w.created)
                        };
                        let schema_touch = matches!(op, Op::SchemaAttr { .. } | Op::SchemaClass { .. } | Op::Repl { .. } | Op::Refresh { .. } | Op::Restart { .. } | Op::DomainRename { .. });
                        let rec = w.apply(op).await;
                        let r = rec.op.target();
                        if verbose {
                            println!("  {:3} {:?} -> {} {}", rec.seq, rec.op, if rec.ok { "ok" } else { "ERR" }, rec.detail);
                        }
                        acc.count(&format!("op.{}.{}", rec.op.kind(), if !rec.ok { "err" } else if rec.changed || matches!(rec.op, Op::Advance { .. } | Op::Reindex { .. } | Op::Restart { .. }) { "ok" } else { "noop" }));
                        if schema_touch {
                            snaps[r] = mon::schema_snap(w.qs(r)).await;
                        }
                        let mut f = (hooks.after_op)(&w, &rec, &snaps[r], &mut acc);
                        if hooks.dyn_check {
                            f.extend(mon::check_dyngroups(w.qs(r), &w.dumps[r]).await);
                        }
                        if let Some(x) = ext {
                            f.extend((x.after_op_async)(&w, &rec).await);
                        }
                        // a rejected or abandoned request must leave nothing behind
                        if !rec.ok && !matches!(rec.op, Op::Repl { .. } | Op::Refresh { .. } | Op::Restart { .. }) && w.dumps[r] != w.prev[r] {
                            let d = w.prev[r].diff(&w.dumps[r]);
                            f.push((format!("{}/rejected-request-left-a-change", hooks.verify_sig.unwrap_or("c04").split('/').next().unwrap_or("c04")), format!("{:?}", d.iter().take(3).collect::<Vec<_>>())));
                        }
                        // what replication delivers is judged where it lands: one context for it
                        let at = if matches!(rec.op, Op::Repl { .. } | Op::Refresh { .. }) { "replicated".to_string() } else { format!("after-{}", rec.op.kind()) };
                        if report(&mut acc, &w, f, &at, &seed_info) {
                            bad = true;
                            break;
                        }
                    }
                    if !bad {
                        let mut quiesced = true;
                        let mut f: Vec<Finding> = Vec::new();
                        if hooks.quiesce && nrep > 1 {
                            match w.quiesce(10).await {
                                Quiesce::Reached(rounds) => acc.count_n("quiesce.rounds", rounds as u64),
                                Quiesce::ApplyError(e) => {
                                    quiesced = false;
                                    acc.count("quiesce.apply_error");
                                    let class: String = e.chars().filter(|c| c.is_ascii_alphanumeric() || *c == '(' ).collect::<String>().replace('(', "-");
                                    if hooks.verify_sig.map(|s| s.starts_with("c08")).unwrap_or(false) {
                                        f.push((format!("c08/replication-apply-fails/{class}"), format!("a consumer cannot apply the supplier's changes, replicas can never converge: {e}")));
                                    } else {
                                        acc.count(&format!("cross.c08.replication_apply_fails.{class}"));
                                    }
                                }
                                Quiesce::Unwilling => {
                                    quiesced = false;
                                    acc.count("quiesce.unwilling");
                                }
                                Quiesce::NotReached => {
                                    if std::env::var("VERIF_DEBUG").is_ok() { eprintln!("DBG not quiesced: history {h}"); }
                                    if verbose { for l in w.log.iter().rev().take(14).rev() { println!("  {:3} {:?} -> {} {}", l.seq, l.op, l.ok, l.detail); } }
                                    quiesced = false;
                                    acc.count("quiesce.not_reached");
                                }
                            }
                            for i in 0..nrep {
                                snaps[i] = mon::schema_snap(w.qs(i)).await;
                            }
                        }
                        if quiesced || !hooks.quiesce {
                            acc.count("histories_judged_at_end");
                        }
                        if verbose {
                            println!("  -- quiescence phase --");
                            for l in w.log.iter().skip(nops) {
                                println!("  {:3} {:?} -> {} {}", l.seq, l.op, if l.ok { "ok" } else { "ERR" }, l.detail);
                            }
                        }
                        f.extend((hooks.at_end)(&w, quiesced, &snaps, &mut acc));
                        if let Some(x) = ext {
                            f.extend((x.at_end_async)(&w).await);
                        }
                        if let Some(sig) = hooks.verify_sig {
                            let me = sig.split('/').next().unwrap_or("");
                            for i in 0..nrep {
                                // kanidm's own spn verify debug_asserts on a mismatch; look first
                                let spn_bad = mon::check_spn(&w.dumps[i]);
                                if !spn_bad.is_empty() {
                                    acc.count("cross.c22.spn_mismatch_seen_verify_skipped");
                                    if me == "c22" {
                                        f.extend(spn_bad);
                                    }
                                    continue;
                                }
                                let v = w.qs(i).verify().await;
                                for e in v {
                                    if let Err(ce) = e {
                                        let name = format!("{ce:?}");
                                        let name = name.split(['(', ' ', '{']).next().unwrap_or("x").to_string();
                                        // which property does this consistency error speak about
                                        let owner = match name.as_str() {
                                            "RefintNotUpheld" => "c16",
                                            "MemberOfInvalid" => "c17",
                                            "InvalidSpn" => "c22",
                                            "DuplicateUniqueAttribute" | "UuidNotUnique" => "c19",
                                            "BackendAllIdsSync" | "BackendIndexSync" | "UuidIndexCorrupt" | "EntryUuidCorrupt" => "c03",
                                            "SchemaClassMissingAttribute" | "SchemaClassPhantomAttribute" | "InvalidAttributeType" => "c15",
                                            _ => "",
                                        };
                                        if owner == me {
                                            f.push((format!("{sig}/{name}"), format!("replica {i}: server verify() reports {ce:?}")));
                                        } else {
                                            acc.count(&format!("cross.verify.{name}"));
                                        }
                                    }
                                }
                            }
                        }
                        report(&mut acc, &w, f, if nrep > 1 { "replicated" } else { "at-end-single" }, &seed_info);
                    }
                    acc.eval();
                    if (hooks.nontrivial)(&w) {
                        let key: Vec<String> = w.log.iter().map(|l| format!("{:?}{}", l.op, l.ok)).collect();
                        acc.nontrivial(&key.join(";"));
                    }
                    if acc.samples.len() < 2 {
                        acc.sample(json!({"history_seed": seed_info, "replicas": nrep, "ops": w.log.len(), "first_ops": w.log.iter().take(12).map(|l| format!("{:?} -> {}", l.op, if l.ok { "ok" } else { "err" })).collect::<Vec<_>>()}));
                    }
                })
            }));
            if res.is_err() {
                let (loc, msg) = kvcore::run::take_last_panic().unwrap_or_default();
                acc.count("panic_in_history");
                // a debug assertion of kanidm itself fired: it is a finding of the property it speaks
                // about, and a cross observation in every other check
                let owner = if loc.contains("plugins/spn.rs") { "c22" }
                    else if loc.contains("plugins/memberof.rs") { "c17" }
                    else if loc.contains("plugins/refint.rs") { "c16" }
                    else if loc.contains("/be/") { "c03" }
                    else if loc.contains("plugins/attrunique.rs") || loc.contains("plugins/base.rs") { "c19" }
                    else if loc.contains("/repl/") { "c08" }
                    else { "" };
                let me = hooks.verify_sig.unwrap_or("dirsim").split('/').next().unwrap_or("dirsim");
                if kvcore::run::panic_in_kanidm(&loc) && owner != me {
                    acc.count(&format!("cross.{}.panic_in_kanidm", if owner.is_empty() { "other" } else { owner }));
                    acc.observe("kanidm_debug_assertions_fired", &format!("{loc}: {msg}"));
                } else if kvcore::run::panic_in_kanidm(&loc) {
                    let short = loc.rsplit('/').next().unwrap_or("").replace(':', "-");
                    acc.violation(
                        &format!("{me}/panic-in-kanidm/{short}"),
                        json!({"panic": msg, "location": loc, "history_seed": seed_info}),
                    );
                } else if loc.contains("/.cargo/registry/") {
                    // a debug assertion inside a third-party crate kanidm calls (the harness itself
                    // uses none of them on this path): recorded, the history is not judged
                    acc.count("cross.panic_in_dependency");
                    acc.observe("dependency_panics", &format!("{loc}: {msg}"));
                } else {
                    acc.inconclusive(&format!("harness panic at {loc}: {msg}"));
                }
            }
            if verbose {
                for v in &acc.violations {
                    println!("REPLAY finding: {} :: {}", v.signature, v.detail["why"].as_str().unwrap_or(""));
                }
                break;
            }
            h += n as u64;
        }
        acc
    });
}
