//! C26 Recycle bin lifecycle holds, and C09 Deleted entries are never resurrected by replication.
use crate::mon::{self, Finding, SchemaSnap};
use crate::sim::*;
use crate::world::*;
use kanidmd_lib::prelude::*;
use kvcore::srv;
use kvcore::{Acc, Args, Run};
use std::collections::{BTreeMap, BTreeSet};

const WINDOW: u64 = 7 * DAY; // RECYCLEBIN_MAX_AGE and CHANGELOG_MAX_AGE outside cfg(test)

fn state(d: &srv::Dump, u: &Uuid) -> &'static str {
    match d.entries.get(u) {
        None => "absent",
        Some(e) if srv::is_tombstone(e) => "tombstone",
        Some(e) if srv::is_conflict(e) => "conflict",
        Some(e) if srv::is_recycled(e) => "recycled",
        Some(_) => "live",
    }
}

/// seconds.nanos of last_modified_cid
fn lm(e: &serde_json::Value) -> Option<Duration> {
    let c = srv::dump_attrs(e)?.get("last_modified_cid")?.get("CI")?.as_array()?.first()?;
    Some(Duration::new(c["t"]["secs"].as_u64()?, c["t"]["nanos"].as_u64()? as u32))
}

/// synchronous part: state machine over (prev dump, op, dump)
fn lifecycle(w: &World, rec: &LogRec, acc: &mut Acc) -> Vec<Finding> {
    let mut f = Vec::new();
    let r = rec.op.target();
    let (prev, now) = (&w.prev[r], &w.dumps[r]);
    let ct = Duration::new(rec.ct.0, rec.ct.1);
    match &rec.op {
        Op::Delete { obj, .. } if rec.ok => {
            let u = obj.uuid();
            if state(prev, &u) == "live" {
                acc.count("lifecycle.delete_of_live");
                if state(now, &u) != "recycled" {
                    f.push(("c26/deleted-entry-not-in-recycle-bin".into(), format!("{u} is {} after delete", state(now, &u))));
                }
                // cascade: a certificate entry referring to a deleted person goes with it
                if obj.0 == Kind::Person {
                    let c = Obj(Kind::Cert, obj.1).uuid();
                    if state(prev, &c) == "live" && mon::uuids_of(&prev.entries[&c], "refers").contains(&u) {
                        acc.count("lifecycle.cascade_delete");
                        if state(now, &c) != "recycled" {
                            f.push(("c26/dependent-not-cascade-deleted".into(), format!("cert {c} is {} after its person was deleted", state(now, &c))));
                        }
                    }
                }
            }
        }
        Op::Revive { obj, also, .. } => {
            let targets: Vec<Uuid> = std::iter::once(obj.uuid()).chain(also.iter().map(|o| o.uuid())).collect();
            let u = obj.uuid();
            let before = state(prev, &u);
            if rec.ok && rec.changed {
                acc.count(&format!("lifecycle.revive_accepted_from_{before}"));
                if also.is_some() {
                    acc.count("lifecycle.revive_request_naming_two_entries");
                }
            } else if before == "tombstone" {
                acc.count("lifecycle.revive_of_tombstone_refused");
            }
            // everything that is live now and was not before
            let revived: BTreeSet<Uuid> = now.entries.keys().filter(|x| state(now, x) == "live" && state(prev, x) != "live" && state(prev, x) != "absent").cloned().collect();
            if revived.len() >= 2 {
                acc.count("lifecycle.several_entries_revived_by_one_request");
            }
            // groups that two or more of the revived entries were direct members of
            {
                let mut per_group: BTreeMap<Uuid, usize> = BTreeMap::new();
                for x in &revived {
                    for g in mon::uuids_of(&prev.entries[x], "recycled_directmemberof") {
                        if now.entries.get(&g).map(srv::is_live).unwrap_or(false) {
                            *per_group.entry(g).or_default() += 1;
                        }
                    }
                }
                if per_group.values().any(|n| *n >= 2) {
                    acc.count("lifecycle.live_group_shared_by_several_revived_entries");
                }
            }
            for x in &revived {
                let bx = state(prev, x);
                if bx != "recycled" {
                    f.push((format!("c26/revive-accepted-for-{bx}-entry"), format!("{x}")));
                    continue;
                }
                // asked for, or a cascade-deleted dependent of something revived with it
                let dep_of: Vec<String> = srv::dump_strs(&prev.entries[x], "cascade_deleted");
                if !targets.contains(x) && !dep_of.iter().any(|o| revived.iter().any(|y| &y.to_string() == o)) {
                    f.push(("c26/entry-revived-without-being-asked-for".into(), format!("{x} after revive of {targets:?}")));
                }
                // direct memberships of groups that still exist come back
                for g in mon::uuids_of(&prev.entries[x], "recycled_directmemberof") {
                    let Some(ge) = now.entries.get(&g) else { continue };
                    if !srv::is_live(ge) || srv::dump_classes(ge).iter().any(|c| c == "dyngroup") {
                        continue;
                    }
                    acc.count("lifecycle.membership_to_restore");
                    if revived.len() >= 2 {
                        acc.count("lifecycle.membership_to_restore_in_multi_entry_revive");
                    }
                    if !mon::uuids_of(ge, "member").contains(x) {
                        f.push(("c26/direct-membership-not-restored-on-revive".into(), format!("{x} was a direct member of live group {g} when deleted; after the revive of {targets:?} the group does not list it")));
                    }
                }
                // cascade-deleted dependents come back
                for (cu, ce) in &prev.entries {
                    if srv::is_recycled(ce) && srv::dump_strs(ce, "cascade_deleted").iter().any(|s| s == &x.to_string()) {
                        acc.count("lifecycle.dependent_to_restore");
                        if state(now, cu) != "live" {
                            f.push(("c26/dependent-not-revived-with-its-owner".into(), format!("dependent {cu} is {} after {x} was revived", state(now, cu))));
                        }
                    }
                }
            }
            if rec.ok && rec.changed {
                for t in &targets {
                    if state(prev, t) == "recycled" && state(now, t) != "live" {
                        f.push(("c26/revived-entry-not-live".into(), format!("{t} is {}", state(now, t))));
                    }
                }
            }
            for t in &targets {
                if state(prev, t) == "tombstone" && state(now, t) == "live" {
                    f.push(("c26/tombstone-revived".into(), format!("{t}")));
                }
            }
        }
        Op::PurgeRecycled { .. } if rec.ok => {
            for (u, e) in &prev.entries {
                if !srv::is_recycled(e) || srv::is_tombstone(e) || srv::is_conflict(e) {
                    continue;
                }
                let Some(t) = lm(e) else { continue };
                let became_ts = state(now, u) == "tombstone";
                let old_enough = ct > t + Duration::from_secs(WINDOW);
                acc.count(if became_ts { "lifecycle.purge_tombstoned" } else { "lifecycle.purge_kept" });
                if became_ts && !old_enough {
                    f.push(("c26/recycled-entry-tombstoned-before-retention-period".into(), format!("{u} recycled at {t:?}, purge at {ct:?}")));
                }
                if !became_ts && ct > t + Duration::from_secs(WINDOW) + Duration::from_secs(5) {
                    acc.count("lifecycle.purge_left_expired_recycled_entry");
                }
            }
        }
        Op::PurgeTombstones { .. } if rec.ok => {
            for (u, e) in &prev.entries {
                if !srv::is_tombstone(e) {
                    continue;
                }
                let Some(t) = lm(e) else { continue };
                let gone = state(now, u) == "absent";
                acc.count(if gone { "lifecycle.tombstone_reaped" } else { "lifecycle.tombstone_kept" });
                if gone && ct <= t + Duration::from_secs(WINDOW) {
                    f.push(("c26/tombstone-removed-before-changelog-window".into(), format!("{u} tombstoned at {t:?}, reaped at {ct:?}")));
                }
            }
        }
        _ => {}
    }
    // nothing but a revive brings an entry back, and nothing un-tombstones
    for (u, e) in &prev.entries {
        let before = if srv::is_tombstone(e) { "tombstone" } else if srv::is_recycled(e) { "recycled" } else { continue };
        if state(now, u) == "live" && !matches!(rec.op, Op::Revive { .. }) && !srv::is_conflict(e) {
            f.push((format!("c26/{before}-entry-became-live-without-revive"), format!("{u} after {:?}", rec.op.kind())));
        }
        if before == "tombstone" && state(now, u) == "recycled" {
            f.push(("c26/tombstone-returned-to-recycle-bin".into(), format!("{u}")));
        }
    }
    f
}

/// visibility: normal search hides recycled entries, the recycle-bin admin can find them
async fn visibility(w: &World, rec: &LogRec) -> Vec<Finding> {
    let mut f = Vec::new();
    let r = rec.op.target();
    if !matches!(rec.op, Op::Delete { .. } | Op::Revive { .. } | Op::PurgeRecycled { .. }) {
        return f;
    }
    let d = &w.dumps[r];
    let mut rd = w.qs(r).read().await.expect("read");
    let admin = match rd.internal_search_uuid(UUID_RBADMIN) {
        Ok(a) => a,
        Err(_) => return f,
    };
    let ident = Identity::from_impersonate_entry_readwrite(admin);
    for (u, e) in &d.entries {
        if Obj::from_uuid(*u).is_none() {
            continue;
        }
        let st = state(d, u);
        // ordinary search (as the admin)
        let flt = filter!(f_eq(Attribute::Uuid, PartialValue::Uuid(*u)));
        let seen_normal = rd.impersonate_search(flt.clone(), flt, &ident).map(|v| !v.is_empty()).unwrap_or(false);
        let rflt = filter_rec!(f_eq(Attribute::Uuid, PartialValue::Uuid(*u)));
        let seen_bin = rd.impersonate_search(rflt.clone(), rflt, &ident).map(|v| !v.is_empty()).unwrap_or(false);
        match st {
            "recycled" => {
                if seen_normal {
                    f.push(("c26/recycled-entry-visible-to-normal-search".into(), format!("{u}")));
                }
                if !seen_bin && !srv::is_conflict(e) {
                    f.push(("c26/recycled-entry-not-found-by-recycle-bin-admin".into(), format!("{u}")));
                }
            }
            "tombstone" => {
                if seen_normal || seen_bin {
                    f.push(("c26/tombstone-visible-to-search".into(), format!("{u} normal={seen_normal} bin={seen_bin}")));
                }
            }
            _ => {}
        }
    }
    f
}

pub fn c26(args: Args) {
    let mut run = Run::new(args.clone(), "exploration",
        "random delete/revive/purge histories over users, groups, service accounts and certificate entries that depend on a user, with simulated time advanced by amounts around the 7-day retention and changelog windows; after every operation a per-entry state machine is checked against the dumps before/after (delete -> recycled incl. cascade, revive only from recycled and restores direct memberships of still-live groups and cascade-deleted dependents, purge tombstones only entries recycled longer than the retention period, tombstones reaped only after the changelog window, nothing returns to live without a revive) and visibility is probed through real searches as a recycle-bin admin; non-trivial = history with an effective delete followed by an accepted revive or by a purge that tombstoned something; distinct by full op list");
    let prof = Profile {
        replicas_min: 1, replicas_max: 1, file_backed: false, ops_min: 25, ops_max: 70, prefill: 0, long_gaps_when_replicated: false, level: kanidmd_lib::constants::DOMAIN_TGT_LEVEL, unique_names: false, home_creates: false, skewed_quarters: 0, late_joiner: false, revive_pairs: true,
        pop: Pop { persons: 3, services: 1, groups: 3, dyngroups: 0, oauths: 0, certs: 3, names: 6 },
        w: Weights { create: 34, add_member: 16, rem_member: 3, rename: 3, set_desc: 3, delete: 16, revive: 14, purge_recycled: 8, purge_tombstones: 6, advance_small: 4, advance_big: 14, abort: 2, ..Default::default() },
    };
    let after = |w: &World, rec: &LogRec, _s: &SchemaSnap, acc: &mut Acc| lifecycle(w, rec, acc);
    let end = |_w: &World, _q: bool, _s: &[SchemaSnap], _a: &mut Acc| -> Vec<Finding> { Vec::new() };
    let nt = |w: &World| count_ops(w, "delete") > 0 && (count_ops(w, "revive") > 0 || w.log.iter().any(|l| l.ok && l.detail.starts_with("purged ") && l.detail != "purged 0"));
    let hooks = Hooks { after_op: &after, at_end: &end, nontrivial: &nt, dyn_check: false, quiesce: false, verify_sig: Some("c26/server-verify") };
    let n = args.tier.pick(150, 1200);
    run_histories_ext(&mut run, &args, 26, n, &prof, &hooks, Some(&Ext {
        after_op_async: &|w, rec| Box::pin(async move { visibility(w, rec).await }),
        at_end_async: &|_w| Box::pin(async move { Vec::new() }),
    }));
    // revive-dense: no purges, many memberships, deletes and revives (a third naming two entries), so
    // that one request brings back several entries that shared a still-live group
    let prof_dense = Profile {
        pop: Pop { persons: 3, services: 0, groups: 2, dyngroups: 0, oauths: 0, certs: 3, names: 8 },
        w: Weights { create: 30, add_member: 34, rem_member: 2, delete: 18, revive: 20, advance_small: 2, abort: 1, ..Default::default() },
        ops_min: 30, ops_max: 70, ..prof
    };
    run_histories_ext(&mut run, &args, 1026, args.tier.pick(250, 2000), &prof_dense, &hooks, Some(&Ext {
        after_op_async: &|w, rec| Box::pin(async move { visibility(w, rec).await }),
        at_end_async: &|_w| Box::pin(async move { Vec::new() }),
    }));
    c26_scripted(&mut run, &args);
    for k in ["lifecycle.delete_of_live", "lifecycle.cascade_delete", "lifecycle.revive_accepted_from_recycled", "lifecycle.membership_to_restore", "lifecycle.dependent_to_restore", "lifecycle.several_entries_revived_by_one_request", "lifecycle.membership_to_restore_in_multi_entry_revive", "lifecycle.live_group_shared_by_several_revived_entries", "lifecycle.purge_tombstoned", "lifecycle.purge_kept", "lifecycle.tombstone_reaped", "lifecycle.tombstone_kept", "lifecycle.revive_of_tombstone_refused"] {
        let ok = run.acc.get(k) > 0;
        run.require(ok, &format!("{k} never observed"));
    }
    run.finish();
}

/// Scripted enumeration for the revive step: two persons, the certificate entry that depends on the
/// first person, two groups; EVERY assignment of the three entries to the two groups (64), both
/// delete orders, the second group deleted or not before the revive, and four revive requests (one
/// entry / two entries in one request, with the cascade-deleted certificate coming back with its
/// person). Same per-operation oracle as the random part.
fn c26_scripted(run: &mut Run, args: &Args) {
    use kvcore::rng::mix;
    use kvcore::Rng;
    let (p0, c0, p1) = (Obj(Kind::Person, 0), Obj(Kind::Cert, 0), Obj(Kind::Person, 1));
    let (g0, g1) = (Obj(Kind::Group, 0), Obj(Kind::Group, 1));
    let mut cases: Vec<(u8, bool, bool, u8)> = Vec::new();
    for memb in 0..64u8 {
        for p1_first in [false, true] {
            for g1_deleted in [false, true] {
                for rv in 0..4u8 {
                    cases.push((memb, p1_first, g1_deleted, rv));
                }
            }
        }
    }
    let cases = &cases;
    let seed = args.seed;
    kvcore::run::install_panic_hook();
    run.parallel(args.workers, |wk, n| {
        let mut acc = Acc::new();
        let rt = srv::rt();
        let mut i = wk;
        while i < cases.len() {
            let (memb, p1_first, g1_deleted, rv) = cases[i];
            let res = std::panic::catch_unwind(std::panic::AssertUnwindSafe(|| {
                rt.block_on(async {
                    let mut rng = Rng::new(mix(seed, 2626, i as u64));
                    let cfg = WorldCfg { replicas: 1, level: kanidmd_lib::constants::DOMAIN_TGT_LEVEL, unique_names: true, skew: false, file_backed: None };
                    let mut w = World::new(&cfg, &mut rng).await;
                    let mut ops: Vec<Op> = vec![
                        Op::Create { r: 0, obj: p0, name: 0, bad_spn: false },
                        Op::Create { r: 0, obj: p1, name: 1, bad_spn: false },
                        Op::Create { r: 0, obj: c0, name: 2, bad_spn: false },
                        Op::Create { r: 0, obj: g0, name: 3, bad_spn: false },
                        Op::Create { r: 0, obj: g1, name: 4, bad_spn: false },
                    ];
                    for (k, e) in [p0, c0, p1].iter().enumerate() {
                        for (b, g) in [g0, g1].iter().enumerate() {
                            if memb >> (2 * k + b) & 1 == 1 {
                                ops.push(Op::AddMember { r: 0, grp: *g, member: e.uuid() });
                            }
                        }
                    }
                    if p1_first {
                        ops.push(Op::Delete { r: 0, obj: p1 });
                        ops.push(Op::Delete { r: 0, obj: p0 });
                    } else {
                        ops.push(Op::Delete { r: 0, obj: p0 });
                        ops.push(Op::Delete { r: 0, obj: p1 });
                    }
                    if g1_deleted {
                        ops.push(Op::Delete { r: 0, obj: g1 });
                    }
                    ops.push(match rv {
                        0 => Op::Revive { r: 0, obj: p0, also: None },
                        1 => Op::Revive { r: 0, obj: p0, also: Some(p1) },
                        2 => Op::Revive { r: 0, obj: p1, also: Some(p0) },
                        _ => Op::Revive { r: 0, obj: p1, also: Some(c0) },
                    });
                    let mut sigs = BTreeSet::new();
                    for op in ops {
                        let rec = w.apply(op).await;
                        acc.count(&format!("scripted.op.{}.{}", rec.op.kind(), if rec.ok { "ok" } else { "err" }));
                        for (sig, why) in lifecycle(&w, &rec, &mut acc) {
                            if sigs.insert(sig.clone()) {
                                acc.violation(&format!("{sig}/scripted"), serde_json::json!({"memberships_bits_p0g0_p0g1_c0g0_c0g1_p1g0_p1g1": format!("{memb:06b}"), "p1_deleted_first": p1_first, "g1_deleted_before_revive": g1_deleted, "revive_request": rv, "why": why, "history_tail": w.history_json(30)}));
                            }
                        }
                    }
                    acc.eval();
                    acc.nontrivial_distinct();
                })
            }));
            if res.is_err() {
                let (loc, msg) = kvcore::run::take_last_panic().unwrap_or_default();
                if kvcore::run::panic_in_kanidm(&loc) || loc.contains("/.cargo/registry/") {
                    acc.count("scripted.cross.panic_outside_harness");
                    acc.observe("kanidm_debug_assertions_fired", &format!("{loc}: {msg}"));
                } else {
                    acc.inconclusive(&format!("harness panic at {loc}: {msg}"));
                }
            }
            i += n;
        }
        acc
    });
    run.extra("scripted_revive_cases", serde_json::json!({"executed": cases.len(), "dimensions": "64 membership assignments x 2 delete orders x group deleted or not x 4 revive requests"}));
}

// ------------------------------------------------------------------------------------------- C09
pub fn c09(args: Args) {
    let mut run = Run::new(args.clone(), "exploration",
        "random histories on 2-3 replicas with deletes, concurrent edits of the deleted entry elsewhere, recycle-bin purges and tombstone reaping at simulated times around the 7-day windows, and replication delays from none to several windows (a consumer told to refresh is refreshed); no revive and no re-creation of a uuid in this profile. After every replication apply: an entry this replica already held as recycled/tombstone (or had removed) is not live again; at quiescence: no uuid whose delete was accepted anywhere is live anywhere; non-trivial = history with an accepted delete, a later replication and an edit of the deleted entry on another replica; distinct by full op list");
    run.assume("a refresh replaces the whole content of the refreshed replica by design: deletions known only to that replica are lost with it and are not judged");
    run.assume("every object is created at most once per history, so a uuid that is live after its deletion can only have been resurrected");
    let prof = Profile {
        replicas_min: 2, replicas_max: 3, file_backed: false, ops_min: 15, ops_max: 60, prefill: 0, long_gaps_when_replicated: true, level: kanidmd_lib::constants::DOMAIN_TGT_LEVEL, unique_names: true, home_creates: true, skewed_quarters: 0, late_joiner: false, revive_pairs: false,
        pop: Pop { persons: 3, services: 1, groups: 3, dyngroups: 0, oauths: 0, certs: 0, names: 6 },
        w: Weights { create: 30, set_desc: 14, rename: 4, add_member: 10, rem_member: 3, delete: 14, purge_recycled: 6, purge_tombstones: 6, advance_small: 6, advance_big: 10, repl: 22, abort: 1, ..Default::default() },
    };
    let after = |w: &World, rec: &LogRec, _s: &SchemaSnap, acc: &mut Acc| -> Vec<Finding> {
        let mut f = Vec::new();
        let r = rec.op.target();
        if let Op::Repl { .. } = rec.op {
            acc.count(&format!("supplier_answer.{}", rec.detail.split([' ', '/']).next().unwrap_or("?")));
            if rec.detail.contains("auto_refreshed") {
                acc.count("consumer_refreshed_on_demand");
            }
        }
        for (u, was) in &w.resurrected {
            f.push((format!("c09/{was}-entry-live-again-on-same-replica"), format!("{u} on replica {r} after {:?}", rec.op)));
        }
        f
    };
    let end = |w: &World, quiesced: bool, _s: &[SchemaSnap], acc: &mut Acc| -> Vec<Finding> {
        let mut f = Vec::new();
        if !quiesced {
            return f;
        }
        // uuids some replica still remembers as deleted (memory survives everything but a refresh
        // of that replica, which by design replaces its whole content)
        let mut seen = BTreeSet::new();
        let mut any = false;
        for r0 in 0..w.n() {
            for u in &w.dead[r0] {
                any = true;
                for i in 0..w.n() {
                    if w.dumps[i].entries.get(u).map(srv::is_live).unwrap_or(false) && seen.insert(*u) {
                        // how the remembering replica holds it now is part of the cause class
                        let held = state(&w.dumps[r0], u);
                        f.push((format!("c09/deleted-entry-live-at-quiescence/held-as-{held}"), format!("{u} held as {held} by replica {r0} is live on replica {i}")));
                    }
                }
            }
        }
        if any {
            acc.count("histories_with_effective_delete");
        }
        let _: BTreeMap<Uuid, usize> = BTreeMap::new();
        f
    };
    let nt = |w: &World| {
        let del: Vec<(usize, Uuid, usize)> = w.log.iter().filter_map(|l| if let Op::Delete { obj, r } = &l.op { if l.ok && l.changed { Some((l.seq, obj.uuid(), *r)) } else { None } } else { None }).collect();
        del.iter().any(|(seq, u, r)| w.log.iter().any(|l| l.seq > *seq && matches!(l.op, Op::Repl { .. }) && l.ok) && w.log.iter().any(|l| l.ok && l.changed && l.op.target() != *r && match &l.op { Op::SetDesc { obj, .. } | Op::Rename { obj, .. } => obj.uuid() == *u, Op::AddMember { member, .. } => member == u, _ => false }))
    };
    let hooks = Hooks { after_op: &after, at_end: &end, nontrivial: &nt, dyn_check: false, quiesce: true, verify_sig: Some("c09/server-verify") };
    let n = args.tier.pick(200, 1600);
    run_histories(&mut run, &args, 9, n, &prof, &hooks);
    c09_bounded(&mut run, &args);
    for k in ["op.delete.ok", "op.purge_recycled.ok", "op.purge_tombstones.ok", "op.repl.ok", "histories_with_effective_delete", "supplier_answer.v1", "supplier_answer.no_changes"] {
        let ok = run.acc.get(k) > 0;
        run.require(ok, &format!("{k} never observed"));
    }
    run.finish();
}


/// The bounded model of deletion, trimming and lag, executed on real servers: EVERY sequence (up to a
/// bounded length) over {delete on A, edit on A, edit on B, age 8 days + purge recycle bin on A / B,
/// age 8 days + reap tombstones on A / B, replicate A->B, replicate B->A} on two replicas that both
/// hold one entry. Same oracle as the random part.
fn c09_bounded(run: &mut Run, args: &Args) {
    use kvcore::rng::mix;
    use kvcore::Rng;
    const SYMS: usize = 9;
    let maxlen = args.tier.pick(3usize, 4usize);
    // all sequences of length <= maxlen, plus (quick) all of length maxlen+1 that start with the delete
    let mut seqs: Vec<Vec<usize>> = Vec::new();
    for len in 1..=maxlen {
        let total = SYMS.pow(len as u32);
        for mut x in 0..total {
            let mut v = Vec::with_capacity(len);
            for _ in 0..len {
                v.push(x % SYMS);
                x /= SYMS;
            }
            seqs.push(v);
        }
    }
    let total = SYMS.pow(maxlen as u32);
    for mut x in 0..total {
        let mut v = vec![0usize];
        for _ in 0..maxlen {
            v.push(x % SYMS);
            x /= SYMS;
        }
        seqs.push(v);
    }
    let seqs = &seqs;
    let seed = args.seed;
    kvcore::run::install_panic_hook();
    run.parallel(args.workers, |wk, n| {
        let mut acc = Acc::new();
        let rt = srv::rt();
        let e = Obj(Kind::Person, 0);
        let mut i = wk;
        while i < seqs.len() {
            let seq = &seqs[i];
            let res = std::panic::catch_unwind(std::panic::AssertUnwindSafe(|| {
                rt.block_on(async {
                    let mut rng = Rng::new(mix(seed, 909, i as u64));
                    let cfg = WorldCfg { replicas: 2, level: kanidmd_lib::constants::DOMAIN_TGT_LEVEL, unique_names: true, skew: false, file_backed: None };
                    let mut w = World::new(&cfg, &mut rng).await;
                    w.apply(Op::Create { r: 0, obj: e, name: 0, bad_spn: false }).await;
                    w.apply(Op::Repl { from: 0, to: 1 }).await;
                    let mut f: Vec<Finding> = Vec::new();
                    let mut n_desc = 0u8;
                    for s in seq {
                        let ops: Vec<Op> = match s {
                            0 => vec![Op::Delete { r: 0, obj: e }],
                            1 => { n_desc += 1; vec![Op::SetDesc { r: 0, obj: e, val: Some(n_desc % 3) }] }
                            2 => { n_desc += 1; vec![Op::SetDesc { r: 1, obj: e, val: Some(n_desc % 3) }] }
                            3 => vec![Op::Advance { r: 0, secs: 8 * DAY, nanos: 0 }, Op::PurgeRecycled { r: 0 }],
                            4 => vec![Op::Advance { r: 1, secs: 8 * DAY, nanos: 0 }, Op::PurgeRecycled { r: 1 }],
                            5 => vec![Op::Advance { r: 0, secs: 8 * DAY, nanos: 0 }, Op::PurgeTombstones { r: 0 }],
                            6 => vec![Op::Advance { r: 1, secs: 8 * DAY, nanos: 0 }, Op::PurgeTombstones { r: 1 }],
                            7 => vec![Op::Repl { from: 0, to: 1 }],
                            _ => vec![Op::Repl { from: 1, to: 0 }],
                        };
                        for op in ops {
                            let rec = w.apply(op).await;
                            acc.count(&format!("bounded.op.{}.{}", rec.op.kind(), if rec.ok { "ok" } else { "err" }));
                            if let Op::Repl { .. } = rec.op {
                                acc.count(&format!("bounded.supplier_answer.{}", rec.detail.split([' ', '/']).next().unwrap_or("?")));
                            }
                            for (u, was) in &w.resurrected {
                                f.push((format!("c09/{was}-entry-live-again-on-same-replica"), format!("{u} on replica {} after {:?}", rec.op.target(), rec.op)));
                            }
                        }
                    }
                    let q = w.quiesce(8).await;
                    if matches!(q, Quiesce::Reached(_)) {
                        acc.count("bounded.judged_at_quiescence");
                        let mut seen = BTreeSet::new();
                        for r0 in 0..2 {
                            for u in &w.dead[r0] {
                                for k in 0..2 {
                                    if w.dumps[k].entries.get(u).map(srv::is_live).unwrap_or(false) && seen.insert(*u) {
                                        let held = state(&w.dumps[r0], u);
                                        f.push((format!("c09/deleted-entry-live-at-quiescence/held-as-{held}"), format!("{u} held as {held} by replica {r0} is live on replica {k}")));
                                    }
                                }
                            }
                        }
                    } else {
                        acc.count(&format!("bounded.not_quiesced.{}", match q { Quiesce::Unwilling => "unwilling", Quiesce::ApplyError(_) => "apply_error", _ => "other" }));
                    }
                    acc.eval();
                    if seq.contains(&0) && seq.iter().any(|s| *s == 7 || *s == 8) {
                        acc.nontrivial_distinct();
                    }
                    let mut sigs = BTreeSet::new();
                    for (sig, why) in f {
                        if sigs.insert(sig.clone()) {
                            acc.violation(&format!("{sig}/replicated"), serde_json::json!({"bounded_sequence": seq, "alphabet": "0 delete@A, 1 edit@A, 2 edit@B, 3 age+purge-recycled@A, 4 same@B, 5 age+reap-tombstones@A, 6 same@B, 7 repl A->B, 8 repl B->A", "why": why, "history_tail": w.history_json(30)}));
                        }
                    }
                })
            }));
            if res.is_err() {
                let (loc, msg) = kvcore::run::take_last_panic().unwrap_or_default();
                if kvcore::run::panic_in_kanidm(&loc) || loc.contains("/.cargo/registry/") {
                    acc.count("bounded.cross.panic_outside_harness");
                    acc.observe("kanidm_debug_assertions_fired", &format!("{loc}: {msg}"));
                } else {
                    acc.inconclusive(&format!("harness panic at {loc}: {msg}"));
                }
            }
            i += n;
        }
        acc
    });
    run.extra("bounded_sequences", serde_json::json!({"executed": seqs.len(), "max_length_exhaustive": maxlen, "plus_all_of_length": maxlen + 1, "starting_with": "delete@A"}));
    let j = run.acc.get("bounded.judged_at_quiescence") > 0;
    run.require(j, "no bounded sequence reached quiescence");
}
