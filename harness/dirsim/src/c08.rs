//! C08 Replicas converge.
use crate::mon::{Finding, SchemaSnap};
use crate::sim::*;
use crate::world::*;
use kvcore::srv;
use kvcore::{Acc, Args, Run};
use serde_json::Value as Json;

/// Entry normalised for cross-replica comparison: local, non-replicated bookkeeping removed.
fn sort_sets(v: &mut Json) {
    // value sets are sets: the order of the stored array carries no meaning
    if let Some(m) = v.as_object_mut() {
        for (_, x) in m.iter_mut() {
            if let Some(a) = x.as_array_mut() {
                a.sort_by_key(|i| i.to_string());
            }
        }
    }
}

pub fn normalise(e: &Json) -> Json {
    let mut e = e.clone();
    if let Some(attrs) = e.get_mut("ent").and_then(|x| x.get_mut("V3")).and_then(|x| x.get_mut("attrs")).and_then(|x| x.as_object_mut()) {
        for (_, vs) in attrs.iter_mut() {
            sort_sets(vs);
        }
    }
    if let Some(attrs) = e.get_mut("ent").and_then(|x| x.get_mut("V3")).and_then(|x| x.get_mut("attrs")).and_then(|x| x.as_object_mut()) {
        // created/last-modified cid are local, non-replicated summaries of the change state
        attrs.remove("created_at_cid");
        attrs.remove("last_modified_cid");
    }
    // change ids of locally derived, non-replicated attributes are local too
    if let Some(ch) = e.get_mut("ent").and_then(|x| x.get_mut("V3")).and_then(|x| x.get_mut("changestate")).and_then(|x| x.get_mut("V1Live")).and_then(|x| x.get_mut("changes")).and_then(|x| x.as_object_mut()) {
        for a in ["memberof", "directmemberof", "dynmember", "created_at_cid", "last_modified_cid"] {
            ch.remove(a);
        }
    }
    e
}

fn derived_stripped(e: &Json) -> Json {
    let mut e = normalise(e);
    if let Some(attrs) = e.get_mut("ent").and_then(|x| x.get_mut("V3")).and_then(|x| x.get_mut("attrs")).and_then(|x| x.as_object_mut()) {
        for a in ["memberof", "directmemberof", "dynmember", "recycled_directmemberof"] {
            attrs.remove(a);
        }
    }
    e
}

pub fn compare(w: &World) -> Vec<Finding> {
    let mut f = Vec::new();
    for i in 1..w.n() {
        let (a, b) = (&w.dumps[0], &w.dumps[i]);
        let mut keys: std::collections::BTreeSet<_> = a.entries.keys().collect();
        keys.extend(b.entries.keys());
        for u in keys {
            match (a.entries.get(u), b.entries.get(u)) {
                (Some(x), Some(y)) => {
                    if normalise(x) == normalise(y) {
                        continue;
                    }
                    // identical state and identical attribute values but different change ids:
                    // the statement speaks of entries and values, not of change metadata
                    if srv::dump_attrs(&normalise(x)) == srv::dump_attrs(&normalise(y)) {
                        continue;
                    }
                    let kind = |e: &Json| if srv::is_tombstone(e) { "tombstone" } else if srv::is_conflict(e) { "conflict" } else if srv::is_recycled(e) { "recycled" } else { "live" };
                    let differing_attrs: Vec<String> = {
                        let (ax, ay) = (srv::dump_attrs(&normalise(x)).cloned().unwrap_or_default(), srv::dump_attrs(&normalise(y)).cloned().unwrap_or_default());
                        let mut ks: std::collections::BTreeSet<String> = ax.keys().cloned().collect();
                        ks.extend(ay.keys().cloned());
                        ks.into_iter().filter(|k| ax.get(k) != ay.get(k)).collect()
                    };
                    let is_dyngroup = srv::dump_classes(x).iter().any(|c| c == "dyngroup");
                    let sig = if kind(x) == "conflict" || kind(y) == "conflict" {
                        // the statement demands identical conflict entries; one class for all of them
                        "c08/conflict-entry-content-differs".to_string()
                    } else if w.skewed {
                        // one cause class: see known_findings.json
                        "c08/entries-diverge-under-clock-skew".to_string()
                    } else if kind(x) != kind(y) {
                        format!("c08/entry-state-differs/{}-vs-{}", kind(x), kind(y))
                    } else if kind(x) == "conflict" {
                        // the statement demands identical conflict entries; one class for all of them
                        "c08/conflict-entry-content-differs".to_string()
                    } else if is_dyngroup && differing_attrs == vec!["dynmember".to_string()] {
                        format!("c08/dyngroup-dynmember-differs/{}", kind(x))
                    } else {
                        format!("c08/{}-entry-attributes-differ/{}", kind(x), differing_attrs.join("+"))
                    };
                    let mut da = srv::Dump { entries: Default::default() };
                    da.entries.insert(*u, normalise(x));
                    let mut db = srv::Dump { entries: Default::default() };
                    db.entries.insert(*u, normalise(y));
                    f.push((sig, format!("replica 0 vs {i}: {:?}", da.diff(&db))));
                }
                (Some(x), None) | (None, Some(x)) => {
                    let kind = if srv::is_tombstone(x) { "tombstone" } else if srv::is_conflict(x) { "conflict" } else if srv::is_recycled(x) { "recycled" } else { "live" };
                    // a tombstone may have been reaped on one side only (local trim): not judged
                    if kind == "tombstone" {
                        continue;
                    }
                    f.push((format!("c08/entry-only-on-one-replica/{kind}"), format!("replica 0 vs {i}: {u} present on one side only ({kind})")));
                }
                (None, None) => {}
            }
        }
    }
    f
}

pub fn c08(args: Args) {
    let mut run = Run::new(args.clone(), "exploration",
        "random concurrent write histories on 2-3 real replicas (same-uuid creates, same-name creates, concurrent edits of single- and multi-valued attributes, deletes racing edits, membership changes, revive) with skewed simulated clocks and a random schedule of pairwise incremental replications and occasional refresh, then a full mesh to quiescence; at quiescence the normalised dumps (all live, recycled, conflict entries with attribute values and change state; tombstones compared when present on both) must be identical; non-trivial = history with writes accepted on >= 2 replicas and >= 1 replication before the end; distinct by full op list");
    run.assume("tombstones reaped on one replica only (local changelog trim) are not compared; created_at_cid / last_modified_cid are local summaries and excluded");
    let prof = Profile {
        replicas_min: 2, replicas_max: 3, file_backed: false, ops_min: 12, ops_max: 60, prefill: 0, long_gaps_when_replicated: false, level: kanidmd_lib::constants::DOMAIN_TGT_LEVEL, unique_names: true, home_creates: true, skewed_quarters: 2, late_joiner: false, revive_pairs: false,
        pop: Pop { persons: 3, services: 1, groups: 3, dyngroups: 1, oauths: 1, certs: 1, names: 4 },
        w: Weights { create: 34, create_pair: 3, rename: 10, set_desc: 14, add_member: 14, rem_member: 6, set_manager: 4, scope_map: 4, delete: 9, revive: 5, dyn_filter: 2,
            advance_small: 8, repl: 18, abort: 2, ..Default::default() },
    };
    let after = |_w: &World, _rec: &LogRec, _s: &SchemaSnap, _acc: &mut Acc| Vec::new();
    let end = |w: &World, quiesced: bool, _s: &[SchemaSnap], acc: &mut Acc| -> Vec<Finding> {
        if !quiesced {
            return Vec::new();
        }
        if w.dumps.iter().any(|d| d.entries.values().any(srv::is_conflict)) {
            acc.count("histories_with_conflict_entries");
        }
        compare(w)
    };
    let nt = |w: &World| {
        let mut reps = std::collections::BTreeSet::new();
        for l in &w.log {
            if l.ok && !matches!(l.op, Op::Repl { .. } | Op::Refresh { .. } | Op::Advance { .. }) {
                reps.insert(l.op.target());
            }
        }
        reps.len() >= 2 && count_ops(w, "repl") > 0
    };
    let hooks = Hooks { after_op: &after, at_end: &end, nontrivial: &nt, dyn_check: false, quiesce: true, verify_sig: Some("c08/server-verify") };
    // core: every object is created on one replica only; conflict: the same uuid may be created on
    // several replicas (conflict entries arise). Signatures carry the sub-profile.
    let n = args.tier.pick(90, 800);
    run_histories(&mut run, &args, 8, n, &prof, &hooks);
    let prof_conf = Profile { pop: prof.pop.clone(), w: prof.w.clone(), home_creates: false, ..prof };
    let end_conf = |w: &World, quiesced: bool, s: &[SchemaSnap], acc: &mut Acc| -> Vec<Finding> {
        end(w, quiesced, s, acc).into_iter().map(|(sig, why)| (sig.replacen("c08/", "c08/same-uuid-creates/", 1), why)).collect()
    };
    let hooks_conf = Hooks { after_op: &after, at_end: &end_conf, nontrivial: &nt, dyn_check: false, quiesce: true, verify_sig: Some("c08/server-verify") };
    run_histories(&mut run, &args, 1008, args.tier.pick(50, 400), &prof_conf, &hooks_conf);
    // late joiner: a third replica joins by refresh from a random replica in the middle of the
    // history, while changes are still in flight between the other two (equal clocks)
    // few objects and many single-valued edits / clears, so that a write on one replica and a later
    // clear of the same attribute on another are in flight when the third replica joins
    let prof_late = Profile {
        pop: Pop { persons: 2, services: 1, groups: 2, dyngroups: 0, oauths: 0, certs: 0, names: 4 },
        w: Weights { create: 30, rename: 6, set_desc: 40, add_member: 12, rem_member: 10, delete: 4, advance_small: 6, repl: 22, abort: 1, ..Default::default() },
        replicas_min: 3, replicas_max: 3, skewed_quarters: 0, late_joiner: true, ops_min: 20, ops_max: 50, ..prof
    };
    let end_late = |w: &World, quiesced: bool, s: &[SchemaSnap], acc: &mut Acc| -> Vec<Finding> {
        end(w, quiesced, s, acc).into_iter().map(|(sig, why)| (sig.replacen("c08/", "c08/late-joiner/", 1), why)).collect()
    };
    let hooks_late = Hooks { after_op: &after, at_end: &end_late, nontrivial: &nt, dyn_check: false, quiesce: true, verify_sig: Some("c08/server-verify") };
    run_histories(&mut run, &args, 2008, args.tier.pick(90, 800), &prof_late, &hooks_late);
    c08_bounded(&mut run, &args);
    let lj = run.acc.get("late_joiner_refreshed") > 0;
    run.require(lj, "no late joiner was ever refreshed");
    for k in ["create", "rename", "set_desc", "add_member", "delete", "repl"] {
        let ok = run.acc.get(&format!("op.{k}.ok")) > 0;
        run.require(ok, &format!("operation kind {k} was never accepted"));
    }
    let c = run.acc.get("histories_with_conflict_entries") > 0;
    run.require(c, "no history produced a conflict entry");
    run.finish();
}


/// Bounded exhaustive part: three real replicas A, B, C that all hold one person (with a
/// description) and one group; EVERY sequence up to a bounded length over single-valued writes and
/// purges on A and B, adding / removing the group's only member, refresh of C from A or B, and
/// pairwise incremental replications; then a full mesh to quiescence and the same comparison as the
/// random part. Covers the orders in which a write, a later purge of the same attribute and the
/// (re)join of a replica can interleave.
fn c08_bounded(run: &mut Run, args: &Args) {
    use kvcore::rng::mix;
    use kvcore::Rng;
    const NAMES: [&str; 12] = ["set@A", "purge@B", "add-member@A", "rem-member@B", "refresh B->C", "refresh A->C", "repl A->C", "repl A->B", "repl B->C", "set@B", "purge@A", "repl B->A"];
    let thorough = args.tier.pick(false, true);
    let mut seqs: Vec<Vec<usize>> = Vec::new();
    // need: 0 nothing, 1 a refresh, 2 a refresh + a write on A + a write on B + an incremental replication
    let all = |syms: usize, len: usize, need: u8, seqs: &mut Vec<Vec<usize>>| {
        let total = syms.pow(len as u32);
        for mut x in 0..total {
            let mut v = Vec::with_capacity(len);
            for _ in 0..len {
                v.push(x % syms);
                x /= syms;
            }
            let refresh = v.iter().any(|s| *s == 4 || *s == 5);
            let wa = v.iter().any(|s| matches!(*s, 0 | 2 | 10));
            let wb = v.iter().any(|s| matches!(*s, 1 | 3 | 9));
            let rp = v.iter().any(|s| matches!(*s, 6 | 7 | 8 | 11));
            if need == 0 || (need == 1 && refresh) || (need == 2 && refresh && wa && wb && rp) {
                seqs.push(v);
            }
        }
    };
    if thorough {
        for len in 1..=3 {
            all(12, len, 0, &mut seqs);
        }
        all(9, 4, 1, &mut seqs);
        all(12, 4, 2, &mut seqs);
        seqs.sort();
        seqs.dedup();
    } else {
        for len in 1..=2 {
            all(9, len, 0, &mut seqs);
        }
        all(9, 3, 1, &mut seqs);
        all(9, 4, 2, &mut seqs);
    }
    let seqs = &seqs;
    let seed = args.seed;
    kvcore::run::install_panic_hook();
    run.parallel(args.workers, |wk, n| {
        let mut acc = Acc::new();
        let rt = srv::rt();
        let (e, g) = (Obj(Kind::Person, 0), Obj(Kind::Group, 0));
        let mut i = wk;
        while i < seqs.len() {
            let seq = &seqs[i];
            let res = std::panic::catch_unwind(std::panic::AssertUnwindSafe(|| {
                rt.block_on(async {
                    let mut rng = Rng::new(mix(seed, 808, i as u64));
                    let cfg = WorldCfg { replicas: 3, level: kanidmd_lib::constants::DOMAIN_TGT_LEVEL, unique_names: true, skew: false, file_backed: None };
                    let mut w = World::new(&cfg, &mut rng).await;
                    w.apply(Op::Create { r: 0, obj: e, name: 0, bad_spn: false }).await;
                    w.apply(Op::Create { r: 0, obj: g, name: 1, bad_spn: false }).await;
                    w.apply(Op::SetDesc { r: 0, obj: e, val: Some(0) }).await;
                    w.apply(Op::Repl { from: 0, to: 1 }).await;
                    w.apply(Op::Repl { from: 0, to: 2 }).await;
                    let mut n_desc = 0u8;
                    for s in seq {
                        let op = match s {
                            0 => { n_desc += 1; Op::SetDesc { r: 0, obj: e, val: Some(1 + n_desc % 3) } }
                            1 => Op::SetDesc { r: 1, obj: e, val: None },
                            2 => Op::AddMember { r: 0, grp: g, member: e.uuid() },
                            3 => Op::RemMember { r: 1, grp: g, member: e.uuid() },
                            4 => Op::Refresh { from: 1, to: 2 },
                            5 => Op::Refresh { from: 0, to: 2 },
                            6 => Op::Repl { from: 0, to: 2 },
                            7 => Op::Repl { from: 0, to: 1 },
                            8 => Op::Repl { from: 1, to: 2 },
                            9 => { n_desc += 1; Op::SetDesc { r: 1, obj: e, val: Some(1 + n_desc % 3) } }
                            10 => Op::SetDesc { r: 0, obj: e, val: None },
                            _ => Op::Repl { from: 1, to: 0 },
                        };
                        let rec = w.apply(op).await;
                        acc.count(&format!("bounded.op.{}.{}", rec.op.kind(), if rec.ok { if rec.changed { "ok" } else { "noop" } } else { "err" }));
                    }
                    let q = w.quiesce(8).await;
                    acc.eval();
                    let writes = seq.iter().filter(|s| matches!(**s, 0 | 1 | 2 | 3 | 9 | 10)).count();
                    if writes >= 2 && seq.iter().any(|s| *s == 4 || *s == 5) {
                        acc.nontrivial_distinct();
                    }
                    if matches!(q, Quiesce::Reached(_)) {
                        acc.count("bounded.judged_at_quiescence");
                        let mut sigs = std::collections::BTreeSet::new();
                        for (sig, why) in compare(&w) {
                            let sig = sig.replacen("c08/", "c08/bounded/", 1);
                            if sigs.insert(sig.clone()) {
                                let named: Vec<&str> = seq.iter().map(|s| NAMES[*s]).collect();
                                acc.violation(&format!("{sig}/replicated"), serde_json::json!({"bounded_sequence": named, "setup": "person e (description d0) and empty group g created on A, replicated to B and C", "why": why, "history_tail": w.history_json(30)}));
                            }
                        }
                    } else {
                        acc.count(&format!("bounded.not_quiesced.{}", match q { Quiesce::Unwilling => "unwilling", Quiesce::ApplyError(_) => "apply_error", _ => "other" }));
                    }
                })
            }));
            if res.is_err() {
                let (loc, msg) = kvcore::run::take_last_panic().unwrap_or_default();
                if kvcore::run::panic_in_kanidm(&loc) || loc.contains("/.cargo/registry/") {
                    acc.count("bounded.cross.panic_outside_harness");
                    acc.observe("kanidm_debug_assertions_fired", &format!("{loc}: {msg}"));
                } else {
                    acc.inconclusive(&format!("harness panic at {loc}: {msg}"));
                }
            }
            i += n;
        }
        acc
    });
    run.extra("bounded_sequences", serde_json::json!({"executed": seqs.len(), "alphabet": NAMES[..if thorough { 12 } else { 9 }], "exhaustive_to_length": if thorough { 3 } else { 2 }, "plus_all_with_a_refresh_of_length": if thorough { "4 (first 9 symbols)" } else { "3" }, "plus_length_4_with": "a refresh, a write on A, a write on B and an incremental replication"}));
    let j = run.acc.get("bounded.judged_at_quiescence") > 0;
    run.require(j, "no bounded sequence reached quiescence");
}
